"""Helpers for everything that drives the in-memory property-graph stores (C04, C05; importable by others).

* `Backend("shared"|"disjoint")` – a fresh singleton store + importer; `apply(req)` executes one wire request
  (`[op, graph_id, args…]`, the protocol of lean/FimVerif/Drivers/StoreCodec.lean) against the real classes and
  returns `["ok", out]` / `["err", kind]`; `raw()` is the whole store by internal id; `content(g)` is the
  canonical observable content of one graph (by NodeID, no internal ids).
* `canon_reply`, `canon_raw` – the one canonicalisation applied to *both* the implementation's and the Lean
  driver's replies (sort what came out of dict/set; properties by key; undirected edges as (min,max)).
* `gen_history` – seeded operation histories over a small alphabet.

Values on the wire: any JSON value without floats (str | null | int | bool | list | dict); the Lean side keeps
str / null / int / bool / 2-element lists structurally and every other list or dict as canonical JSON text.  Properties: JSON object.  Imported graphs: {"nodes":[props…],
"edges":[[i,j,props]…]} by node position (the keys of the nx.Graph handed to the store are chosen by the
harness to collide with stored internal ids; the model never sees them).
"""
import json

import networkx as nx

from core import err_kind, canon

GRAPH_ID, NODE_ID, CLASS = "GraphID", "NodeID", "Class"


def reset_singletons():
    from fim.graph.networkx_property_graph import NetworkXGraphStorage
    from fim.graph.networkx_property_graph_disjoint import NetworkXGraphStorageDisjoint
    NetworkXGraphStorage.storage_instance = None
    NetworkXGraphStorageDisjoint.storage_instance = None


def _val(v):
    """wire value -> python value (lists stay lists)"""
    return v


def _props(p):
    return None if p is None else dict(p)


def build_nx(ig, keys=None):
    """positional import graph -> nx.Graph with the given node keys (default 0..n-1)"""
    g = nx.Graph()
    n = len(ig["nodes"])
    keys = list(keys) if keys is not None else list(range(n))
    assert len(keys) == n and len(set(keys)) == n
    for k, a in zip(keys, ig["nodes"]):
        g.add_node(k, **dict(a))
    for i, j, a in ig["edges"]:
        g.add_edge(keys[i], keys[j], **dict(a))
    return g


def ig_of_nx(g):
    """nx.Graph -> positional wire form in the graph's own iteration order"""
    pos = {k: i for i, k in enumerate(g.nodes)}
    return {"nodes": [dict(g.nodes[k]) for k in g.nodes],
            "edges": [[pos[a], pos[b], dict(d)] for a, b, d in g.edges(data=True)]}


class TolerantLock:
    """stands in for the stores' threading.Lock in single-threaded histories: counts instead of blocking, and a
    release of an unlocked lock is recorded rather than raised (lock discipline is C20's property; without
    this the disjoint store's double release on a duplicate graph id masks what the import did)"""

    def __init__(self):
        self.depth = 0
        self.over_release = 0

    def acquire(self, *a, **k):
        self.depth += 1
        return True

    def release(self):
        if self.depth == 0:
            self.over_release += 1
        else:
            self.depth -= 1

    def locked(self):
        return self.depth > 0

    __enter__ = acquire

    def __exit__(self, *a):
        self.release()


HANDLE_MODES = ("fresh", "one", "two")
ENTRY_MODES = ("store", "importer")
IMPORTER_MODES = ("one", "many")
ENTRY_VIAS = ("string", "file")
ENTRY_FMTS = ("graphml", "json")


def doc_text(gr, fmt):
    """the document an importer entry point is handed: GraphML or JSON node-link text of the nx.Graph"""
    if fmt == "graphml":
        return "\n".join(nx.generate_graphml(gr))
    import warnings
    with warnings.catch_warnings():
        warnings.simplefilter("ignore")
        return json.dumps(nx.readwrite.node_link_data(gr))


def doc_parse(text, fmt):
    """what networkx reads back from such a document (used only to decide whether the document says what the request says)"""
    import io
    import warnings
    if fmt == "graphml":
        return nx.read_graphml(io.BytesIO(text.encode("utf-8")))
    with warnings.catch_warnings():
        warnings.simplefilter("ignore")
        return nx.readwrite.node_link_graph(data=json.loads(text))


def _same_doc(a, b):
    x, y = ig_of_nx(a), ig_of_nx(b)
    ce = lambda e: sorted(canon([sorted([i, j]), sorted(d.items())]) for i, j, d in e)  # noqa
    return x["nodes"] == y["nodes"] and [list(n.items()) for n in x["nodes"]] == [list(n.items()) for n in y["nodes"]] \
        and ce(x["edges"]) == ce(y["edges"])


class _Minted:
    """what stands in for the uuid the library generates while `minting(g)` is active: str() / hex / urn give g"""

    def __init__(self, g):
        self.g = g
        self.hex = self.urn = g

    def __str__(self):
        return self.g

    __repr__ = __str__


class minting:
    """with minting(g): every id the library mints through the uuid module (uuid1 / uuid4) is g.  Used for id-less imports:
    which id a call WITHOUT graph_id files its document under is the library's choice; the harness turns that choice into
    the request's graph id (one that holds no nodes), so an id-less import is the model's `add_graph g` - and a library that
    does not mint an id for such a call, but takes one from somewhere else (the document, the path, an earlier call), files
    the document under another id than g, which correspondence and oracle then see."""

    def __init__(self, g):
        self.g = g

    def __enter__(self):
        import uuid
        self.saved = (uuid.uuid1, uuid.uuid4)
        uuid.uuid1 = uuid.uuid4 = lambda *a, **k: _Minted(self.g)
        return self

    def __exit__(self, *a):
        import uuid
        uuid.uuid1, uuid.uuid4 = self.saved
        return False


class Backend:
    """`handles` says which graph-handle OBJECT serves a request (the wire protocol and the models only name the graph id -
    in the models a handle is the graph id and nothing else):
      "fresh" - a new handle object per call (nothing a handle remembers can survive a call);
      "one"   - one handle object per graph id, made at first use and kept for the whole history (also across failing calls,
                delete_graph, delete_all_graphs and re-imports of the id);
      "two"   - two such objects per graph id; which of them serves request number k (and which one is handed to
                merge_nodes / find_matching_nodes as the other graph) is a function of (hseed, k) only, so a prefix of a
                history replays the same choices; the object clone_graph returns becomes the second handle of the new id."""

    def __init__(self, flavour, tolerant_lock=True, handles="fresh", hseed=0, entry="store", plan=None, importers="one", iplan=None,
                 first_logger=None):
        assert flavour in ("shared", "disjoint")
        assert handles in HANDLE_MODES
        assert entry in ENTRY_MODES
        assert importers in IMPORTER_MODES
        self.flavour = flavour
        # which IMPORTER object serves a request (the models know no importer: the store is one per process, an importer
        # is a way to reach it):
        #   "one"  - one importer object, made with the defaults, for the whole history;
        #   "many" - up to three importer objects of the process, made at different moments of the history and with
        #            different constructor arguments (with / without a logger of their own); which one serves request
        #            number k - and whether it is made just then - is a function of (hseed, k) only.  A kept handle
        #            object keeps the importer it was made with, so handles of several importers work side by side.
        #            `iplan` {str(k): "new-logger" | "new-default" | "old<i>"} says it instead (a request it does not list is
        #            served by the importer of the request before); `first_logger` says how the first importer is made.
        self.importers = importers
        self.iplan = None if iplan is None else dict(iplan)
        self.first_logger = first_logger
        self._imps = []
        self.imp_log = []       # [(request number, "new-logger" | "new-default" | "old<i>")] (mode "many")
        self.handles, self.hseed = handles, hseed
        # which entry point serves an import request (`add_graph` / `add_graph_direct`):
        #   "store"    - the store's add_graph / add_graph_direct, handed an nx.Graph (the only thing the models know);
        #   "importer" - the importer's own entry points, handed a DOCUMENT: import_graph_from_string[_direct] or
        #                import_graph_from_file[_direct] on GraphML or JSON node-link text; files come from a pool of one or
        #                two paths per history that are REWRITTEN between imports (load, rewrite, load).  Which of them serves
        #                request number k is a function of (hseed, k) only, or what `plan` {str(k): [via, fmt, slot]} says.
        #                The target of a direct import is then whatever the importer reads out of the document.
        self.entry, self.plan = entry, dict(plan or {})
        self._dir = None
        self.npaths = 1 + (hseed // 2) % 2
        self.last_import = None     # (via, fmt, slot, graph id of the returned handle) of the last importer-served import
        self.imports = []           # [(request number, via, fmt, slot)]
        self._h = {}            # graph id -> [handle objects]
        self.calls = 0          # requests applied so far
        # a fresh singleton for this flavour only (a shared and a disjoint Backend may be alive side by side;
        # two Backends of the same flavour may not)
        if flavour == "shared":
            from fim.graph.networkx_property_graph import NetworkXGraphImporter, NetworkXPropertyGraph, NetworkXGraphStorage
            NetworkXGraphStorage.storage_instance = None
            self._shell, self._imp_cls = NetworkXGraphStorage, NetworkXGraphImporter
            self.cls = NetworkXPropertyGraph
        else:
            from fim.graph.networkx_property_graph_disjoint import NetworkXGraphImporterDisjoint, NetworkXPropertyGraphDisjoint, \
                NetworkXGraphStorageDisjoint
            NetworkXGraphStorageDisjoint.storage_instance = None
            self._shell, self._imp_cls = NetworkXGraphStorageDisjoint, NetworkXGraphImporterDisjoint
            self.cls = NetworkXPropertyGraphDisjoint
        self.tolerant_lock = tolerant_lock
        self._locked = None
        import random
        if first_logger is None:
            first_logger = importers == "many" and random.Random(hseed * 15485863 + 3).random() < 0.4
        self.importer = self.new_importer(bool(first_logger))
        self.storage    # installs the tolerant lock
        self.import_keys = None     # optional callable n -> list of node keys for the next import
        # id-less imports (entry "importer" only): the probability that an `add_graph` request whose target id holds no nodes
        # is served by import_graph_from_string / import_graph_from_file called WITHOUT graph_id - the library then has to
        # mint an id of its own; the harness makes the id it mints the request's (`minting`), so that the wire request and
        # the model stay `add_graph g` with g not in use (ImportEntry.Fresh).  via is then "string-idless" / "file-idless"
        # (also accepted in `plan`; honoured only while the target holds no nodes).  0 = never (what C05 runs).
        self.idless = 0.0

    @property
    def storage(self):
        """the store object of the process AS IT IS NOW (the class-level instance every importer's shell delegates to) - not
        a reference taken when the Backend was made: whatever replaces that object mid-history is seen by every observer"""
        st = self._shell.storage_instance
        if self.tolerant_lock and st is not None and st is not self._locked:
            st.lock = TolerantLock()
            self._locked = st
        return st

    def new_importer(self, with_logger):
        """one more importer object of the process; `with_logger`: given a logger of its own (silent), else the defaults"""
        if with_logger:
            import logging
            lg = logging.getLogger("verif-importer-%d" % len(self._imps))
            lg.propagate = False
            if not lg.handlers:
                lg.addHandler(logging.NullHandler())
            imp = self._imp_cls(logger=lg)
        else:
            imp = self._imp_cls()
        self._imps.append(imp)
        return imp

    def turn(self):
        """mode "many": pick (or make) the importer object serving request number self.calls"""
        import random
        r = random.Random(self.hseed * 32452843 + self.calls * 17 + 11)
        if self.iplan is not None:
            what = self.iplan.get(str(self.calls))
            if what is None:
                return
            if what.startswith("old"):
                self.importer = self._imps[int(what[3:]) % len(self._imps)]
            else:
                self.importer = self.new_importer(what == "new-logger")
            self.imp_log.append((self.calls, what))
            return
        if len(self._imps) < 3 and r.random() < 0.25:
            lg = r.random() < 0.5
            self.importer = self.new_importer(lg)
            self.imp_log.append((self.calls, "new-logger" if lg else "new-default"))
        else:
            i = r.randrange(len(self._imps))
            self.importer = self._imps[i]
            self.imp_log.append((self.calls, "old%d" % i))

    def fresh(self, g):
        return self.cls(graph_id=g, importer=self.importer)

    def pg(self, g, role=0):
        """the handle object serving graph id g in the current request (role 1 = the other graph of a two-graph call)"""
        if self.handles == "fresh":
            return self.fresh(g)
        hs = self._h.setdefault(g, [])
        if not hs:
            hs.append(self.fresh(g))
        if self.handles == "one":
            return hs[0]
        import random
        i = 1 if random.Random(self.hseed * 1000003 + self.calls * 7 + role).random() < 0.5 else 0
        while len(hs) <= i:
            hs.append(self.fresh(g))
        return hs[i]

    def adopt(self, g, handle):
        """a handle object the API itself returned (clone_graph) is kept like one the caller made"""
        if self.handles == "fresh":
            return
        hs = self._h.setdefault(g, [])
        if self.handles == "one":
            if not hs:
                hs.append(handle)
        elif len(hs) < 2:
            hs.append(handle)
        else:
            hs[1] = handle

    def live_handles(self):
        """[(graph id, index, handle object)] of the handle objects kept so far"""
        return [(g, i, h) for g, hs in sorted(self._h.items()) for i, h in enumerate(hs)]

    # -- one request ------------------------------------------------------------------
    def apply(self, req):
        self.last_import = None
        if self.importers == "many":
            self.turn()
        try:
            return ["ok", self._do(req)]
        except Exception as e:  # noqa
            return ["err", err_kind(e)]
        finally:
            self.calls += 1

    def ask(self, handle, req):
        """a read-only request (one of QUERIES) served by the given handle object; the other graph of find_matching_nodes
        is a fresh handle"""
        try:
            return ["ok", self._on(handle, req[0], req[2:], other=self.fresh)]
        except Exception as e:  # noqa
            return ["err", err_kind(e)]

    def handle_drift(self, queries, only=None):
        """what a kept handle object answers differently from a fresh handle of the same graph id:
        [(graph id, handle index, request, kept handle's reply, fresh handle's reply)] over the given read-only
        requests (`queries(g)` -> requests addressed to g; `only` = the graph ids to look at, default all).  Empty while
        handles are the graph id and nothing else."""
        out = []
        want = {}
        for g, i, h in self.live_handles():
            if only is not None and g not in only:
                continue
            if g not in want:
                want[g] = [(q, self.ask(self.fresh(g), q)) for q in queries(g)]
            for q, b in want[g]:
                a = self.ask(h, q)
                if a != b and canon(canon_reply(q[0], a)) != canon(canon_reply(q[0], b)):
                    out.append((g, i, q, canon_reply(q[0], a), canon_reply(q[0], b)))
        return out

    def _do(self, req):
        op, g = req[0], req[1]
        a = req[2:]
        if op == "add_graph" or op == "add_graph_direct":
            ig = a[0]
            keys = self.import_keys(len(ig["nodes"])) if self.import_keys else None
            gr = build_nx(ig, keys)
            before = ig_of_nx(gr)
            self.last_import = None
            how = self.entry_of(op, g, ig, gr) if self.entry == "importer" else None
            if how is not None:
                return self._import_document(op, g, gr, *how)
            getattr(self.importer.storage, op)(g, gr)
            assert ig_of_nx(gr) == before, "store mutated the graph handed to it"
            return None
        if op == "delete_graph":
            if self.entry == "importer" and (self.hseed + self.calls) % 2 == 1:
                # the importer's own entry point for deleting a graph (every other deletion of an importer-served history)
                return self.importer.delete_graph(graph_id=g)
            return self.pg(g).delete_graph()
        if op == "delete_all_graphs":
            return self.importer.delete_all_graphs()
        if op == "clone":
            r = self.pg(g).clone_graph(new_graph_id=a[0])
            assert r.graph_id == a[0]
            self.adopt(a[0], r)
            return None
        return self._on(self.pg(g), op, a, other=lambda x: self.pg(x, 1))

    # -- imports through the importer's entry points --------------------------------------
    def entry_of(self, op, g, ig, gr):
        """(via, fmt, slot, text) for this import request, or None when only the store's own entry point can be handed it:
        an empty graph (the importers refuse a document without nodes before they reach the store), a direct import whose
        nodes do not all carry the addressed graph id (the importer reads the target id out of the document: such a document
        names another graph, several, or none), a value no document format carries unchanged"""
        import random
        if not ig["nodes"] or not isinstance(g, str):
            return None
        if op == "add_graph_direct" and not all(a.get(GRAPH_ID) == g for a in ig["nodes"]):
            return None
        r = random.Random(self.hseed * 7919 + self.calls * 13 + 5)
        via = "file" if r.random() < 0.75 else "string"
        fmt = r.choice(ENTRY_FMTS)
        slot = r.randrange(self.npaths)
        if self.idless and op == "add_graph" and random.Random(self.hseed * 104729 + self.calls * 31 + 1).random() < self.idless:
            via += "-idless"
        if str(self.calls) in self.plan:
            via, fmt, slot = self.plan[str(self.calls)]
        if via.endswith("-idless") and (op != "add_graph" or self.stored(g)):
            via = via[:-len("-idless")]     # an id in use cannot be the id the library mints
        for f in (fmt,) + tuple(x for x in ENTRY_FMTS if x != fmt):
            try:
                text = doc_text(gr, f)
                if _same_doc(doc_parse(text, f), gr):
                    return via, f, slot, text
            except Exception:  # noqa - the format cannot carry this graph
                pass
        return None

    def path(self, slot):
        import os
        import tempfile
        if self._dir is None:
            self._dir = tempfile.mkdtemp(prefix="verif-store-")
        return os.path.join(self._dir, "work%d.graph" % slot)

    def cleanup(self):
        import shutil
        if self._dir is not None:
            shutil.rmtree(self._dir, ignore_errors=True)
            self._dir = None

    def __del__(self):
        try:
            self.cleanup()
        except Exception:  # noqa
            pass

    def _import_document(self, op, g, gr, via, fmt, slot, text):
        imp = self.importer
        self.imports.append((self.calls, via, fmt, slot))
        self.last_import = (via, fmt, slot, None)
        if via.startswith("file"):
            with open(self.path(slot), "w") as f:      # the work file is overwritten with the next document
                f.write(text)
        if via == "file-idless":
            with minting(g):
                r = imp.import_graph_from_file(graph_file=self.path(slot))
        elif via == "string-idless":
            with minting(g):
                r = imp.import_graph_from_string(graph_string=text)
        elif via == "file":
            if op == "add_graph":
                r = imp.import_graph_from_file(graph_file=self.path(slot), graph_id=g)
            else:
                r = imp.import_graph_from_file_direct(graph_file=self.path(slot))
        elif op == "add_graph":
            r = imp.import_graph_from_string(graph_string=text, graph_id=g)
        else:
            r = imp.import_graph_from_string_direct(graph_string=text)
        rid = getattr(r, "graph_id", None)
        self.last_import = (via, fmt, slot, rid)
        if isinstance(rid, str):
            self.adopt(rid, r)         # the handle the importer returns is kept like one the caller made
        return None

    def _on(self, pgr, op, a, other):
        if op == "add_node":
            return pgr.add_node(node_id=a[0], label=a[1], props=_props(a[2]))
        if op == "delete_node":
            return pgr.delete_node(node_id=a[0])
        if op == "add_link":
            return pgr.add_link(node_a=a[0], rel=a[1], node_b=a[2], props=_props(a[3]))
        if op == "update_node_property":
            return pgr.update_node_property(node_id=a[0], prop_name=a[1], prop_val=a[2])
        if op == "unset_node_property":
            return pgr.unset_node_property(node_id=a[0], prop_name=a[1])
        if op == "update_nodes_property":
            return pgr.update_nodes_property(prop_name=a[0], prop_val=a[1])
        if op == "update_node_properties":
            return pgr.update_node_properties(node_id=a[0], props=dict(a[1]))
        if op == "update_link_property":
            return pgr.update_link_property(node_a=a[0], node_b=a[1], kind=a[2], prop_name=a[3], prop_val=a[4])
        if op == "unset_link_property":
            return pgr.unset_link_property(node_a=a[0], node_b=a[1], kind=a[2], prop_name=a[3])
        if op == "update_link_properties":
            return pgr.update_link_properties(node_a=a[0], node_b=a[1], kind=a[2], props=dict(a[3]))
        if op == "merge_nodes":
            return pgr.merge_nodes(node_id=a[0], other_graph=other(a[1]), merge_properties=_props(a[2]))
        if op == "get_node_properties":
            labels, props = pgr.get_node_properties(node_id=a[0])
            assert len(labels) == 1
            return [labels[0], [[k, v] for k, v in props.items()]]
        if op == "get_link_properties":
            kind, props = pgr.get_link_properties(node_a=a[0], node_b=a[1])
            return [kind, [[k, v] for k, v in props.items()]]
        if op == "list_all_node_ids":
            return list(pgr.list_all_node_ids())
        if op == "nodes_by_class":
            return list(pgr.get_all_nodes_by_class(label=a[0]))
        if op == "nodes_by_class_and_type":
            return list(pgr.get_all_nodes_by_class_and_type(label=a[0], ntype=a[1]))
        if op == "node_exists":
            return bool(pgr.node_exists(node_id=a[0], label=a[1]))
        if op == "graph_exists":
            return bool(pgr.graph_exists())
        if op == "check_node_unique":
            return bool(pgr.check_node_unique(label=a[0], name=a[1]))
        if op == "find_matching_nodes":
            return list(pgr.find_matching_nodes(other_graph=other(a[0])))
        raise ValueError("unknown op " + op)

    # -- observation ------------------------------------------------------------------
    def _graphs(self):
        """[(key, nx.Graph)]: one pair for the shared store, one per dictionary key for the disjoint one"""
        if self.flavour == "shared":
            return [(None, self.storage.graphs)]
        return list(self.storage.graphs.items())

    def raw(self):
        """whole store by internal id (wire form of StoreCodec.snapToJson / dsnapToJson)"""
        def one(G):
            return {"nodes": [[n, [[k, v] for k, v in d.items()]] for n, d in G.nodes(data=True)],
                    "edges": [[a, b, [[k, v] for k, v in d.items()]] for a, b, d in G.edges(data=True)]}
        if self.flavour == "shared":
            r = one(self.storage.graphs)
            r["next"] = self.storage.start_id
            return r
        return {"graphs": {k: one(G) for k, G in self.storage.graphs.items()},
                "ids": {k: v for k, v in self.storage.graph_node_ids.items()}}

    def graph_ids(self):
        ids = set()
        for key, G in self._graphs():
            for n, d in G.nodes(data=True):
                if isinstance(d.get(GRAPH_ID), str):
                    ids.add(d[GRAPH_ID])
        return ids

    def content(self, g):
        """canonical observable content of graph g: nodes (all attributes but GraphID) and the edges between
        them by NodeID; independent of internal ids and of the store flavour.  Read straight off the nx objects,
        without calling store methods (the disjoint store's getters create dictionary entries)."""
        if self.flavour == "shared":
            G = self.storage.graphs
        else:
            G = self.storage.graphs.get(g) if g in self.storage.graphs else None
            if G is None:
                return {"nodes": [], "edges": []}
        mine = [n for n, d in G.nodes(data=True) if d.get(GRAPH_ID) == g]
        ms = set(mine)
        nodes = sorted(canon(sorted([k, v] for k, v in G.nodes[n].items() if k != GRAPH_ID)) for n in mine)
        edges = []
        for a, b, d in G.edges(data=True):
            if a in ms and b in ms:
                ends = sorted([canon(G.nodes[a].get(NODE_ID)), canon(G.nodes[b].get(NODE_ID))])
                edges.append(canon([ends, sorted([k, v] for k, v in d.items())]))
        return {"nodes": nodes, "edges": sorted(edges)}

    def stored(self, g):
        """attribute dicts of the nodes the store keeps for graph id g, *raw*: on the shared store the nodes whose GraphID is g,
        on the disjoint store whatever sits under the key g (whatever GraphID those nodes carry)"""
        if self.flavour == "shared":
            return [d for n, d in self.storage.graphs.nodes(data=True) if d.get(GRAPH_ID) == g]
        if g not in self.storage.graphs:
            return []
        return [d for n, d in self.storage.graphs[g].nodes(data=True)]

    def homed(self, g):
        """every node kept for g carries GraphID == g (always true on the shared store; on the disjoint store a GraphID
        rewrite leaves the node under its old key, invisible to lookups: DStore.Homed)"""
        return all(d.get(GRAPH_ID) == g for d in self.stored(g))

    def keyed(self):
        """the whole store without internal ids (wire form of Drivers/C05 arefToJson / Store.absS): every node dictionary,
        every link between the keys (GraphID value, NodeID value) of its ends; "<missing>" = attribute absent"""
        nodes, edges = [], []
        for key, G in self._graphs():
            def k(n):
                d = G.nodes[n]
                return [d.get(GRAPH_ID, "<missing>"), d.get(NODE_ID, "<missing>")]
            nodes += [[[a, v] for a, v in d.items()] for n, d in G.nodes(data=True)]
            edges += [[k(a), k(b), [[x, v] for x, v in d.items()]] for a, b, d in G.edges(data=True)]
        return {"nodes": nodes, "edges": edges}

    def internal_ids(self):
        return [(key, n) for key, G in self._graphs() for n in G.nodes]


def ig_content(ig):
    """content an imported positional graph must have once stored (same shape as Backend.content)"""
    nodes = sorted(canon(sorted([k, v] for k, v in a.items() if k != GRAPH_ID)) for a in ig["nodes"])
    edges = []
    for i, j, d in ig["edges"]:
        ends = sorted([canon(ig["nodes"][i].get(NODE_ID)), canon(ig["nodes"][j].get(NODE_ID))])
        edges.append(canon([ends, sorted([k, v] for k, v in d.items())]))
    return {"nodes": nodes, "edges": sorted(edges)}


# -- canonicalisation (applied to both sides) ---------------------------------------------

def _cprops(p):
    return sorted([[k, v] for k, v in p], key=canon)


def canon_raw(r):
    def one(x):
        return {"nodes": sorted([[n, _cprops(p)] for n, p in x["nodes"]], key=canon),
                "edges": sorted([[min(a, b), max(a, b), _cprops(p)] for a, b, p in x["edges"]], key=canon)}
    if "graphs" in r:
        # an entry holding an empty graph is the same as no entry (defaultdict); a counter of 1 is the default
        return {"graphs": {k: one(v) for k, v in r["graphs"].items() if v["nodes"]},
                "ids": {k: v for k, v in r["ids"].items() if v != 1}}
    o = one(r)
    o["next"] = r["next"]
    return o


def canon_keyed(r):
    """canonical form of Backend.keyed() / the driver's ARef JSON: nodes as sorted property lists, links with sorted ends"""
    return {"nodes": sorted((_cprops(p) for p in r["nodes"]), key=canon),
            "edges": sorted(([sorted([a, b], key=canon), _cprops(p)] for a, b, p in r["edges"]), key=canon)}


LIST_OPS = {"list_all_node_ids", "nodes_by_class", "nodes_by_class_and_type", "find_matching_nodes"}


def canon_reply(op, rep):
    if rep[0] != "ok":
        return rep
    v = rep[1]
    if op in LIST_OPS:
        return ["ok", sorted(v, key=canon)]
    if op in ("get_node_properties", "get_link_properties"):
        return ["ok", [v[0], _cprops(v[1])]]
    return rep


# -- history generator ----------------------------------------------------------------------

CLASSES = ["NetworkNode", "Link", "ConnectionPoint"]
RELS = ["has", "connects"]
FREE = ["p", "q"]
VALS = ["x", "y", ""]
# what an update may be handed besides a string: None, falsy scalars, ints, bools, lists (2 elements = what merge_nodes'
# 'combine' writes; other lengths), dicts.  No floats (never compared through text).
ODD_VALS = [None, None, None, 0, False, 1, True, -3, ["x", "y"], ["a", "b", "c"], [], {"k": "v"}, {}, [None, 0], ""]


def gen_val(rng, p_odd=0.3):
    """a property value for an update: mostly strings, sometimes anything else the API would be handed"""
    import copy
    return copy.deepcopy(rng.choice(ODD_VALS)) if rng.random() < p_odd else rng.choice(VALS)

MUTATORS = ["add_node", "add_node", "add_node", "delete_node", "add_link", "add_link", "update_node_property",
            "unset_node_property", "update_nodes_property", "update_node_properties", "update_link_property",
            "unset_link_property", "update_link_properties", "delete_graph", "add_graph", "add_graph", "clone"]
QUERIES = ["get_node_properties", "get_link_properties", "list_all_node_ids", "nodes_by_class",
           "nodes_by_class_and_type", "node_exists", "graph_exists", "check_node_unique", "find_matching_nodes"]


def gen_igraph(rng, nids, g=None, direct=False, allow_bad=True):
    n = rng.choice([0, 1, 2, 2, 3, 3, 4])
    nodes = []
    for i in range(n):
        a = {}
        r = rng.random()
        if not (allow_bad and r < 0.06):
            a[NODE_ID] = rng.choice(nids) if rng.random() < 0.8 else "m%d" % i   # NodeIDs may repeat inside one import
        elif r < 0.03:
            a[NODE_ID] = ""
        if rng.random() < 0.85:
            a[CLASS] = rng.choice(CLASSES)
        if rng.random() < 0.4:
            a[rng.choice(["Name", "Type"] + FREE)] = rng.choice(VALS)
        if direct:
            a[GRAPH_ID] = g
        elif rng.random() < 0.2:
            a[GRAPH_ID] = rng.choice(["g1", "g2", "zz"])      # overwritten by add_graph
        nodes.append(a)
    edges, seen = [], set()
    for _ in range(rng.choice([0, 1, 2, 3]) if n else 0):
        i, j = rng.randrange(n), rng.randrange(n)
        if (min(i, j), max(i, j)) in seen:
            continue
        seen.add((min(i, j), max(i, j)))
        d = {CLASS: rng.choice(RELS)} if rng.random() < 0.9 else {}
        if rng.random() < 0.3:
            d[rng.choice(FREE)] = rng.choice(VALS)
        edges.append([i, j, d])
    return {"nodes": nodes, "edges": edges}


def gen_props(rng, keys, lo=0):
    return {k: gen_val(rng) for k in rng.sample(keys, rng.randint(lo, min(3, len(keys))))}


KEY_VALS = ["g1", "g2", "g3", "n1", "n2", "zz", None, 7, ["g1", "g2"]]


def gen_key_val(rng, k, gids, nids):
    """a value for a GraphID / NodeID rewrite: mostly another graph's / node's id, sometimes anything"""
    if rng.random() < 0.8:
        return rng.choice(gids if k == GRAPH_ID else nids)
    import copy
    return copy.deepcopy(rng.choice(KEY_VALS))


def gen_op(rng, gids, nids, kinds=None, pnames=None, merge=False, direct=True, keys=0.0, delall=0.0):
    """one request; `pnames` = property names usable in updates.  `keys` = probability that an update / the
    initial properties of a node / a merge policy names GraphID or NodeID (re-homing, re-keying);
    `delall` = probability of importer.delete_all_graphs() instead of the drawn operation"""
    pn = pnames or (["Name", "Type", CLASS, NODE_ID] + FREE + FREE)
    g = rng.choice(gids)
    op = rng.choice(kinds or (MUTATORS * 2 + QUERIES + (["merge_nodes"] * 3 if merge else [])
                              + (["add_graph_direct"] if direct else [])))
    if delall and rng.random() < delall:
        return ["delete_all_graphs", "*"]
    nid = lambda: rng.choice(nids)  # noqa
    upd = [k for k in pn if k != NODE_ID]       # NodeID / GraphID are rewritten only when `keys` asks for it
    kw = keys and rng.random() < keys
    kk = rng.choice([GRAPH_ID, NODE_ID]) if kw else None
    if op == "add_node":
        p = None if rng.random() < 0.4 else gen_props(rng, ["Name", "Type"] + FREE)
        if kw:
            p = dict(p or {})
            p[kk] = gen_key_val(rng, kk, gids, nids)
        return [op, g, nid(), rng.choice(CLASSES), p]
    if op == "delete_node":
        return [op, g, nid()]
    if op == "add_link":
        p = None if rng.random() < 0.5 else gen_props(rng, FREE + ["Name"] + ([CLASS] if rng.random() < 0.1 else []))
        return [op, g, nid(), rng.choice(RELS), nid(), p]
    if op == "update_node_property":
        if kw:
            v = gen_key_val(rng, kk, gids, nids)
            return [op, g, nid(), kk, v]
        return [op, g, nid(), rng.choice(upd), gen_val(rng, 0.25)]
    if op == "unset_node_property":
        return [op, g, nid(), rng.choice(pn + [GRAPH_ID])]
    if op == "update_nodes_property":
        if kw:
            return [op, g, kk, gen_key_val(rng, kk, gids, nids)]
        return [op, g, rng.choice(upd), gen_val(rng, 0.25)]
    if op == "update_node_properties":
        p = gen_props(rng, upd, 0)
        if kw:
            p[kk] = gen_key_val(rng, kk, gids, nids)
        return [op, g, nid(), p]
    if op == "update_link_property":
        return [op, g, nid(), nid(), rng.choice(RELS), rng.choice(upd), gen_val(rng, 0.25)]
    if op == "unset_link_property":
        return [op, g, nid(), nid(), rng.choice(RELS), rng.choice(pn)]
    if op == "update_link_properties":
        return [op, g, nid(), nid(), rng.choice(RELS), gen_props(rng, upd, 0)]
    if op == "delete_graph":
        return [op, g]
    if op == "add_graph":
        return [op, g, gen_igraph(rng, nids)]
    if op == "add_graph_direct":
        ig = gen_igraph(rng, nids, g=g, direct=True)
        if not ig["nodes"]:
            ig["nodes"].append({NODE_ID: nid(), GRAPH_ID: g, CLASS: rng.choice(CLASSES)})
        if kw:      # a direct import trusts the ids on the nodes: one of them names another graph (or nothing)
            a = rng.choice(ig["nodes"])
            if rng.random() < 0.7:
                a[GRAPH_ID] = rng.choice(gids)
            else:
                a.pop(GRAPH_ID, None)
        return [op, g, ig]
    if op == "clone":
        return [op, g, rng.choice(gids)]
    if op == "merge_nodes":
        # now and then a graph is asked to merge a node with itself (other_graph = the caller's own graph)
        g2 = g if rng.random() < 0.08 else rng.choice([x for x in gids if x != g])
        pol = None if rng.random() < 0.3 else {k: rng.choice(["discard", "overwrite", "combine", "combine", "weird"])
                                               for k in rng.sample(["Name", "Type"] + FREE, rng.randint(0, 3))}
        if kw:
            pol = dict(pol or {})
            pol[kk] = rng.choice(["discard", "overwrite", "combine", "weird"])
        return [op, g, nid(), g2, pol]
    if op == "get_node_properties":
        return [op, g, nid()]
    if op == "get_link_properties":
        return [op, g, nid(), nid()]
    if op in ("list_all_node_ids", "graph_exists"):
        return [op, g]
    if op == "nodes_by_class":
        return [op, g, rng.choice(CLASSES)]
    if op == "nodes_by_class_and_type":
        return [op, g, rng.choice(CLASSES), rng.choice(VALS)]
    if op == "node_exists":
        return [op, g, nid(), rng.choice(CLASSES)]
    if op == "check_node_unique":
        return [op, g, rng.choice(CLASSES), rng.choice(VALS)]
    if op == "find_matching_nodes":
        return [op, g, rng.choice(gids)]
    raise ValueError(op)


LINK_OPS = ("update_link_property", "unset_link_property", "update_link_properties", "get_link_properties")
NODE_OPS = ("delete_node", "update_node_property", "unset_node_property", "update_node_properties", "get_node_properties",
            "merge_nodes")


class Shadow:
    """what earlier requests of a history (probably) created; used only to aim later requests at existing
    nodes and links - nothing here is an oracle"""

    def __init__(self):
        self.nodes, self.links = [], []

    def note(self, req):
        if req[0] == "add_node":
            self.nodes.append((req[1], req[2]))
        elif req[0] == "add_link":
            self.links.append((req[1], req[2], req[4], req[3]))
        elif req[0] in ("add_graph", "add_graph_direct"):
            ns = req[2]["nodes"]
            for a in ns:
                if a.get(NODE_ID):
                    self.nodes.append((req[1], a[NODE_ID]))
            for i, j, d in req[2]["edges"]:
                if ns[i].get(NODE_ID) and ns[j].get(NODE_ID) and d.get(CLASS):
                    self.links.append((req[1], ns[i][NODE_ID], ns[j][NODE_ID], d[CLASS]))

    def aim(self, rng, req, gids):
        op = req[0]
        if op == "add_link" and self.nodes and rng.random() < 0.7:
            g = rng.choice(self.nodes)[0]
            mine = [x for gg, x in self.nodes if gg == g]
            req[1], req[2], req[4] = g, rng.choice(mine), rng.choice(mine)
        elif op in LINK_OPS and self.links and rng.random() < 0.75:
            g, a, b, rel = rng.choice(self.links)
            if rng.random() < 0.5:
                a, b = b, a
            req[1], req[2], req[3] = g, a, b
            if op != "get_link_properties" and rng.random() < 0.85:
                req[4] = rel
        elif op in NODE_OPS and self.nodes and rng.random() < 0.6:
            selfm = op == "merge_nodes" and req[3] == req[1]
            g, x = rng.choice(self.nodes)
            req[1], req[2] = g, x
            if selfm:
                req[3] = g
            elif op == "merge_nodes":
                req[3] = rng.choice([y for y in gids if y != g])
                both = [(ga, xa, gb) for ga, xa in self.nodes for gb, xb in self.nodes if xa == xb and ga != gb]
                if both and rng.random() < 0.8:
                    req[1], req[2], req[3] = rng.choice(both)
        return req


def gen_history(rng, length, ngraphs=3, nnodes=4, scenario=0.0, **kw):
    gids = ["g%d" % (i + 1) for i in range(ngraphs)]
    nids = ["n%d" % (i + 1) for i in range(nnodes)]
    h, sh = [], Shadow()
    if scenario and rng.random() < scenario:
        _, h = gen_scenario(rng, gids, nids)
        for r in h:
            sh.note(r)
        length = max(length, len(h) + 4)
    else:
      # seed the store so that most operations find something to act on
      for g in gids[:max(2, ngraphs - 1)]:
        if rng.random() < 0.7:
            ig = gen_igraph(rng, nids, allow_bad=False)
            h.append(["add_graph", g, ig])
            sh.note(h[-1])
    while len(h) < length:
        h.append(sh.aim(rng, gen_op(rng, gids, nids, **kw), gids))
        sh.note(h[-1])
    return h


def gen_scenario(rng, gids, nids):
    """structured openings (each stands for a class of histories random draws rarely reach):
    regrow   - import A, import B right behind it, grow A node by node, re-import A under its own id with at least as many
               nodes (A's released internal ids are not one block any more);
    cloneon  - clone onto an id that already holds a graph, then change both;
    delall   - use ids, importer.delete_all_graphs(), use the same ids again (import, add_node, clone target);
    foreign  - address a graph with a node id that only another graph (its clone source) still has"""
    kind = rng.choice(["regrow", "regrow", "cloneon", "delall", "delall", "foreign", "foreign"])
    a, b = rng.sample(gids, 2)
    c = rng.choice([g for g in gids if g not in (a, b)] or [b])

    def ig(n, first=0):
        nodes = [{NODE_ID: nids[(first + i) % len(nids)] if i < len(nids) else "m%d" % i, CLASS: rng.choice(CLASSES)} for i in range(n)]
        edges = [[i, i + 1, {CLASS: rng.choice(RELS)}] for i in range(n - 1)]
        return {"nodes": nodes, "edges": edges}

    h = []
    if kind == "regrow":
        n0 = rng.randint(1, 3)
        h += [["add_graph", a, ig(n0)], ["add_graph", b, ig(rng.randint(1, 3), 1)]]
        grown = n0
        for i in range(rng.randint(1, 2)):
            h.append(["add_node", a, "x%d" % i, rng.choice(CLASSES), None])
            grown += 1
        if rng.random() < 0.3:
            h.append(["delete_node", a, nids[0]])
        if rng.random() < 0.5:
            h.append(["clone", a, a])                       # what load(serialize()) does: the graph replaces itself
        else:
            h.append([rng.choice(["add_graph", "add_graph"]), a, ig(rng.randint(max(1, grown - 1), grown + 1))])
        h += [["list_all_node_ids", b], ["list_all_node_ids", a]]
    elif kind == "cloneon":
        h += [["add_graph", a, ig(rng.randint(1, 3))], ["add_graph", b, ig(rng.randint(1, 3), 2)], ["clone", a, b],
              ["add_node", b, "x0", rng.choice(CLASSES), None], ["delete_node", a, nids[0]],
              ["update_nodes_property", b, "p", "y"], ["list_all_node_ids", a], ["list_all_node_ids", b]]
    elif kind == "delall":
        h += [["add_graph", a, ig(rng.randint(1, 3))], ["add_node", b, nids[0], rng.choice(CLASSES), None],
              rng.choice([["clone", a, c], ["add_node", c, nids[1], "Link", None]]),
              ["delete_all_graphs", "*"]]
        tail = [["add_graph", a, ig(rng.randint(1, 3), 1)], ["add_node", b, nids[1], rng.choice(CLASSES), None],
                ["add_graph", b, ig(2)], ["clone", a, c], ["add_node", c, nids[2], "Link", None], ["graph_exists", a]]
        rng.shuffle(tail)
        h += tail[:rng.randint(3, 6)] + [["clone", a, b], ["list_all_node_ids", c]]
    else:
        n = rng.randint(2, 3)
        h += [["add_graph", a, ig(n)], ["clone", a, c], ["delete_node", c, nids[n - 1]]]
        x = nids[n - 1]
        tail = [["delete_node", c, x], ["update_node_property", c, x, "p", "y"], ["unset_node_property", c, x, "Name"],
                ["add_link", c, nids[0], "has", x, None], ["update_node_properties", c, x, {"q": "x"}],
                ["get_node_properties", c, x], ["update_link_property", c, nids[n - 2], x, "has", "p", "x"],
                ["update_link_property", c, nids[n - 2], x, "connects", "p", "x"], ["node_exists", c, x, "Link"],
                ["add_node", b, x, "Link", None], ["delete_node", b, nids[0]]]
        rng.shuffle(tail)
        h += tail[:rng.randint(3, 7)] + [["get_node_properties", a, x]]
    return kind, h


def target_of(req):
    return req[2] if req[0] == "clone" else req[1]


def affected(req):
    """graph ids whose content the request may change (twin of Store.Op.affects): its target, every GraphID value it
    writes, the second graph of a merge; None = every graph (delete_all_graphs)"""
    op = req[0]
    if op == "delete_all_graphs":
        return None
    out = {target_of(req)}
    w = []
    if op == "add_node" and req[4]:
        w = [req[4].get(GRAPH_ID)]
    elif op == "update_node_property" and req[3] == GRAPH_ID:
        w = [req[4]]
    elif op == "update_nodes_property" and req[2] == GRAPH_ID:
        w = [req[3]]
    elif op == "update_node_properties":
        w = [req[3].get(GRAPH_ID)]
    elif op == "add_graph_direct":
        w = [a.get(GRAPH_ID) for a in req[2]["nodes"]]
    elif op == "merge_nodes":
        out.add(req[3])
    out |= {v for v in w if isinstance(v, str)}
    return out


def writes_keys(req):
    """does the request name GraphID / NodeID in what it writes (twin of not Op.keepsKeys, imports aside)"""
    op = req[0]
    K = (GRAPH_ID, NODE_ID)
    if op == "add_node":
        return bool(req[4]) and any(k in req[4] for k in K)
    if op == "update_node_property":
        return req[3] in K
    if op == "update_nodes_property":
        return req[2] in K
    if op == "update_node_properties":
        return any(k in req[3] for k in K)
    if op == "merge_nodes":
        return bool(req[4]) and any(req[4].get(k, "discard") != "discard" for k in K)
    if op == "add_graph_direct":
        return any(a.get(GRAPH_ID) != req[1] for a in req[2]["nodes"])
    return False


def kind_seq(h):
    return canon([r[0] for r in h])
