"""seedprompt.py <Cxx> <round> : print the prompt given to a seeding sub-agent (property text + scratch worktree only)."""
import json, sys
pid, rnd = sys.argv[1], sys.argv[2]
p = [json.loads(l) for l in open("/verif/properties.jsonl") if json.loads(l)["id"] == pid][0]
W = "/tmp/seed/s%s-%s" % (rnd, pid)
O = "/tmp/seed/out%s-%s" % (rnd, pid)
print(f"""You are testing how robust a verification effort is. The Python library fabric-testbed/InformationModel is checked out in a
scratch git worktree at {W} (your own copy; work ONLY there and under {O}; never touch /repo or /verif, and do not read anything
under /verif; never use `git stash` - it is shared between worktrees). Run it with `/venv/bin/python` and `PYTHONPATH={W}`. The sandbox has no network.

This semantic property of the library is supposed to hold:

Title: {p['title']}

Statement: {p['statement']}

Quantifier: {p['quantifier']['text']}

Why the existing tests cannot settle it: {p['why_tests_cant']}

Code it is anchored in: {', '.join(p['anchors']['files'])}

YOUR TASK: produce THREE different, realistic changes to the library's source (under {W}/fim), each of which BREAKS this property
while the code still imports/compiles and the project's pinned test suite still passes. Each change should look like something a
maintainer could plausibly commit (a refactoring, an optimisation, a "fix", a small feature), be small (a few lines to a few dozen),
and need something SPECIFIC to manifest - a particular multi-step sequence of operations, an unusual but legal input, a boundary
value, a particular order, a failure at a particular point, or two cooperating sites that each look fine alone. Do NOT produce
changes that ordinary use or the first obvious call would expose at once, and do not produce crashes on every call. The three
changes must be in different mechanisms/clauses of the property (do not make three variants of one idea). Read the anchored code
thoroughly first; prefer subtle places: less-used entry points, alternative code paths (the other backend, the other format, the
bulk variant of a setter, the error path), boundary cases, ordering, aliasing, falsy-but-valid values, name/prefix collisions,
state left behind by an earlier (possibly failed) call, caches that go stale, two code sites that must agree, behaviour that
depends on iteration order of a dict/set, differences between the two in-memory backends, values that only appear after a
serialize/deserialize cycle. At least one of the three should need a sequence of THREE or more calls to manifest.
If this is round 5 or later: put at least one change into a helper or base-class module the anchored code DEPENDS on (a shared
utility, a constants table, a base sliver / property-graph method, a data file) rather than into the anchored function itself, and
prefer ideas such as memoisation, default-argument sharing, early returns, off-by-one boundaries, swapped arguments of the same
type, a condition that holds for all the common enum members but not a rare one, or a change that only matters for the SECOND
object of a kind created in one process.

For each change i = 1, 2, 3:
  1. start from a clean worktree (`git -C {W} checkout -- . && git -C {W} clean -fdq`), make the change, and save it with
     `mkdir -p {O}/i && git -C {W} diff > {O}/i/patch.diff` (the patch must apply to a clean worktree with `git apply`; only files
     under fim/ may change; do not edit tests).
  2. write {O}/i/demo.py : a small self-contained program (uses only the library, run as
     `cd {W} && PYTHONPATH={W} /venv/bin/python {O}/i/demo.py`) that exits 0 on the UNCHANGED tree and exits non-zero (assertion
     failure) WITH the change, demonstrating the property violation through the library's public behaviour. Verify both yourself.
  3. verify the pinned suite still passes with the change: `/venv/bin/python /tmp/seed/pinned.py {W}` must print `missing 0`
     (it takes about a minute; 77 pinned tests; other tests in the repo fail already on the unchanged tree and do not matter).
  4. write {O}/i/meta.json with the keys: "property": "{pid}", "summary" (what the change is and why it looks plausible),
     "needs_to_manifest" (what specific input/sequence/order/state is needed to see the breakage), "clause_broken" (which part of
     the property statement is violated), "files_touched" (list).
If an idea turns out to break the pinned tests or not to break the property, drop it and try another. Leave the worktree clean at
the end (`git -C {W} checkout -- . && git -C {W} clean -fdq`). Your final message: for each change, two lines (what it is, what it
needs to manifest) and confirmation of the three verifications.""")
