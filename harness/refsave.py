"""refsave.py <Cxx> ... : copy behaviour-preserving rewrites /tmp/seed/outR-<Cxx>/<i> into /verif/refactors/<Cxx>-<i>/ with the
outcome of harness/seedrun.sh (the committed check run against the rewritten tree; expected: exit 0, no VIOLATION line)."""
import json, os, re, shutil, sys
for prop in sys.argv[1:]:
    base = "/tmp/seed/outR-%s" % prop
    for i in sorted(os.listdir(base)):
        src = os.path.join(base, i)
        res = "/tmp/seed/results/outR-%s_%s.txt" % (prop, i)
        if not os.path.isfile(os.path.join(src, "patch.diff")) or not os.path.isfile(res):
            continue
        txt = open(res).read()
        dst = "/verif/refactors/%s-%s" % (prop, i)
        os.makedirs(dst, exist_ok=True)
        shutil.copy(os.path.join(src, "patch.diff"), os.path.join(dst, "patch.diff"))
        if os.path.isfile(os.path.join(src, "equiv.py")):
            shutil.copy(os.path.join(src, "equiv.py"), os.path.join(dst, "equiv.py"))
        meta = json.load(open(os.path.join(src, "meta.json")))
        old = json.load(open(os.path.join(dst, "meta.json"))) if os.path.exists(os.path.join(dst, "meta.json")) else {}
        hist = old.get("check_history", [])
        checks = {}
        for mm in re.finditer(r"check (C\d+) on changed tree: rc=(\d+) \| (\d+) VIOLATION[^|]*\|(.*)", txt):
            checks[mm.group(1)] = {"exit": int(mm.group(2)), "violation_lines": int(mm.group(3)),
                                   "fallback_note": "translator did not recognise" in txt or None,
                                   "broken": re.findall(r"broken=(\[[^\]]*\])", mm.group(4))[:1]}
        hist.append({"verif_commit": os.popen("git -C /verif rev-parse --short HEAD").read().strip(), "checks": checks,
                     "pinned_77_pass": "missing 0" in txt})
        meta["check_history"] = hist
        meta["alarm"] = any(c["exit"] != 0 for c in checks.values())
        json.dump(meta, open(os.path.join(dst, "meta.json"), "w"), indent=1)
        print(dst, "ALARM" if meta["alarm"] else "quiet", checks)
