"""Topology-API harness shared by C07 and C09 (C08/C10/C11 may import it read-only).

  det_uuids()            context manager: uuid.uuid4() yields g0, g1, ... (counter in UUIDS.n), so library-generated
                         ids are reproducible and recognisable (a caller-supplied id never looks like g<digits>)
  new_topology(flavour)  fresh ExperimentTopology ("exp") / SubstrateTopology ("sub") under a fresh graph id
  snapshot(topo)         canonical whole-model snapshot read from the graph's storage (not through the API)
  canon_snap(j)          the same canonical form for a snapshot printed by the Lean driver
  Session                one topology + a pool of element handles; Session.apply(op) runs one building call given as
                         a JSON-able dict and returns (outcome, lean_request_line)
  gen_op / gen_history   seeded generators of building calls (valid ones and ones with an injected fault)

An *op* is a dict {"op": kind, ...}; handles are referred to by their key in Session.handles ("h7"), so ops are
replayable from JSON.  Property values are specs: ["cap", {..}], ["lab", {..}], ["str", s], ["int", n], ["none"].
"""
import contextlib
import json
import uuid as _uuid

from core import err_kind

CLASS_KEYS = ("GraphID", "Class", "NodeID", "Name", "Type")


class _Uuids:
    n = 0
    active = False


UUIDS = _Uuids()
_real_uuid4 = _uuid.uuid4


class _Det:
    def __init__(self, s):
        self.s = s

    def __str__(self):
        return self.s

    __repr__ = __str__


def _det_uuid4():
    if not UUIDS.active:
        return _real_uuid4()
    v = _Det("g%d" % UUIDS.n)
    UUIDS.n += 1
    return v


@contextlib.contextmanager
def det_uuids():
    _uuid.uuid4 = _det_uuid4
    prev = UUIDS.active
    UUIDS.active = True
    try:
        yield UUIDS
    finally:
        UUIDS.active = prev
        if not prev:
            _uuid.uuid4 = _real_uuid4


def split_flavour(flavour):
    """'exp' | 'sub' | 'exp+d' | 'sub+d' -> (API flavour, backend): '+d' selects the one-graph-per-model in-memory store
    (importer=NetworkXGraphImporterDisjoint()), otherwise the API's default shared store"""
    base, _, b = flavour.partition("+")
    return base, ("d" if b == "d" else "s")


def new_topology(flavour="exp"):
    from fim.user.topology import ExperimentTopology, SubstrateTopology
    base, backend = split_flavour(flavour)
    prev = UUIDS.active
    UUIDS.active = False        # the graph id is a real uuid: topologies never share one
    try:
        kw = {}
        if backend == "d":
            from fim.graph.networkx_property_graph_disjoint import NetworkXGraphImporterDisjoint
            kw["importer"] = NetworkXGraphImporterDisjoint()
        return ExperimentTopology(**kw) if base == "exp" else SubstrateTopology(**kw)
    finally:
        UUIDS.active = prev


def drop_topology(topo):
    try:
        topo.graph_model.importer.delete_graph(graph_id=topo.graph_model.graph_id)
    except Exception:
        pass


def snapshot(topo):
    """Canonical snapshot of everything the store holds for the topology's graph id."""
    gm = topo.graph_model
    g = gm.storage.extract_graph(gm.graph_id)
    nodes, edges = [], []
    if g is not None:
        for n, d in g.nodes(data=True):
            props = sorted([k, wire_value(d[k])] for k in d if k not in CLASS_KEYS)
            nodes.append([d.get("Class"), d.get("NodeID"), d.get("Name"), d.get("Type"), props])
        for a, b, d in g.edges(data=True):
            ends = sorted([[g.nodes[a].get("Class"), g.nodes[a].get("NodeID")], [g.nodes[b].get("Class"), g.nodes[b].get("NodeID")]])
            edges.append(ends + [d.get("Class")])
    return {"nodes": sorted(nodes, key=json.dumps), "edges": sorted(edges, key=json.dumps)}


def canon_snap(j):
    nodes = [[n[0], n[1], n[2], n[3], sorted(n[4])] for n in j["nodes"]]
    edges = [sorted([e[0], e[1]]) + [e[2]] for e in j["edges"]]
    return {"nodes": sorted(nodes, key=json.dumps), "edges": sorted(edges, key=json.dumps)}


def snap_diff(before, after):
    """(added, removed) node keys and edges, for messages and signatures."""
    bn = {json.dumps(n) for n in before["nodes"]}
    an = {json.dumps(n) for n in after["nodes"]}
    be = {json.dumps(e) for e in before["edges"]}
    ae = {json.dumps(e) for e in after["edges"]}
    return ([json.loads(x) for x in sorted(an - bn)], [json.loads(x) for x in sorted(bn - an)],
            [json.loads(x) for x in sorted(ae - be)], [json.loads(x) for x in sorted(be - ae)])


# --------------------------------------------------------------------------
# property values and their sliver-side judgement (pure sliver code: C02 / C16 own it)

def mk_value(spec):
    from fim.slivers.capacities_labels import Capacities, Labels
    k = spec[0]
    if k == "cap":
        return Capacities(**spec[1])
    if k == "lab":
        return Labels(**spec[1])
    if k in ("str", "int", "raw"):
        return spec[1]
    if k == "none":
        return None
    if k == "tuple":          # ["tuple", [..]]: a value JSON cannot spell
        return tuple(spec[1])
    if k == "tags":           # ["tags", ["blue", ...]]
        from fim.slivers.tags import Tags
        return Tags(*spec[1])
    if k == "rinfo":
        from fim.slivers.capacities_labels import ReservationInfo
        return ReservationInfo(reservation_state=spec[1])
    if k == "mdir":
        from fim.slivers.network_service import MirrorDirection
        return MirrorDirection[spec[1]]
    if k == "enum":           # ["enum", "InterfaceType", "ServicePort"]: a member of one of the API's type enums
        import fim.user as _fu
        return getattr(_fu, spec[1])[spec[2]]
    raise ValueError("bad value spec %r" % (spec,))


def wire_value(v):
    """graph property value as the Lean model / the snapshot sees it: strings as they are, anything else (a value a sliver
    setter without a type check let through: int / float / bool / list / dict / tuple) as a tagged text that no string
    property of the repo's codecs produces"""
    if isinstance(v, str):
        return v
    return "<py:%s>%s" % (type(v).__name__, json.dumps(v, sort_keys=True, default=repr))


def _sliver_codec(kind):
    from fim.graph.abc_property_graph import ABCPropertyGraph as G
    from fim.slivers.network_node import NodeSliver
    from fim.slivers.attached_components import ComponentSliver
    from fim.slivers.network_service import NetworkServiceSliver
    from fim.slivers.interface_info import InterfaceSliver
    from fim.slivers.network_link import NetworkLinkSliver
    return {"node": (NodeSliver, G.node_sliver_to_graph_properties_dict),
            "comp": (ComponentSliver, G.component_sliver_to_graph_properties_dict),
            "svc": (NetworkServiceSliver, G.network_service_sliver_to_graph_properties_dict),
            "iface": (InterfaceSliver, G.interface_sliver_to_graph_properties_dict),
            "link": (NetworkLinkSliver, G.link_sliver_to_graph_properties_dict)}[kind]


def prop_args(kind, kw):
    """kw: list of [name, value-spec].  Returns the model's PropArg list: per keyword, in order, either the graph
    properties the sliver class turns it into ([gname, text]) or ["!", kind] when the sliver class rejects it.
    A spec that cannot even be built (bad field inside Capacities/Labels) is rejected at the call site, before
    the API is entered - such keywords are not generated."""
    cls, to_dict = _sliver_codec(kind)
    base = to_dict(cls())
    out = []
    for name, spec in kw:
        s = cls()
        try:
            s.set_properties(**{name: mk_value(spec)})
        except Exception as e:
            out.append(["!", err_kind(e)])
            continue
        d = to_dict(s)
        for k in d:
            if k not in base or base[k] != d[k]:
                out.append([k, wire_value(d[k])])
    return out


def prop_args_values(kind, kv):
    """as prop_args, for keyword values that are already objects: list of (name, value)"""
    cls, to_dict = _sliver_codec(kind)
    base = to_dict(cls())
    out = []
    for name, val in kv:
        s = cls()
        try:
            s.set_properties(**{name: val})
        except Exception as e:
            out.append(["!", err_kind(e)])
            continue
        d = to_dict(s)
        for k in d:
            if k not in base or base[k] != d[k]:
                out.append([k, wire_value(d[k])])
    return out


def vlan_table(topo):
    """Labels graph property (JSON text) -> vlan, for every ConnectionPoint of the graph whose labels carry a truthy vlan;
    decoded by the implementation's own sliver codec"""
    from fim.graph.abc_property_graph import ABCPropertyGraph as G
    gm = topo.graph_model
    g = gm.storage.extract_graph(gm.graph_id)
    out = {}
    if g is None:
        return []
    for _, d in g.nodes(data=True):
        js = d.get("Labels")
        if d.get("Class") != "ConnectionPoint" or js is None or js in out:
            continue
        try:
            lab = G.interface_sliver_from_graph_properties_dict(dict(d)).labels
            if lab and lab.vlan:
                out[js] = str(lab.vlan)
        except Exception:
            pass
    return sorted([k, v] for k, v in out.items())


def cache_handles(op):
    """keys (in the op) of the handles whose interface cache a call may change, in the order (cache, cache2)"""
    k = op["op"]
    if k in ("connect", "disconnect", "ns_add_interface"):
        return ["svc"]
    if k in ("add_child_interface", "remove_child_interface"):
        return ["port"]
    if k in ("peer", "unpeer"):
        return ["svc", "other"]
    return []


def kwargs_of(kw):
    return {name: mk_value(spec) for name, spec in kw}


# --------------------------------------------------------------------------

BOGUS = "BOGUS"      # a non-Interface object among interfaces


class Handle:
    __slots__ = ("key", "kind", "obj")

    def __init__(self, key, kind, obj):
        self.key, self.kind, self.obj = key, kind, obj


def _cache(obj):
    c = getattr(obj, "_interfaces", None)
    if c is None:
        return None
    return [[i.name, i.node_id] for i in c]


def _enum(mod_enum, name):
    if name is None:
        return None
    return mod_enum[name]


class Session:
    """One topology and the handles the caller holds.  Everything that touches the API runs under det_uuids()."""

    def __init__(self, flavour="exp"):
        self.flavour, self.backend = split_flavour(flavour)     # .flavour stays 'exp' / 'sub' (what the model is told)
        self.topo = new_topology(flavour)
        self.handles = {}
        self.order = []
        self.nops = 0

    def close(self):
        drop_topology(self.topo)

    # -- handle pool
    def add_handle(self, kind, obj):
        key = "h%d" % len(self.order)
        self.handles[key] = Handle(key, kind, obj)
        self.order.append(key)
        return key

    def of_kind(self, kind):
        return [self.handles[k] for k in self.order if self.handles[k].kind == kind]

    def alive(self, h):
        try:
            self.topo.graph_model.get_node_properties(node_id=h.obj.node_id)
            return True
        except Exception:
            return False

    def harvest(self, hkey):
        """pick up the interface handles of a component / node / service (fresh lookups)"""
        h = self.handles[hkey]
        out = []
        with det_uuids():
            for i in h.obj.interface_list:
                out.append(self.add_handle("iface", i))
        return out

    def fresh(self, kind, name):
        """a fresh lookup of a node/service/link by name through the views"""
        with det_uuids():
            if kind == "node":
                v = self.topo.nodes
                if name not in v and self.topo.facilities and name in self.topo.facilities:
                    v = self.topo.facilities
                return self.add_handle("node", v[name])
            if kind == "svc":
                return self.add_handle("svc", self.topo.network_services[name])
            if kind == "link":
                return self.add_handle("link", self.topo.links[name])
        raise KeyError(kind)

    def _if_arg(self, key):
        if key == BOGUS:
            return None, "bogus-object"
        h = self.handles[key]
        return [h.obj.node_id, h.obj.name], h.obj

    # -- one building call
    def apply(self, op):
        """Execute `op` on the implementation.  Returns (outcome, line): outcome = ["ok", ret_id, cache] or
        ["err", kind]; line = the request for the Lean driver (built from the same arguments *before* the call)."""
        import fim.user as fu
        from fim.slivers.network_node import NodeType
        from fim.slivers.attached_components import ComponentType
        from fim.slivers.interface_info import InterfaceType
        from fim.slivers.network_service import ServiceType
        from fim.slivers.network_link import LinkType
        k = op["op"]
        t = self.topo
        self.nops += 1
        line = {"op": k, "fl": self.flavour, "u": UUIDS.n}
        for f in ("name", "nid", "site", "ntype", "ctype", "model", "nstype", "ltype", "itype", "tech", "ns_nid", "if_nids", "n_labels"):
            if f in op and op[f] is not None:
                line[f] = op[f]
        cache_obj = None

        def H(key):
            return self.handles[op[key]].obj

        def ifs_of(keys):
            if keys is None:
                return None, None
            objs, wire = [], []
            for x in keys:
                w, o = self._if_arg(x)
                wire.append(w)
                objs.append(o)
            return objs, wire
        try:
            if k == "add_node":
                line["props"] = prop_args("node", op.get("kw", []))
                args = dict(name=op["name"], site=op.get("site"), **kwargs_of(op.get("kw", [])))
                if op.get("nid") is not None:
                    args["node_id"] = op["nid"]
                if "ntype" in op:
                    args["ntype"] = _enum(NodeType, op["ntype"])
                call = lambda: t.add_node(**args)
                post = lambda r: (self.add_handle("node", r), r.node_id, None)
            elif k in ("add_component", "add_storage"):
                line["parent"] = H("parent").node_id
                line["props"] = prop_args("comp", op.get("kw", []))
                args = dict(name=op["name"], **kwargs_of(op.get("kw", [])))
                if op.get("nid") is not None:
                    args["node_id"] = op["nid"]
                if k == "add_component":
                    args["ctype"] = _enum(ComponentType, op.get("ctype"))
                    args["model"] = op.get("model")
                    if op.get("ns_nid") is not None:
                        args["network_service_node_id"] = op["ns_nid"]
                    if op.get("if_nids") is not None:
                        args["interface_node_ids"] = list(op["if_nids"])
                    if op.get("n_labels") is not None:
                        from fim.slivers.capacities_labels import Labels
                        args["interface_labels"] = [Labels() for _ in range(op["n_labels"])]
                    call = lambda: H("parent").add_component(**args)
                else:
                    call = lambda: H("parent").add_storage(**args)
                post = lambda r: (self.add_handle("comp", r), r.node_id, None)
            elif k in ("add_service", "node_add_service"):
                objs, wire = ifs_of(op.get("ifs"))
                line["props"] = prop_args("svc", op.get("kw", []))
                if wire is not None:
                    line["ifs"] = wire
                args = dict(name=op["name"], nstype=_enum(ServiceType, op.get("nstype")), **kwargs_of(op.get("kw", [])))
                if op.get("nid") is not None:
                    args["node_id"] = op["nid"]
                if op.get("site") is not None:
                    args["site"] = op["site"]
                if op.get("tech") is not None:
                    args["technology"] = op["tech"]
                if k == "add_service":
                    if objs is not None:
                        args["interfaces"] = objs
                    call = lambda: t.add_network_service(**args)
                else:
                    line["parent"] = H("parent").node_id
                    call = lambda: H("parent").add_network_service(**args)
                post = lambda r: (self.add_handle("svc", r), r.node_id, _cache(r))
            elif k == "add_link":
                objs, wire = ifs_of(op.get("ifs"))
                line["props"] = prop_args("link", op.get("kw", []))
                if wire is not None:
                    line["ifs"] = wire
                args = dict(name=op["name"], ltype=_enum(LinkType, op.get("ltype")), interfaces=objs, **kwargs_of(op.get("kw", [])))
                if op.get("nid") is not None:
                    args["node_id"] = op["nid"]
                if op.get("tech") is not None:
                    args["technology"] = op["tech"]
                call = lambda: t.add_link(**args)
                post = lambda r: (self.add_handle("link", r), r.node_id, None)
            elif k == "ns_add_interface":
                svc = H("svc")
                cache_obj = svc
                line["svc"] = svc.node_id
                line["cache"] = _cache(svc)
                line["props"] = prop_args("iface", op.get("kw", []))
                args = dict(name=op["name"], **kwargs_of(op.get("kw", [])))
                if "itype" in op:
                    args["itype"] = _enum(InterfaceType, op["itype"])
                if op.get("nid") is not None:
                    args["node_id"] = op["nid"]
                call = lambda: svc.add_interface(**args)
                post = lambda r: (self.add_handle("iface", r), r.node_id, _cache(svc))
            elif k == "ns_remove_interface":
                svc = H("svc")
                line["svc"] = svc.node_id
                call = lambda: svc.remove_interface(name=op["name"])
                post = lambda r: (None, None, None)
            elif k in ("connect", "disconnect"):
                svc = H("svc")
                cache_obj = svc
                w, o = self._if_arg(op["if"])
                line["svc"] = svc.node_id
                line["cache"] = _cache(svc)
                line["if"] = w
                if k == "connect":
                    call = lambda: svc.connect_interface(interface=o)
                else:
                    call = lambda: svc.disconnect_interface(interface=o)
                post = lambda r: (None, None, _cache(svc))
            elif k == "add_facility":
                line["nsprops"] = []
                line["props"] = prop_args("iface", op.get("kw", []))
                args = dict(name=op["name"], site=op.get("site"))
                if op.get("nid") is not None:
                    args["node_id"] = op["nid"]
                if op.get("nstype") is not None:
                    args["nstype"] = _enum(ServiceType, op["nstype"])
                    line["nstype"] = op["nstype"]
                else:
                    line["nstype"] = "VLAN"
                if op.get("ifs") is not None:
                    tuples, wire = [], []
                    for iname, lab, cap in op["ifs"]:
                        kw = [["labels", lab], ["capacities", cap]]
                        wire.append([iname, prop_args("iface", kw)])
                        tuples.append((iname, mk_value(lab), mk_value(cap)))
                    args["interfaces"] = tuples
                    line["ifs"] = wire
                else:
                    args.update(kwargs_of(op.get("kw", [])))
                call = lambda: t.add_facility(**args)
                post = lambda r: (self.add_handle("node", r), r.node_id, None)
            elif k == "add_switch":
                n = op.get("nports", 2)
                line["nsprops"] = []
                line["nstype"] = op.get("nstype") or "P4"
                line["ports"] = [["p%d" % i, "-int%d" % i,
                                  prop_args("iface", [["labels", ["lab", {"local_name": "p%d" % i}]], ["capacities", ["cap", {"bw": 100}]]])]
                                 for i in range(1, n + 1)]
                args = dict(name=op["name"], site=op.get("site"), nports=n)
                if op.get("nid") is not None:
                    args["node_id"] = op["nid"]
                if op.get("nstype") is not None:
                    args["nstype"] = _enum(ServiceType, op["nstype"])
                call = lambda: t.add_switch(**args)
                post = lambda r: (self.add_handle("node", r), r.node_id, None)
            elif k in ("remove_node", "remove_facility", "remove_switch", "remove_link", "remove_service"):
                fn = {"remove_node": lambda: t.remove_node(name=op["name"]),
                      "remove_facility": lambda: t.remove_facility(name=op["name"]),
                      "remove_switch": lambda: t.remove_switch(name=op["name"]),
                      "remove_link": lambda: t.remove_link(name=op["name"]),
                      "remove_service": lambda: t.remove_network_service(name=op["name"])}[k]
                call = fn
                post = lambda r: (None, None, None)
            elif k in ("node_remove_service", "remove_component"):
                line["parent"] = H("parent").node_id
                if k == "remove_component":
                    if op.get("via") == "remove_storage":       # Node.remove_storage: the same request for the model
                        call = lambda: H("parent").remove_storage(name=op["name"])
                    else:
                        call = lambda: H("parent").remove_component(name=op["name"])
                else:
                    call = lambda: H("parent").remove_network_service(name=op["name"])
                post = lambda r: (None, None, None)
            elif k == "set_props":
                h = self.handles[op["h"]]
                line["nid"] = h.obj.node_id
                line["props"] = prop_args(h.kind, op.get("kw", []))
                kw = kwargs_of(op.get("kw", []))
                if len(kw) == 1 and op.get("single", True) and list(kw.values())[0] is not None:
                    (pn, pv), = kw.items()
                    call = lambda: h.obj.set_property(pn, pv)
                else:
                    call = lambda: h.obj.set_properties(**kw)
                post = lambda r: (None, None, None)
            elif k == "unset_prop":
                from fim.graph.abc_property_graph import ABCPropertyGraph
                h = self.handles[op["h"]]
                line["nid"] = h.obj.node_id
                g = ABCPropertyGraph.map_sliver_property_to_graph(op["pname"])
                if g is not None:
                    line["gname"] = g
                call = lambda: h.obj.unset_property(op["pname"])
                post = lambda r: (None, None, None)
            elif k == "rename":
                h = self.handles[op["h"]]
                line["nid"] = h.obj.node_id
                line["kind"] = h.kind
                call = lambda: h.obj.rename(op["name"])
                post = lambda r: (None, None, None)
            elif k == "add_child_interface":
                port = H("port")
                line["port"] = port.node_id
                line["cache"] = _cache(port)
                kwv = kwargs_of(op.get("kw", []))
                lab = kwv.get("labels")
                try:
                    if lab and lab.vlan:
                        line["vlan"] = str(lab.vlan)
                except AttributeError:
                    pass
                line["vlan_tbl"] = vlan_table(t)
                # what the call does to the caller's Labels before the sliver sees them: local_name of the parent port
                import copy as _copy
                shown = dict(kwv)
                try:
                    with det_uuids():
                        pl = port.labels
                    if pl and lab is not None and hasattr(lab, "local_name"):
                        lab2 = _copy.deepcopy(lab)
                        lab2.local_name = pl.local_name
                        shown["labels"] = lab2
                except Exception:
                    pass
                line["props"] = prop_args_values("iface", [(n, shown[n]) for n in kwv])
                args = dict(name=op["name"], **kwv)
                if op.get("nid") is not None:
                    args["node_id"] = op["nid"]
                call = lambda: port.add_child_interface(**args)
                post = lambda r: (self.add_handle("iface", r), r.node_id, _cache(port))
            elif k == "remove_child_interface":
                port = H("port")
                line["port"] = port.node_id
                line["cache"] = _cache(port)
                call = lambda: port.remove_child_interface(name=op["name"])
                post = lambda r: (None, None, _cache(port))
            elif k in ("peer", "unpeer"):
                svc = H("svc")
                line["svc"] = svc.node_id
                line["sname"] = svc.name
                line["cache"] = _cache(svc)
                if op["other"] == BOGUS:
                    other = "bogus-object"
                else:
                    other = H("other")
                    line["other"] = {"nid": other.node_id, "name": other.name, "cache": _cache(other)}
                if k == "peer":
                    line["props"] = prop_args("iface", op.get("kw", []))
                    kwv = kwargs_of(op.get("kw", []))
                    call = lambda: svc.peer(other, **kwv)
                else:
                    call = lambda: svc.unpeer(other)
                post = lambda r: (None, None, _cache(svc), _cache(other) if other != "bogus-object" else None)
            elif k == "add_port_mirror":
                w, o = (None, None) if op.get("to") is None else self._if_arg(op["to"])
                kw = [["mirror_port", ["str", op.get("from_name")] if op.get("from_name") is not None else ["none"]],
                      ["mirror_vlan", ["str", op["from_vlan"]] if op.get("from_vlan") is not None else ["none"]],
                      ["mirror_direction", ["mdir", op.get("direction", "Both")]]] + op.get("kw", [])
                line["nstype"] = "PortMirror"
                line["props"] = prop_args("svc", kw)
                line["ifs"] = [w] if op.get("to") is not None else []
                line["to_ok"] = bool(o)
                line["from_ok"] = bool(op.get("from_name"))
                args = dict(name=op["name"], from_interface_name=op.get("from_name"), to_interface=o,
                            from_interface_vlan=op.get("from_vlan"), direction=mk_value(["mdir", op.get("direction", "Both")]),
                            **kwargs_of(op.get("kw", [])))
                if op.get("nid") is not None:
                    args["node_id"] = op["nid"]
                call = lambda: t.add_port_mirror_service(**args)
                post = lambda r: (self.add_handle("svc", r), r.node_id, _cache(r))
            elif k == "add_component_mt":
                import fim.slivers.component_catalog as cc
                cc.ComponentCatalog()
                mt = cc.ComponentModelType[op["model_type"]]
                line["parent"] = H("parent").node_id
                line["props"] = prop_args("comp", op.get("kw", []))
                line["mt_model"] = cc.ComponentModelTypeMap[mt]["Model"]
                line["mt_type"] = cc.ComponentModelTypeMap[mt]["Type"]
                args = dict(name=op["name"], model_type=mt, **kwargs_of(op.get("kw", [])))
                if op.get("nid") is not None:
                    args["node_id"] = op["nid"]
                if op.get("ctype") is not None:
                    args["ctype"] = _enum(ComponentType, op["ctype"])
                if op.get("model") is not None:
                    args["model"] = op["model"]
                if op.get("ns_nid") is not None:
                    args["network_service_node_id"] = op["ns_nid"]
                if op.get("if_nids") is not None:
                    args["interface_node_ids"] = list(op["if_nids"])
                if op.get("n_labels") is not None:
                    from fim.slivers.capacities_labels import Labels
                    args["interface_labels"] = [Labels() for _ in range(op["n_labels"])]
                call = lambda: H("parent").add_component(**args)
                post = lambda r: (self.add_handle("comp", r), r.node_id, None)
            elif k == "prune":
                # the four sets are iterated in hash order: record the order in which the call visits what it prunes
                rec = {"nodes": [], "comps": [], "nss": [], "ifs": []}
                line.update(rec)

                def call():
                    import fim.user.topology as ft
                    cls = ft.ExperimentTopology
                    orig = (cls._prune_node, cls._prune_components, cls._prune_ns, cls._prune_interface)

                    def pn(self_, node):
                        rec["nodes"].append(node.name)
                        return orig[0](self_, node)

                    def pc(self_, c, parent):
                        rec["comps"].append([c.node_id, c.name, parent.node_id])
                        return orig[1](self_, c, parent)

                    def ps(self_, ns):
                        rec["nss"].append(ns.node_id)
                        return orig[2](self_, ns)

                    def pi(self_, i):
                        rec["ifs"].append(i.node_id)
                        return orig[3](self_, i)
                    cls._prune_node, cls._prune_components, cls._prune_ns, cls._prune_interface = pn, pc, ps, pi
                    try:
                        return t.prune(op["state"])
                    finally:
                        cls._prune_node, cls._prune_components, cls._prune_ns, cls._prune_interface = orig
                        line.update(rec)
                post = lambda r: (None, None, None)
            else:
                raise ValueError("unknown op %r" % k)
        except KeyError as e:
            raise ValueError("malformed op %r: %s" % (op, e))
        with det_uuids():
            try:
                r = call()
            except Exception as e:
                return ["err", err_kind(e)], line
            pr = post(r)
            hk, rid, cache = pr[:3]
        return ["ok", rid, cache, hk] + list(pr[3:4]), line


def lean_line(line):
    return json.dumps(line, sort_keys=True)


def parse_reply(txt):
    """-> (outcome, snapshot) with outcome ["ok", ret, cache] / ["err", kind]"""
    j = json.loads(txt)
    if j[0] == "ok":
        if j[1] is None:
            return ["ok", None, None], None
        return ["ok", j[1].get("ret"), j[1].get("cache")] + ([j[1]["cache2"]] if "cache2" in j[1] else []), canon_snap(j[1]["snap"])
    if len(j) >= 3:
        return ["err", j[1]], canon_snap(j[2])
    return ["err", j[1]], None


def canon_cache(c):
    return None if c is None else sorted(c)


# --------------------------------------------------------------------------
# generators

SITES = ["RENC", "UKY", "LBNL"]
NODE_TYPES = ["VM", "Server", "Container", "Switch", "NAS"]
COMPONENTS = [("SmartNIC", "ConnectX-6"), ("SmartNIC", "ConnectX-5"), ("SharedNIC", "ConnectX-6"), ("GPU", "RTX6000"),
              ("GPU", "Quadro RTX 6000/8000"), ("NVME", "P4510"), ("FPGA", "Xilinx-U280"), ("SharedNIC", "OpenStack-vNIC")]
SVC_TYPES = ["L2Bridge", "L2STS", "L2PTP", "FABNetv4", "FABNetv6", "L2Multisite", "L3VPN", "FABNetv4Ext", "L2Path"]
NODE_SVC_TYPES = ["OVS", "P4", "MPLS", "VLAN"]
IF_TYPES = ["TrunkPort", "AccessPort", "DedicatedPort", "FacilityPort", "StitchPort", "vInt"]
GOOD_KW = {
    "node": [["capacities", ["cap", {"core": 2, "ram": 8}]], ["labels", ["lab", {"local_name": "n"}]], ["image_type", ["str", "qcow2"]],
             ["boot_script", ["str", "echo hi"]], ["capacities", ["cap", {"disk": 10}]], ["details", ["str", "some text"]]],
    "comp": [["labels", ["lab", {"bdf": "0000:41:00.0"}]], ["capacities", ["cap", {"unit": 1}]], ["details", ["str", "d"]]],
    "svc": [["labels", ["lab", {"vlan": "100"}]], ["capacities", ["cap", {"bw": 10}]], ["controller_url", ["str", "http://x"]]],
    "iface": [["labels", ["lab", {"vlan": "200"}]], ["capacities", ["cap", {"bw": 25}]], ["labels", ["lab", {"local_name": "e0", "mac": "0C:42:A1:EA:C7:51"}]]],
    "link": [["capacities", ["cap", {"bw": 100}]], ["labels", ["lab", {"vlan": "300"}]]],
}
BAD_KW = {
    "node": [["capacities", ["str", "lots"]], ["no_such_property", ["int", 1]], ["labels", ["cap", {"core": 1}]], ["boot_script", ["int", 7]]],
    "comp": [["capacities", ["int", 3]], ["bogus", ["str", "x"]]],
    "svc": [["labels", ["str", "x"]], ["nonexistent", ["int", 0]], ["capacities", ["lab", {"vlan": "1"}]]],
    "iface": [["capacities", ["str", "fast"]], ["whatever", ["none"]], ["labels", ["int", 5]]],
    "link": [["labels", ["str", "x"]], ["zzz", ["int", 1]]],
}
UNSET_NAMES = ["capacities", "labels", "details", "boot_script", "name", "type", "site", "no_such", "image_type"]


def pick_kw(rng, kind, bad_at=None, n=None):
    n = rng.randrange(0, 3) if n is None else n
    kw, seen = [], set()
    for _ in range(n):
        c = rng.choice(GOOD_KW[kind])
        if c[0] not in seen:
            seen.add(c[0])
            kw.append(c)
    if bad_at is not None:
        b = rng.choice([x for x in BAD_KW[kind] if x[0] not in seen] or BAD_KW[kind])
        kw = [x for x in kw if x[0] != b[0]]
        kw.insert(min(bad_at, len(kw)), b)
    return kw


class Names:
    """name / id supply of a history"""

    def __init__(self, rng):
        self.rng, self.k = rng, 0

    def new(self, pre):
        self.k += 1
        return "%s%d" % (pre, self.k)

    def nid(self, flavour, force=False):
        if flavour == "sub" or force or self.rng.random() < 0.3:
            self.k += 1
            return "id-%d" % self.k
        return None


def free_ifaces(sess):
    """interface handles of nodes (not service ports) that are alive and have no peer"""
    out = []
    for h in sess.of_kind("iface"):
        try:
            if h.obj.type is not None and str(h.obj.type) != "ServicePort" and h.obj.get_peers() is None \
                    and sess.topo.get_owner_node(h.obj) is not None:
                out.append(h)
        except Exception:
            pass
    return out


MODEL_TYPES = ["SmartNIC_ConnectX_6", "SmartNIC_ConnectX_5", "FPGA_Xilinx_U280", "GPU_RTX6000", "SharedNIC_ConnectX_6", "NVME_P4510"]


def gen_op(rng, sess, names, fault=0.0, ext=False):
    """One building call applicable to the session's state; with probability `fault` a call that should be
    rejected (the generator says which fault it injected in op["fault"] - informational only).
    ext=True adds the calls of the second alphabet (sub-interfaces, peer/unpeer, port mirror, model_type= components)."""
    fl = sess.flavour
    nodes = [h for h in sess.of_kind("node") if sess.alive(h)]
    comps = [h for h in sess.of_kind("comp") if sess.alive(h)]
    svcs = [h for h in sess.of_kind("svc") if sess.alive(h)]
    top_svcs = [h for h in svcs if _is_top(sess, h)]      # connecting a node's interface to that node's own service makes
    links = [h for h in sess.of_kind("link") if sess.alive(h)]
    ifaces = [h for h in sess.of_kind("iface") if sess.alive(h)]
    free = free_ifaces(sess)
    stale = [h for h in sess.order if not sess.alive(sess.handles[h])]
    bad = rng.random() < fault
    menu = ["add_node"] * 3
    if nodes:
        menu += ["add_component"] * 4 + ["node_add_service", "set_props", "rename", "unset_prop", "remove_node"]
        if fl == "exp":
            menu += ["add_storage"]
    if len(free) >= 1:
        menu += ["add_service"] * 4 + ["add_link"]
    if svcs:
        menu += ["ns_add_interface"] * 2 + ["remove_service", "set_props"]
        if free and top_svcs:
            menu += ["connect"] * 2
        if fl == "sub":
            menu += ["ns_remove_interface"]
    if [h for h in ifaces if _is_connected(h)]:
        menu += ["disconnect"]
    if comps:
        menu += ["remove_component"]
    if links or [h for h in ifaces if _is_connected(h)]:
        menu += ["remove_link"]
    menu += ["add_facility", "add_switch", "add_service"]
    if any(_node_type(h) == "Facility" for h in nodes):
        menu += ["remove_facility"]
    if any(_node_type(h) == "Switch" for h in nodes):
        menu += ["remove_switch"]
    if ext:
        ded = [h for h in ifaces if _if_type(h) == "DedicatedPort"]
        with_kids = [h for h in ded if getattr(h.obj, "_interfaces", None)]
        if ded:
            menu += ["add_child_interface"] * 4
        if with_kids:
            menu += ["remove_child_interface"]
        if len(top_svcs) >= 2:
            menu += ["peer"] * 2 + ["unpeer"]
        if free and fl == "exp":
            menu += ["add_port_mirror"]
        if nodes:
            menu += ["add_component_mt"] * 2
        if fl == "exp" and (nodes or svcs):
            menu += ["mark"] * 2 + ["prune"]
    k = rng.choice(menu)
    op = {"op": k}
    existing_node_names = [h.obj.name for h in nodes]
    if k == "mark":          # set reservation_info on an element, for prune to find
        h = rng.choice(nodes + comps + svcs + ifaces)
        return {"op": "set_props", "h": h.key, "kw": [["reservation_info", ["rinfo", rng.choice(["Failed", "Failed", "Closed"])]]]}
    if k == "prune":
        return {"op": "prune", "state": rng.choice(["Failed", "Failed", "Closed", "Nascent"])}
    if k == "add_child_interface":
        p = rng.choice(ded)
        vl = str(rng.randrange(100, 130))
        op.update(port=p.key, name=names.new("sub"), nid=names.nid(fl), kw=[["labels", ["lab", {"vlan": vl}]]])
        if rng.random() < 0.4:
            op["kw"].append(["capacities", ["cap", {"bw": rng.choice([1, 10])}]])
        if bad:
            f = rng.choice(["dup-name", "dup-vlan", "no-labels", "no-vlan", "stale-port", "not-dedicated", "dup-id", "bad-prop", "bad-name"])
            op["fault"] = f
            kids = getattr(p.obj, "_interfaces", None) or []
            if f == "dup-name" and kids:
                op["name"] = rng.choice(kids).name
            elif f == "dup-vlan" and kids:
                try:
                    op["kw"][0] = ["labels", ["lab", {"vlan": str(rng.choice(kids).labels.vlan)}]]
                except Exception:
                    pass
            elif f == "no-labels":
                op["kw"] = op["kw"][1:]
            elif f == "no-vlan":
                op["kw"][0] = ["labels", ["lab", {"local_name": "x"}]]
            elif f == "stale-port" and any(sess.handles[x].kind == "iface" for x in stale):
                op["port"] = rng.choice([x for x in stale if sess.handles[x].kind == "iface"])
            elif f == "not-dedicated":
                nd = [h for h in ifaces if _if_type(h) != "DedicatedPort"]
                if nd:
                    op["port"] = rng.choice(nd).key
            elif f == "dup-id" and ifaces:
                op["nid"] = rng.choice(ifaces).obj.node_id
            elif f == "bad-prop":
                op["kw"].insert(rng.randrange(len(op["kw"]) + 1), rng.choice(BAD_KW["iface"][:2]))
            elif f == "bad-name":
                op["name"] = rng.choice(["bad/name", ""])
        return op
    if k == "remove_child_interface":
        p = rng.choice(with_kids)
        op.update(port=p.key, name=rng.choice(p.obj._interfaces).name if not bad else "no-such-child")
        return op
    if k in ("peer", "unpeer"):
        a, b = rng.sample(top_svcs, 2)
        op.update(svc=a.key, other=b.key)
        if k == "peer":
            op["kw"] = pick_kw(rng, "iface")
        if k == "unpeer" and not bad:
            # prefer a pair that does peer
            pairs = []
            for x in top_svcs:
                for y in top_svcs:
                    if x is not y and any(i.name == x.obj.name + "-" + y.obj.name for i in (x.obj._interfaces or [])):
                        pairs.append((x, y))
            if pairs and rng.random() < 0.8:
                a, b = rng.choice(pairs)
                if rng.random() < 0.5:
                    a, b = b, a
                op.update(svc=a.key, other=b.key)
        if bad:
            f = rng.choice(["bogus-other", "stale-other", "stale-self", "bad-prop", "self"])
            op["fault"] = f
            st_svc = [x for x in stale if sess.handles[x].kind == "svc"]
            if f == "bogus-other":
                op["other"] = BOGUS
            elif f == "stale-other" and st_svc:
                op["other"] = rng.choice(st_svc)
            elif f == "stale-self" and st_svc:
                op["svc"] = rng.choice(st_svc)
            elif f == "bad-prop" and k == "peer":
                op["kw"] = pick_kw(rng, "iface", bad_at=rng.randrange(0, 2), n=1)
            elif f == "self":
                try:        # another handle on the same service (the same handle object would alias the two caches)
                    op["other"] = sess.fresh("svc", a.obj.name)
                except Exception:
                    pass
        return op
    if k == "add_port_mirror":
        to = rng.choice(free)
        op.update(name=names.new("pm"), nid=names.nid(fl), to=to.key, from_name=rng.choice(["p1", "nic1-p1", "e0"]),
                  from_vlan=rng.choice([None, "100"]), direction=rng.choice(["Both", "RX_Only", "TX_Only"]), kw=pick_kw(rng, "svc", n=rng.choice([0, 1])))
        if bad:
            f = rng.choice(["no-to", "no-from", "connected-iface", "bogus-iface", "dup-name", "dup-id", "bad-prop", "stale-iface"])
            op["fault"] = f
            if f == "no-to":
                op["to"] = None
            elif f == "no-from":
                op["from_name"] = rng.choice([None, ""])
            elif f == "connected-iface" and [h for h in ifaces if _is_connected(h)]:
                op["to"] = rng.choice([h for h in ifaces if _is_connected(h)]).key
            elif f == "bogus-iface":
                op["to"] = BOGUS
            elif f == "dup-name" and svcs:
                op["name"] = rng.choice(svcs).obj.name
            elif f == "dup-id" and svcs:
                op["nid"] = rng.choice(svcs).obj.node_id
            elif f == "bad-prop":
                op["kw"] = pick_kw(rng, "svc", bad_at=0, n=1)
            elif f == "stale-iface" and any(sess.handles[s].kind == "iface" for s in stale):
                op["to"] = rng.choice([s for s in stale if sess.handles[s].kind == "iface"])
        return op
    if k == "add_component_mt":
        p = rng.choice(nodes)
        mt = rng.choice(MODEL_TYPES)
        op.update(parent=p.key, name=names.new("c"), nid=names.nid(fl), model_type=mt, kw=pick_kw(rng, "comp"))
        r = rng.random()
        if r < 0.25:        # ctype / model given as well: the model type wins, the substrate guard looks at ctype
            ct, md = rng.choice(COMPONENTS)
            op.update(ctype=ct, model=md)
        if fl == "sub" and rng.random() < 0.7:
            nif = _mt_ifaces(mt)
            op.update(ns_nid=names.nid(fl, True), if_nids=[names.nid(fl, True) for _ in range(nif)], n_labels=nif)
        if bad:
            f = rng.choice(["dup-name", "dup-id", "bad-prop", "stale-parent", "dup-iface-id", "short-ids"])
            op["fault"] = f
            sib = _child_names(p)
            if f == "dup-name" and sib:
                op["name"] = rng.choice(sib)
            elif f == "dup-id" and comps:
                op["nid"] = rng.choice(comps).obj.node_id
            elif f == "bad-prop":
                op["kw"] = pick_kw(rng, "comp", bad_at=rng.randrange(0, 3), n=2)
            elif f == "stale-parent" and any(sess.handles[s].kind == "node" for s in stale):
                op["parent"] = rng.choice([s for s in stale if sess.handles[s].kind == "node"])
            elif f == "dup-iface-id" and op.get("if_nids") and ifaces:
                op["if_nids"][rng.randrange(len(op["if_nids"]))] = rng.choice(ifaces).obj.node_id
            elif f == "short-ids" and op.get("if_nids"):
                op["if_nids"] = op["if_nids"][:-1]
        return op
    if k == "add_node":
        op.update(name=names.new("n"), nid=names.nid(fl), site=rng.choice(SITES), ntype=rng.choice(NODE_TYPES), kw=pick_kw(rng, "node"))
        if bad:
            f = rng.choice(["dup-name", "dup-id", "bad-prop", "no-type", "no-site", "bad-name"] + (["no-id"] if fl == "sub" else []))
            op["fault"] = f
            if f == "dup-name" and existing_node_names:
                op["name"] = rng.choice(existing_node_names)
            elif f == "dup-id" and nodes:
                op["nid"] = rng.choice(nodes).obj.node_id
            elif f == "bad-prop":
                op["kw"] = pick_kw(rng, "node", bad_at=rng.randrange(0, 3), n=2)
            elif f == "no-type":
                op["ntype"] = None
            elif f == "no-site":
                op["site"] = None
            elif f == "bad-name":
                op["name"] = rng.choice(["x", "bad/name", ""])
            elif f == "no-id":
                op["nid"] = None
    elif k in ("add_component", "add_storage"):
        p = rng.choice(nodes)
        op.update(parent=p.key, name=names.new("c"), nid=names.nid(fl), kw=pick_kw(rng, "comp"))
        if k == "add_component":
            ct, md = rng.choice(COMPONENTS)
            op.update(ctype=ct, model=md)
            if fl == "sub" or rng.random() < 0.15:
                nif = _n_ifaces(ct, md)
                op.update(ns_nid=names.nid(fl, True), if_nids=[names.nid(fl, True) for _ in range(nif)], n_labels=nif)
        if bad:
            f = rng.choice(["dup-name", "dup-id", "bad-prop", "unknown-model", "stale-parent", "dup-iface-id", "dup-ns-id", "short-ids"])
            op["fault"] = f
            sib = _child_names(p)
            if f == "dup-name" and sib:
                op["name"] = rng.choice(sib)
            elif f == "dup-id" and comps:
                op["nid"] = rng.choice(comps).obj.node_id
            elif f == "bad-prop":
                op["kw"] = pick_kw(rng, "comp", bad_at=rng.randrange(0, 3), n=2)
            elif f == "unknown-model" and k == "add_component":
                op["model"] = "NoSuchModel"
            elif f == "stale-parent" and stale and any(sess.handles[s].kind == "node" for s in stale):
                op["parent"] = rng.choice([s for s in stale if sess.handles[s].kind == "node"])
            elif f == "dup-iface-id" and op.get("if_nids") and ifaces:
                op["if_nids"][rng.randrange(len(op["if_nids"]))] = rng.choice(ifaces).obj.node_id
            elif f == "dup-ns-id" and op.get("if_nids") is not None and svcs:
                op["ns_nid"] = rng.choice(svcs).obj.node_id
            elif f == "short-ids" and op.get("if_nids"):
                op["if_nids"] = op["if_nids"][:-1]
    elif k == "node_add_service":
        p = rng.choice(nodes)
        op.update(parent=p.key, name=names.new("ns"), nid=names.nid(fl), nstype=rng.choice(NODE_SVC_TYPES), kw=pick_kw(rng, "svc"))
        if bad:
            f = rng.choice(["dup-name", "dup-id", "bad-prop", "no-type"])
            op["fault"] = f
            if f == "dup-id" and svcs:
                op["nid"] = rng.choice(svcs).obj.node_id
            elif f == "bad-prop":
                op["kw"] = pick_kw(rng, "svc", bad_at=rng.randrange(0, 3), n=2)
            elif f == "no-type":
                op["nstype"] = None
            elif f == "dup-name":
                sn = _svc_child_names(p)
                if sn:
                    op["name"] = rng.choice(sn)
    elif k == "add_service":
        n = min(len(free), rng.choice([0, 1, 1, 2, 2, 3, 4]))
        chosen = rng.sample(free, n)
        op.update(name=names.new("s"), nid=names.nid(fl), nstype=rng.choice(SVC_TYPES), ifs=[h.key for h in chosen], kw=pick_kw(rng, "svc"))
        if rng.random() < 0.3:
            op["site"] = rng.choice(SITES)
        if bad:
            f = rng.choice(["bogus-iface", "stale-iface", "connected-iface", "repeat-iface", "shared-on-l2ptp", "dup-name", "dup-id",
                            "bad-prop", "no-type", "service-port"])
            op["fault"] = f
            pos = rng.randrange(0, len(op["ifs"]) + 1)
            if f == "bogus-iface":
                op["ifs"].insert(pos, BOGUS)
            elif f == "stale-iface" and any(sess.handles[s].kind == "iface" for s in stale):
                op["ifs"].insert(pos, rng.choice([s for s in stale if sess.handles[s].kind == "iface"]))
            elif f == "connected-iface" and [h for h in ifaces if _is_connected(h)]:
                op["ifs"].insert(pos, rng.choice([h for h in ifaces if _is_connected(h)]).key)
            elif f == "repeat-iface" and op["ifs"]:
                op["ifs"].insert(pos, rng.choice(op["ifs"]))
            elif f == "shared-on-l2ptp":
                op["nstype"] = "L2PTP"
                sh = [h for h in free if str(h.obj.type) == "SharedPort"]
                if sh:
                    op["ifs"].insert(pos, rng.choice(sh).key)
            elif f == "dup-name" and svcs:
                op["name"] = rng.choice(svcs).obj.name
            elif f == "dup-id" and svcs:
                op["nid"] = rng.choice(svcs).obj.node_id
            elif f == "bad-prop":
                op["kw"] = pick_kw(rng, "svc", bad_at=rng.randrange(0, 3), n=2)
            elif f == "no-type":
                op["nstype"] = None
            elif f == "service-port":
                sp = [h for h in ifaces if str(h.obj.type) == "ServicePort"]
                if sp:
                    op["ifs"].insert(pos, rng.choice(sp).key)
    elif k == "add_link":
        n = min(len(free), rng.choice([1, 2, 2, 3]))
        op.update(name=names.new("l"), nid=names.nid(fl), ltype=rng.choice(["Patch", "L2Path", "L1Path"]),
                  ifs=[h.key for h in rng.sample(free, n)], kw=pick_kw(rng, "link"))
        if bad:
            f = rng.choice(["bogus-iface", "stale-iface", "dup-name", "dup-id", "bad-prop", "no-type", "no-ifs", "empty-ifs"])
            op["fault"] = f
            pos = rng.randrange(0, len(op["ifs"]) + 1)
            if f == "bogus-iface":
                op["ifs"].insert(pos, BOGUS)
            elif f == "stale-iface" and any(sess.handles[s].kind == "iface" for s in stale):
                op["ifs"].insert(pos, rng.choice([s for s in stale if sess.handles[s].kind == "iface"]))
            elif f == "dup-name" and links:
                op["name"] = rng.choice(links).obj.name
            elif f == "dup-id" and links:
                op["nid"] = rng.choice(links).obj.node_id
            elif f == "bad-prop":
                op["kw"] = pick_kw(rng, "link", bad_at=rng.randrange(0, 3), n=2)
            elif f == "no-type":
                op["ltype"] = None
            elif f == "no-ifs":
                op["ifs"] = None
            elif f == "empty-ifs":
                op["ifs"] = []
    elif k == "ns_add_interface":
        s = rng.choice(svcs)
        op.update(svc=s.key, name=names.new("i"), nid=names.nid(fl), itype=rng.choice(IF_TYPES), kw=pick_kw(rng, "iface"))
        if bad:
            f = rng.choice(["dup-name", "dup-id", "bad-prop", "no-type", "stale-svc"])
            op["fault"] = f
            if f == "dup-name" and s.obj._interfaces:
                op["name"] = rng.choice(s.obj._interfaces).name
            elif f == "dup-id" and ifaces:
                op["nid"] = rng.choice(ifaces).obj.node_id
            elif f == "bad-prop":
                op["kw"] = pick_kw(rng, "iface", bad_at=rng.randrange(0, 3), n=2)
            elif f == "no-type":
                op["itype"] = None
            elif f == "stale-svc" and any(sess.handles[x].kind == "svc" for x in stale):
                op["svc"] = rng.choice([x for x in stale if sess.handles[x].kind == "svc"])
    elif k == "ns_remove_interface":
        s = rng.choice(svcs)
        nm = [i.name for i in s.obj._interfaces] or ["nope"]
        op.update(svc=s.key, name=rng.choice(nm) if not bad else "no-such-interface")
    elif k == "connect":
        s = rng.choice(top_svcs)
        op.update(svc=s.key)
        op["if"] = rng.choice(free).key
        if bad:
            f = rng.choice(["bogus-iface", "stale-iface", "connected-iface", "service-port"])
            op["fault"] = f
            if f == "bogus-iface":
                op["if"] = BOGUS
            elif f == "stale-iface" and any(sess.handles[x].kind == "iface" for x in stale):
                op["if"] = rng.choice([x for x in stale if sess.handles[x].kind == "iface"])
            elif f == "connected-iface" and [h for h in ifaces if _is_connected(h)]:
                op["if"] = rng.choice([h for h in ifaces if _is_connected(h)]).key
            elif f == "service-port":
                sp = [h for h in ifaces if str(h.obj.type) == "ServicePort"]
                if sp:
                    op["if"] = rng.choice(sp).key
    elif k == "disconnect":
        c = [h for h in ifaces if _is_connected(h)]
        h = rng.choice(c)
        owner = None
        try:
            owner = sess.topo.get_parent_element(h.obj.get_peers()[0])
        except Exception:
            pass
        cand = [s for s in svcs if owner is not None and s.obj.node_id == owner.node_id] or svcs
        if not cand:
            return gen_op(rng, sess, names, fault)
        op.update(svc=rng.choice(cand).key)
        op["if"] = h.key
    elif k == "add_facility":
        op.update(name=names.new("f"), nid=names.nid(fl), site=rng.choice(SITES))
        r = rng.random()
        if r < 0.5:
            op["kw"] = pick_kw(rng, "iface")
        else:
            m = rng.choice([1, 2, 2, 3])
            op["ifs"] = [[names.new("fi"), ["lab", {"vlan": str(100 + j)}], ["cap", {"bw": 10}]] for j in range(m)]
        if bad:
            f = rng.choice(["dup-name", "dup-id", "bad-iface-prop", "dup-iface-name", "no-site"])
            op["fault"] = f
            if f == "dup-name" and existing_node_names:
                op["name"] = rng.choice(existing_node_names)
            elif f == "dup-id" and nodes:
                op["nid"] = rng.choice(nodes).obj.node_id
            elif f == "bad-iface-prop":
                if "ifs" in op:
                    op["ifs"][rng.randrange(len(op["ifs"]))][2] = ["str", "fast"]
                else:
                    op["kw"] = pick_kw(rng, "iface", bad_at=0, n=1)
            elif f == "dup-iface-name" and "ifs" in op and len(op["ifs"]) > 1:
                op["ifs"][-1][0] = op["ifs"][0][0]
            elif f == "no-site":
                op["site"] = None
    elif k == "add_switch":
        op.update(name=names.new("sw"), nid=names.nid(fl), site=rng.choice(SITES), nports=rng.choice([1, 2, 3]))
        if bad:
            f = rng.choice(["dup-name", "dup-id", "derived-id-taken"])
            op["fault"] = f
            if f == "dup-name" and existing_node_names:
                op["name"] = rng.choice(existing_node_names)
            elif f == "dup-id" and nodes:
                op["nid"] = rng.choice(nodes).obj.node_id
            elif f == "derived-id-taken" and ifaces:
                iid = rng.choice(ifaces).obj.node_id
                if iid.endswith("-int1") or iid.endswith("-int0"):
                    op["nid"] = iid[:-5]
    elif k in ("remove_node", "remove_facility", "remove_switch"):
        want = {"remove_node": None, "remove_facility": "Facility", "remove_switch": "Switch"}[k]
        cand = [h.obj.name for h in nodes if want is None or _node_type(h) == want]
        op["name"] = rng.choice(cand) if cand and not bad else rng.choice(existing_node_names + ["no-such-node"])
    elif k == "remove_link":
        try:
            all_links = sorted(sess.topo.links.keys())      # connection links (made by connect_interface) included
        except Exception:
            all_links = [h.obj.name for h in links]
        op["name"] = rng.choice(all_links or ["no-such-link"]) if not bad else "no-such-link"
    elif k == "remove_service":
        op["name"] = rng.choice(svcs).obj.name if not bad else "no-such-service"
    elif k == "remove_component":
        c = rng.choice(comps)
        try:
            parent = sess.topo.get_parent_element(c.obj)
            ph = [h for h in nodes if h.obj.node_id == parent.node_id]
        except Exception:
            ph = []
        if not ph:
            return gen_op(rng, sess, names, fault)
        op.update(parent=ph[0].key, name=c.obj.name if not bad else "no-such-component")
    elif k == "set_props":
        h = rng.choice(nodes + comps + svcs + ifaces + links)
        op.update(h=h.key, kw=pick_kw(rng, h.kind, n=rng.choice([1, 1, 2])) or [GOOD_KW[h.kind][0]])
        if bad:
            op["fault"] = "bad-prop"
            op["kw"] = pick_kw(rng, h.kind, bad_at=rng.randrange(0, 2), n=rng.choice([0, 1, 2]))
        if rng.random() < 0.35:          # a None (or empty) value among the keywords: set_properties, not set_property
            used = {x[0] for x in op["kw"]}
            cand = [x[0] for x in GOOD_KW[h.kind] if x[0] not in used]
            if cand:
                op["kw"].insert(rng.randrange(len(op["kw"]) + 1), [rng.choice(cand), ["none"]])
                op["single"] = False
    elif k == "unset_prop":
        h = rng.choice(nodes + comps + svcs + ifaces + links)
        op.update(h=h.key, pname=rng.choice(UNSET_NAMES))
    elif k == "rename":
        h = rng.choice(nodes + comps + svcs + links)
        op.update(h=h.key, name=names.new("r") if not bad else rng.choice(["x", "a/b"]))
    return op


def _if_type(h):
    try:
        return str(h.obj.type)
    except Exception:
        return None


def _mt_ifaces(mt_name):
    import fim.slivers.component_catalog as cc
    cc.ComponentCatalog()
    e = cc.ComponentModelTypeMap[cc.ComponentModelType[mt_name]]
    return len(e.get("Interfaces", {}))


def _is_top(sess, h):
    try:
        return sess.topo.get_owner_node(h.obj) is None
    except Exception:
        return False


def _node_type(h):
    try:
        return str(h.obj.type)
    except Exception:
        return None


def _is_connected(h):
    try:
        return str(h.obj.type) != "ServicePort" and bool(h.obj.get_peers(itype=_sp()))
    except Exception:
        return False


def _sp():
    from fim.slivers.interface_info import InterfaceType
    return InterfaceType.ServicePort


def _child_names(h):
    try:
        return list(h.obj.components.keys())
    except Exception:
        return []


def _svc_child_names(h):
    try:
        return list(h.obj.network_services.keys())
    except Exception:
        return []


def _n_ifaces(ctype, model):
    import os
    import fim.slivers.component_catalog as cc
    with open(os.path.join(os.path.dirname(cc.__file__), "data", "component_catalog.json")) as f:
        for c in json.load(f):
            if c["Type"] == ctype and (c["Model"] == model or model in (c.get("AlsoModels") or [])):
                return len(c.get("Interfaces", {}))
    return 0


def after_success(sess, op, outcome):
    """pick up interface handles that a successful creation made reachable (fresh lookups through the API)"""
    if outcome[0] != "ok" or outcome[3] is None:
        return
    if op["op"] in ("add_component", "add_facility", "add_switch", "add_component_mt"):
        try:
            sess.harvest(outcome[3])
        except Exception:
            pass


# --------------------------------------------------------------------------
# collisions between caller-supplied names / ids and what the model already holds (any class, any scope): names the
# library DERIVED (owned services '<switch>-ns', '<node>-<nic>-l2ovs', ports, ServicePorts, links of connections) included

NAMING_OPS = ("add_node", "add_facility", "add_switch", "add_component", "add_component_mt", "add_storage", "add_service",
              "node_add_service", "add_port_mirror", "add_link", "ns_add_interface", "add_child_interface", "rename")


def model_names(sess, classes=None):
    """every Name in the graph the store holds for the session's topology (optionally of some classes only)"""
    return sorted({n[2] for n in snapshot(sess.topo)["nodes"] if n[2] is not None and (classes is None or n[0] in classes)})


def model_ids(sess):
    return sorted({n[1] for n in snapshot(sess.topo)["nodes"] if n[1] is not None})


_OWN_CLASS = {"add_node": ("NetworkNode",), "add_facility": ("NetworkNode",), "add_switch": ("NetworkNode",),
              "add_service": ("NetworkService",), "node_add_service": ("NetworkService",), "add_port_mirror": ("NetworkService",),
              "add_link": ("Link",), "add_component": ("Component",), "add_component_mt": ("Component",), "add_storage": ("Component",),
              "ns_add_interface": ("ConnectionPoint",), "add_child_interface": ("ConnectionPoint",)}
_KIND_CLASS = {"node": "NetworkNode", "comp": "Component", "svc": "NetworkService", "iface": "ConnectionPoint", "link": "Link"}


def collide(rng, sess, op, p_name=0.3, p_id=0.06, set_name=False):
    """With probability p_name the caller-supplied name of a creating / renaming call is replaced by a name that is already
    in the model: half of the time one of the class the call creates (any scope - an owned service's derived name for a
    topology-level service, another node's component name, ...), otherwise one of any class.  With probability p_id a
    caller-supplied id is replaced by an id of the model.  set_name: set_props / set_attr get the keyword `name` with such a
    value (only for streams that are not sent to the C09 driver).  The op says what was done in op["collide"]."""
    k = op.get("op")
    if op.get("fault") or k is None:
        return op
    r = rng.random()
    if k in NAMING_OPS and "name" in op and r < p_name:
        cls = _OWN_CLASS.get(k)
        if k == "rename" and op.get("h") in sess.handles:
            cls = (_KIND_CLASS.get(sess.handles[op["h"]].kind),)
        pool = model_names(sess, cls) if rng.random() < 0.5 else []
        pool = pool or model_names(sess)
        if pool:
            return dict(op, name=rng.choice(pool), collide="name")
    elif op.get("nid") is not None and k.startswith(("add", "node_add", "ns_add")) and r < p_name + p_id:
        pool = model_ids(sess)
        if pool:
            return dict(op, nid=rng.choice(pool), collide="id")
    elif set_name and k == "set_props" and r < p_name and op.get("h") in sess.handles and \
            not any(x[0] == "name" for x in op.get("kw", [])):
        cls = (_KIND_CLASS.get(sess.handles[op["h"]].kind),)
        pool = model_names(sess, cls) or model_names(sess)
        if pool:
            kw = list(op.get("kw", []))
            kw.insert(rng.randrange(len(kw) + 1), ["name", ["str", rng.choice(pool)]])
            return dict(op, kw=kw, collide="set-name")
    elif set_name and k == "set_attr" and r < p_name and op.get("h") in sess.handles:
        cls = (_KIND_CLASS.get(sess.handles[op["h"]].kind),)
        pool = model_names(sess, cls) or model_names(sess)
        if pool:
            return dict(op, attr="name", val=["str", rng.choice(pool)], collide="attr-name")
    return op
