"""C14 helpers: run the CBM merge/unmerge/snapshot/rollback code on the shared in-memory store.

`NXCBM` borrows `merge_adm`, `unmerge_adm`, `_update_node_delegations` from `Neo4jCBMGraph` as plain
functions (they only use the abstract graph interface) and gets `snapshot` / `rollback` from
`ABCCBMPropertyGraph`; the temporary ADM cast inside `merge_adm` is pointed at `NetworkXADMGraph`.

Abstract model specs ("spec") are what both sides of the correspondence see:
  {"id": graph id, "nodes": [[NodeID, {prop: str}, ldel, cdel], ...] (store order),
   "edges": [[NodeID a, NodeID b, {prop: str}], ...]}
with ldel/cdel = None (absent) | "" (emptied) | {delegation id: canonical details string}.
"""
import json
import uuid

import networkx as nx

GRAPH_ID, NODE_ID, SI = "GraphID", "NodeID", "StructuralInfo"
LDEL, CDEL = "LabelDelegations", "CapacityDelegations"
SPECIAL = (GRAPH_ID, NODE_ID, SI, LDEL, CDEL)
ADS = ("RENCI", "UKY", "LBNL", "Network")

_cls = {}


def classes():
    """Import lazily (the repo path is set up by core.main)."""
    if _cls:
        return _cls
    from fim.graph.networkx_property_graph import NetworkXPropertyGraph, NetworkXGraphImporter, NetworkXGraphStorage
    from fim.graph.resources.abc_cbm import ABCCBMPropertyGraph
    from fim.graph.resources.networkx_adm import NetworkXADMGraph
    from fim.graph.resources.networkx_arm import NetworkXARMGraph
    import fim.graph.resources.neo4j_cbm as ncbm

    ncbm.Neo4jADMGraph = NetworkXADMGraph      # the "crude typecasting" inside merge_adm

    def _na(self, *a, **k):
        raise NotImplementedError

    class NXCBM(NetworkXPropertyGraph, ABCCBMPropertyGraph):
        merge_adm = ncbm.Neo4jCBMGraph.merge_adm
        unmerge_adm = ncbm.Neo4jCBMGraph.unmerge_adm
        _update_node_delegations = ncbm.Neo4jCBMGraph._update_node_delegations
        get_bqm = get_delegations = get_matching_nodes_with_components = get_intersite_links = _na
        get_sites = get_disconnected_sites = get_connected_sites = get_facility_ports = _na

    _cls.update(NXCBM=NXCBM, PG=NetworkXPropertyGraph, Importer=NetworkXGraphImporter,
                Storage=NetworkXGraphStorage, ADM=NetworkXADMGraph, ARM=NetworkXARMGraph, ncbm=ncbm)
    return _cls


def fresh_store():
    c = classes()
    c["Storage"].storage_instance = None
    return c["Importer"]()


def new_cbm(imp, graph_id="CBM"):
    return classes()["NXCBM"](graph_id=graph_id, importer=imp)


# --------------------------------------------------------------------------
# canonical forms


def _sval(v):
    return v if isinstance(v, str) else json.dumps(v, sort_keys=True, default=str)


def canon_details(v):
    return json.dumps(v, sort_keys=True)


def norm_deleg_text(text, label):
    """What Delegations.from_json(...).to_json() makes of a delegation property (the code re-serialises)."""
    from fim.slivers.delegations import Delegations, DelegationType
    d = Delegations.from_json(json_str=text, atype=DelegationType.LABEL if label else DelegationType.CAPACITY)
    return None if d is None else d.to_json()


def canon_deleg(v):
    """None | "" | {id: details-string}; anything else is kept as a tagged string."""
    if v is None:
        return None
    if v == "":
        return ""
    try:
        d = json.loads(v)
    except Exception:
        return {"?raw": _sval(v)}
    if not isinstance(d, dict):
        return {"?raw": _sval(v)}
    return {k: canon_details(x) for k, x in d.items()}


def canon_prov(v):
    """StructuralInfo text -> list of adm ids (None if the field/property is absent)."""
    if v is None:
        return None
    try:
        d = json.loads(v)
    except Exception:
        return ["?raw:" + _sval(v)]
    ids = d.get("adm_graph_ids") if isinstance(d, dict) else None
    return None if ids is None else list(ids)


def _edge_props(d):
    out = {}
    for k, v in d.items():
        if k == "contraction" and isinstance(v, dict):
            out[k] = json.dumps(sorted(json.dumps({kk: _sval(vv) for kk, vv in x.items()}, sort_keys=True) for x in v.values()))
        else:
            out[k] = _sval(v)
    return out


def snapshot(imp, graph_id, keep_si=False):
    """Canonical view of one graph in the shared store: nodes sorted by NodeID, edges by unordered pair."""
    G = imp.storage.get_graph(graph_id)
    nodes, ids = [], {}
    for n, d in G.nodes(data=True):
        if d.get(GRAPH_ID) != graph_id:
            continue
        ids[n] = d.get(NODE_ID)
        props = {k: _sval(v) for k, v in d.items() if k not in SPECIAL}
        nodes.append([d.get(NODE_ID), props, canon_prov(d.get(SI)), canon_deleg(d.get(LDEL)), canon_deleg(d.get(CDEL))])
    edges = []
    for a, b, d in G.edges(data=True):
        if a in ids and b in ids:
            x, y = sorted((ids[a], ids[b]))
            edges.append([x, y, _edge_props(d)])
    nodes.sort(key=lambda r: r[0])
    edges.sort(key=lambda r: (r[0], r[1]))
    return {"nodes": nodes, "edges": edges}


def spec_of_graph(imp, graph_id):
    """Abstract spec of a graph already in the store (node order = store order)."""
    G = imp.storage.get_graph(graph_id)
    nodes, ids = [], {}
    for n, d in G.nodes(data=True):
        if d.get(GRAPH_ID) != graph_id:
            continue
        ids[n] = d.get(NODE_ID)
        props = {k: _sval(v) for k, v in d.items() if k not in SPECIAL}
        nodes.append([d.get(NODE_ID), props, canon_deleg(d.get(LDEL)), canon_deleg(d.get(CDEL))])
    edges = []
    for a, b, d in G.edges(data=True):
        if a in ids and b in ids:
            edges.append([ids[a], ids[b], _edge_props(d)])
    return {"id": graph_id, "nodes": nodes, "edges": edges}


def _deleg_text(v):
    if v is None or v == "":
        return v
    return json.dumps({k: json.loads(x) for k, x in v.items()})


def load_spec(imp, spec):
    """Put an abstract model into the shared store under spec['id']; returns the property graph."""
    g = nx.Graph()
    idx = {}
    for i, (nid, props, ld, cd) in enumerate(spec["nodes"]):
        a = dict(props)
        a[NODE_ID] = nid
        if ld is not None:
            a[LDEL] = _deleg_text(ld)
        if cd is not None:
            a[CDEL] = _deleg_text(cd)
        g.add_node(i, **a)
        idx[nid] = i
    for a, b, props in spec["edges"]:
        g.add_edge(idx[a], idx[b], **props)
    imp.storage.add_graph(spec["id"], g)
    return classes()["PG"](graph_id=spec["id"], importer=imp)


def common_order(cbm_ids, adm_ids):
    """The iteration order merge_adm will see: set(cbm ids).intersection(set built from the adm's ids in store order).
    CPython's set layout is a deterministic function of the insertion sequence and the hashes, both reproduced here."""
    self_ids = set(cbm_ids)
    other = set()
    for x in adm_ids:
        other.add(x)
    return list(self_ids.intersection(other))


# --------------------------------------------------------------------------
# the source model moves on between calls (unmerge_adm takes a graph ID: the caller's model may have been updated in place,
# reloaded under the same id, or deleted, since it was merged)

EDIT_KINDS = ("delnode", "addnode", "prop", "replace", "reload", "gone")


def apply_edit(imp, spec_id, kind, arg):
    """Change the graph stored under `spec_id` through the graph interface / the store; returns the abstract spec of
    what is stored under the id afterwards (no nodes = the graph is gone)."""
    pg = classes()["PG"](graph_id=spec_id, importer=imp)
    if kind == "delnode":
        pg.delete_node(node_id=arg)
    elif kind == "addnode":
        nid, props, ld, cd, nb = arg
        p = {k: v for k, v in props.items() if k != "Class"}
        if ld is not None:
            p[LDEL] = _deleg_text(ld)
        if cd is not None:
            p[CDEL] = _deleg_text(cd)
        pg.add_node(node_id=nid, label=props.get("Class", "NetworkNode"), props=p)
        if nb is not None:
            pg.add_link(node_a=nb, rel="connects", node_b=nid)
    elif kind == "prop":
        nid, name, val = arg
        pg.update_node_property(node_id=nid, prop_name=name, prop_val=val)
    elif kind == "replace":
        if arg["nodes"]:
            load_spec(imp, arg)          # add_graph replaces the graph stored under the id
        else:
            pg.delete_graph()
    elif kind == "reload":
        cur = spec_of_graph(imp, spec_id)
        if cur["nodes"]:
            load_spec(imp, cur)
    elif kind == "gone":
        pg.delete_graph()
    else:
        raise ValueError(kind)
    return spec_of_graph(imp, spec_id)


def edit_spec(cur, kind, arg):
    """The abstract effect of an edit (for the generators, which plan histories without running them)."""
    if kind == "delnode":
        return {"id": cur["id"], "nodes": [x for x in cur["nodes"] if x[0] != arg], "edges": [e for e in cur["edges"] if arg not in e[:2]]}
    if kind == "addnode":
        return {"id": cur["id"], "nodes": cur["nodes"] + [arg[:4]], "edges": cur["edges"] + ([[arg[4], arg[0], {"Class": "connects"}]] if arg[4] else [])}
    if kind == "prop":
        return {"id": cur["id"], "nodes": [[x[0], dict(x[1], **{arg[1]: arg[2]}), x[2], x[3]] if x[0] == arg[0] else x for x in cur["nodes"]],
                "edges": cur["edges"]}
    if kind == "replace":
        return arg
    if kind == "gone":
        return {"id": cur["id"], "nodes": [], "edges": []}
    return cur


def gen_edit(rng, cur, family, i, n):
    """One update of model i (current version `cur`): (kind, arg).  Retired elements are preferably ones only this model
    has (what an unmerge must take out), new ones are fresh or ids a sibling has (they become shared)."""
    ids = [x[0] for x in cur["nodes"]]
    others = set()
    for j, sp in enumerate(family):
        if j != i:
            others |= {x[0] for x in sp["nodes"]}
    if not ids:
        return ("replace", family[i])                     # the model comes back as it was first
    r = rng.random()

    def new_node():
        cand = sorted(others - set(ids))
        nid = rng.choice(cand) if cand and rng.random() < 0.3 else "%s-new%d" % (ids[0], n)
        ld = {rng.choice(["primary", cur["id"]]): canon_details({"pool_id": "_", "labels": {"vlan_range": "7-8"}})} if rng.random() < 0.3 else None
        cd = {"primary": canon_details({"pool_id": "_", "capacities": {"unit": 2}})} if rng.random() < 0.3 else None
        return [nid, {"Class": "ConnectionPoint", "Name": nid, "StitchNode": rng.choice(["true", "false"])}, _norm(ld, True), _norm(cd, False)]
    if r < 0.35:
        own = [x for x in ids if x not in others]
        return ("delnode", rng.choice(own) if own and rng.random() < 0.7 else rng.choice(ids))
    if r < 0.5:
        return ("addnode", new_node() + [rng.choice(ids) if rng.random() < 0.8 else None])
    if r < 0.6:
        return ("prop", [rng.choice(ids), rng.choice(["Name", "Model", "StitchNode"]), rng.choice(["true", "v%d" % n])])
    if r < 0.85:
        # reloaded under the same id with a different element set: some elements retired, some new, the rest as they were
        keep = [x for x in cur["nodes"] if rng.random() < 0.6]
        kid = {x[0] for x in keep}
        nodes = [list(x) for x in keep]
        edges = [list(e) for e in cur["edges"] if e[0] in kid and e[1] in kid]
        for _ in range(rng.randrange(0, 3)):
            nn = new_node()
            if nn[0] in kid:
                continue
            if nodes and rng.random() < 0.8:
                edges.append([rng.choice(nodes)[0], nn[0], {"Class": "connects"}])
            nodes.append(nn)
            kid.add(nn[0])
        if not nodes:
            nodes = [new_node()]
        if rng.random() < 0.5:
            rng.shuffle(nodes)
        return ("replace", {"id": cur["id"], "nodes": nodes, "edges": edges})
    if r < 0.92:
        return ("reload", None)
    return ("gone", None)


# --------------------------------------------------------------------------
# the repo's advertisement files


def safe_generate_adms(arm, hist=None):
    """generate_adms, with a harness-side guard for the C13 defect (unset of an absent delegation property)
    that is only used while the unchanged call raises."""
    from fim.graph.abc_property_graph import PropertyGraphQueryException
    from fim.graph.resources.abc_arm import ABCARMPropertyGraph
    try:
        r = arm.generate_adms()
        if hist is not None:
            hist("generate_adms:real")
        return r
    except PropertyGraphQueryException as e:
        if "Unable to unset property" not in str(e):
            raise
    orig = ABCARMPropertyGraph.__dict__["_update_delegations_on_node"]

    def guarded(*, graph, node_id, prop_name, prop_val):
        if prop_val is None:
            _, p = graph.get_node_properties(node_id=node_id)
            if prop_name not in p:
                return
        return orig.__func__(graph=graph, node_id=node_id, prop_name=prop_name, prop_val=prop_val)
    ABCARMPropertyGraph._update_delegations_on_node = staticmethod(guarded)
    try:
        r = arm.generate_adms()
    finally:
        ABCARMPropertyGraph._update_delegations_on_node = orig
    if hist is not None:
        hist("generate_adms:harness-guard")
    return r


_ad_cache = {}
_ad_mode = []


def repo_ad_specs(repo="/repo", hist=None):
    """Specs of the 'primary' ADMs of the four advertisement files, ids renamed to stable names."""
    if _ad_cache:
        if hist is not None:
            for m in _ad_mode:
                hist(m)
        return _ad_cache
    c = classes()
    for name in ADS:
        imp = fresh_store()
        g = imp.import_graph_from_file_direct(graph_file="%s/%s-ad.graphml" % (repo, name))
        arm = c["ARM"](graph=g)
        adms = safe_generate_adms(arm, _ad_mode.append)
        key = "primary" if "primary" in adms else sorted(adms)[0]
        spec = spec_of_graph(imp, adms[key].graph_id)
        spec["id"] = "adm-" + name
        _ad_cache[name] = normalise_spec(spec)
    fresh_store()
    if hist is not None:
        for m in _ad_mode:
            hist(m)
    return _ad_cache


def normalise_spec(spec):
    """Delegation details exactly as the code's from_json/to_json round trip leaves them (so that the model can
    treat them as opaque tokens)."""
    out = {"id": spec["id"], "nodes": [], "edges": spec["edges"]}
    for nid, props, ld, cd in spec["nodes"]:
        out["nodes"].append([nid, props, _norm(ld, True), _norm(cd, False)])
    return out


def _norm(v, label):
    if v is None or v == "" or "?raw" in v:
        return v
    try:
        t = norm_deleg_text(_deleg_text(v), label)
        return canon_deleg(t) if t is not None else v
    except Exception:
        return v


# --------------------------------------------------------------------------
# generated families


CAPS = [{"core": 4, "ram": 16}, {"unit": 1}, {"disk": 100, "unit": 2}, {"bw": 25}]
LABS = [{"vlan_range": "100-200"}, {"ipv4_range": "10.0.0.1-10.0.0.9"}, {"bdf": "0000:41:00.0"}, {"mac": "aa:bb:cc:dd:ee:01"}]


def gen_site(rng, name, stitch_ids, del_id="primary", shared_edge=None):
    """A small site or network delegation model: workers with components, a switch with a service and connection
    points; the connection points listed in `stitch_ids` are stitch nodes shared with other models."""
    nodes, edges = [], []

    def nd(nid, cls, typ, nm, ld=None, cd=None, **extra):
        p = {"Class": cls, "Type": typ, "Name": nm, "StitchNode": "false"}
        p.update(extra)
        nodes.append([nid, p, ld, cd])
        return nid

    def ed(a, b, rel):
        edges.append([a, b, {"Class": rel}])

    def cap():
        # single-resource delegation, pool definition, pool reference (C12's three formats)
        r = rng.random()
        if r < 0.7:
            return {del_id: canon_details({"pool_id": "_", "capacities": rng.choice(CAPS)})}
        if r < 0.85:
            return {del_id: canon_details({"pool_id": name + "-cpool", "capacities": rng.choice(CAPS)})}
        return {del_id: canon_details({"pool": name + "-cpool"})}

    def lab():
        r = rng.random()
        if r < 0.7:
            return {del_id: canon_details({"pool_id": "_", "labels": rng.choice(LABS)})}
        if r < 0.85:
            return {del_id: canon_details({"pool_id": name + "-lpool", "labels": rng.choice(LABS)})}
        return {del_id: canon_details({"pool": name + "-lpool"})}
    sw = nd(name + "-sw", "NetworkNode", "Switch", name + "-data-sw", Site=name,
            cd=cap() if rng.random() < 0.5 else None)
    ns = nd(name + "-sw-ns", "NetworkService", "MPLS", name + "-ns", Layer="L2")
    ed(sw, ns, "has")
    for w in range(rng.randrange(0, 3)):
        wn = nd("%s-w%d" % (name, w), "NetworkNode", "Server", "%s-w%d" % (name, w), Site=name, cd=cap(),
                Capacities=json.dumps(rng.choice(CAPS)))
        for k in range(rng.randrange(0, 3)):
            co = nd("%s-w%d-c%d" % (name, w, k), "Component", rng.choice(["GPU", "SmartNIC", "NVME"]), "c%d" % k,
                    ld=lab() if rng.random() < 0.6 else None, cd=cap() if rng.random() < 0.7 else None,
                    Model=rng.choice(["RTX6000", "ConnectX-6", "P4510"]))
            ed(wn, co, "has")
            if rng.random() < 0.4:
                cp = nd("%s-w%d-c%d-p" % (name, w, k), "ConnectionPoint", "DedicatedPort", "p1", ld=lab())
                ed(co, cp, "connects")
                lk = nd("%s-w%d-c%d-l" % (name, w, k), "Link", "Patch", "l")
                ed(cp, lk, "connects")
                sp = nd("%s-w%d-c%d-sp" % (name, w, k), "ConnectionPoint", "TrunkPort", "sp%d%d" % (w, k))
                ed(lk, sp, "connects")
                ed(ns, sp, "connects")
    for s in stitch_ids:
        # the same NodeID in several models; properties other than the id may differ per model
        own = rng.random() < 0.5
        nd(s, "ConnectionPoint", "TrunkPort", s, StitchNode="true" if rng.random() < 0.7 else "false",
           ld=lab() if own and rng.random() < 0.3 else None, Model=name if rng.random() < 0.5 else "shared")
        ed(ns, s, "connects")
    if shared_edge:
        a, b, data = shared_edge
        ids = {n[0] for n in nodes}
        if a in ids and b in ids:
            edges.append([a, b, dict(data)])
    return {"id": "adm-" + name, "nodes": nodes, "edges": edges}


# Graph ids / node ids / delegation ids that are prefixes and substrings of each other, or contain JSON
# metacharacters: the model compares ids by equality, so any text-level test in the code shows up.
ID_SCHEMES = [
    ["site-1", "site-10", "site-100", "site-1001"],
    ["a", "ab", "abc", "b"],
    ["adm-s0", "adm-s1", "adm-s2", "adm-s3"],
    ["graph", "adm_graph_ids", "ids", "adm"],
    ['q"1', 'q"1"2', "[x]", '{"y": [x]}'],
    ["back\\slash", "back", "sl,ash", "é-1"],
]
NODE_POOLS = [["st0", "st1", "st2"], ["st1", "st10", "st100"], ["p", "p\"q", "p,q"], ["n", "n1", "n12"]]
DEL_IDS = ["primary", "prim", "primary-2", 'd"x', "d"]
CBM_ID = "CBM"          # the id props/c14.py gives the combined model


def gen_family(rng, k):
    """k models sharing stitch nodes pairwise (a chain site - network - site ... or a star around one network model);
    sometimes an edge between two shared nodes is present in several models (with differing data)."""
    names = ["s%d" % i for i in range(k)]
    gids = list(rng.choice(ID_SCHEMES))
    rng.shuffle(gids)
    pool = rng.choice(NODE_POOLS)[:rng.randrange(1, 4)]
    fam = []
    for i, nm in enumerate(names):
        st = [s for s in pool if rng.random() < 0.75] or [pool[0]]
        se = None
        if len(st) >= 2 and rng.random() < 0.5:
            se = (st[0], st[1], {"Class": "connects", "Name": "x-" + nm if rng.random() < 0.5 else "x"})
        # the delegation id is an opaque string ("can be graph id or a unique string"): besides names that differ from every
        # graph id, ids that COINCIDE - the model's own graph id (what rewrite_delegations() leaves: a model that was re-keyed
        # before), another model's graph id, the combined model's id
        r = rng.random()
        did = (gids[i] if r < 0.2 else gids[(i + 1 + rng.randrange(len(gids) - 1)) % len(gids)] if r < 0.3 else CBM_ID if r < 0.35
               else rng.choice(DEL_IDS + ["d" + nm]))
        spec = gen_site(rng, nm, st, del_id=did, shared_edge=se)
        spec["id"] = gids[i]
        if rng.random() < 0.15:
            # a shared *non-stitch* element with delegations on both sides (conflict) or on neither
            spec["nodes"].append(["common-x", {"Class": "NetworkNode", "Type": "Server", "Name": "x", "StitchNode": "false"},
                                  None, {"primary": canon_details({"pool_id": "_", "capacities": {"unit": 1}})} if rng.random() < 0.6 else None])
        fam.append(normalise_spec(spec))
    return fam


RAW_NODE_IDS = [["n1", "n2", "n3", "n4", "n5"], ["n", "n1", "n10", "n100", "1"], ["x", 'x"', "x,y", "[x", "x]"]]


def gen_raw_family(rng, k):
    gids = list(rng.choice(ID_SCHEMES))
    rng.shuffle(gids)
    ids = rng.choice(RAW_NODE_IDS)
    fam = []
    for j in range(k):
        spec = gen_raw(rng, "r%d" % j, ids, dids=[gids[j], gids[(j + 1) % len(gids)], CBM_ID])
        spec["id"] = gids[j]
        fam.append(spec)
    return fam


def gen_raw(rng, name, ids, nmax=5, dids=()):
    """Small arbitrary models over a tiny id pool (maximises sharing, shared edges, subset/equal models).
    `dids`: graph ids (own, a sibling's, the combined model's) that are also used as delegation ids."""
    k = rng.randrange(1, nmax + 1)
    chosen = rng.sample(ids, min(k, len(ids)))
    nodes = []
    for nid in chosen:
        r = rng.random()
        cd = {rng.choice(["p", "q", "pq"] + list(dids)): canon_details({"pool_id": "_", "capacities": {"unit": rng.randrange(1, 3)}})} if r < 0.35 else None
        ld = {rng.choice(["p", "q"] + list(dids)): canon_details({"pool_id": "_", "labels": {"vlan_range": "1-%d" % rng.randrange(2, 4)}})} if rng.random() < 0.2 else None
        nodes.append([nid, {"Class": rng.choice(["NetworkNode", "ConnectionPoint"]), "Name": rng.choice([nid, name]),
                            "StitchNode": rng.choice(["true", "false"])}, ld, cd])
    edges, seen = [], set()
    for _ in range(rng.randrange(0, 2 * len(chosen))):
        a, b = rng.choice(chosen), rng.choice(chosen)
        if a == b or frozenset((a, b)) in seen:
            continue
        seen.add(frozenset((a, b)))
        edges.append([a, b, {"Class": rng.choice(["connects", "has"]), "Name": rng.choice(["e", name])}])
    return normalise_spec({"id": "adm-" + name, "nodes": nodes, "edges": edges})


MALFORMED = [
    # (description, ldel, cdel) put on one node of an otherwise fine model
    ("two-entries", None, {"a": canon_details({"pool_id": "_", "capacities": {"unit": 1}}),
                           "b": canon_details({"pool_id": "_", "capacities": {"unit": 2}})}),
    ("emptied-in-adm", "", None),
    ("empty-dict", None, {}),
]


# --------------------------------------------------------------------------
# deterministic corner cases (run first in both tiers) and the description of a case for the evidence histogram


def _n(nid, ld=None, cd=None, **props):
    p = {"Class": "ConnectionPoint", "Name": nid, "StitchNode": "true"}
    p.update(props)
    return [nid, p, ld, cd]


def _cap(did, pool=None, ref=False):
    if ref:
        return {did: canon_details({"pool": pool})}
    return {did: canon_details({"pool_id": pool or "_", "capacities": {"unit": 1}})}


def _lab(did, pool=None, ref=False):
    if ref:
        return {did: canon_details({"pool": pool})}
    return {did: canon_details({"pool_id": pool or "_", "labels": {"vlan_range": "10-20"}})}


def coinciding_family():
    """Delegation ids that COINCIDE with graph ids: k1 names its delegations after itself (on a private and on a shared element; what
    rewrite_delegations() without argument leaves behind), k2 after the OTHER model k1, k3 after the combined model, k4 uses the
    same delegation id as k2 and is a model re-keyed to its own id whose id is a prefix of k1's."""
    E = {"Class": "connects"}
    k1 = {"id": "adm-k1", "nodes": [_n("hub", ld=_lab("adm-k1")), _n("k1", ld=_lab("adm-k1", pool="lp"), cd=_cap("adm-k1"))],
          "edges": [["hub", "k1", dict(E)]]}
    k2 = {"id": "adm-k2", "nodes": [_n("hub", cd=_cap("adm-k1")), _n("k2", cd=_cap("adm-k1", pool="cp", ref=True))],
          "edges": [["hub", "k2", dict(E)]]}
    k3 = {"id": "adm-k3", "nodes": [_n("k3", ld=_lab(CBM_ID), cd=_cap(CBM_ID)), _n("hub")], "edges": [["k3", "hub", dict(E)]]}
    k4 = {"id": "adm-k", "nodes": [_n("k4", ld=_lab("adm-k"), cd=_cap("adm-k")), _n("k2", ld=_lab("adm-k"))], "edges": [["k4", "k2", dict(E)]]}
    return [normalise_spec(x) for x in (k1, k2, k3, k4)]


def corner_cases():
    """[(name, family, ops)] - the situations an adversarial reviewer would try first."""
    E = {"Class": "connects"}
    out = []
    # ids that coincide: the delegations of a model are keyed by ITS id in the combined model whatever they were called inside
    fam = coinciding_family()
    for perm in ((0, 1, 2, 3), (3, 2, 1, 0), (1, 0, 3, 2)):
        out.append(("coinciding-ids:%s" % "".join(map(str, perm)), fam,
                    [("merge", j) for j in perm] + [("snapshot",), ("unmerge", perm[1]), ("unmerge", perm[0]), ("rollback", 0), ("unmerge", perm[3])]))
    out.append(("coinciding-ids:alone", fam, [("merge", 0), ("unmerge", 0), ("merge", 3), ("merge", 0), ("unmerge", 3), ("unmerge", 0)]))
    # three models sharing one element; unmerge of the middle one, of the first one, then the rest
    a = {"id": "adm-1", "nodes": [_n("hub", Model="one"), _n("a1", cd=_cap("primary"))], "edges": [["hub", "a1", dict(E)]]}
    b = {"id": "adm-2", "nodes": [_n("hub", ld=_lab("d2"), Model="two"), _n("b1")], "edges": [["hub", "b1", dict(E)]]}
    c = {"id": "adm-3", "nodes": [_n("c1"), _n("hub", Model="three")], "edges": [["c1", "hub", dict(E, Name="c")]]}
    fam = [normalise_spec(x) for x in (a, b, c)]
    out.append(("three-share-one:unmerge-middle", fam, [("merge", 0), ("merge", 1), ("merge", 2), ("unmerge", 1), ("snapshot",),
                                                         ("unmerge", 0), ("unmerge", 2)]))
    out.append(("three-share-one:unmerge-first-then-remerge", fam, [("merge", 0), ("merge", 1), ("merge", 2), ("unmerge", 0), ("merge", 0),
                                                                     ("unmerge", 1), ("unmerge", 2), ("unmerge", 0)]))
    # the source model moves on between its merge and its unmerge (unmerge_adm takes an id): an element retired in place, the
    # model reloaded under its id with a different element set, the model deleted from the store, an element added, reloaded as it is
    a2 = {"id": "adm-1", "nodes": [_n("a2", cd=_cap("primary")), _n("hub", Model="one-v2"), _n("b1")], "edges": [["hub", "a2", dict(E)], ["a2", "b1", dict(E)]]}
    for nm, ed in (("retire-element", ("delnode", "a1")), ("reloaded-with-other-elements", ("replace", normalise_spec(a2))), ("deleted", ("gone", None)),
                   ("element-added", ("addnode", ["b1", {"Class": "ConnectionPoint", "Name": "b1", "StitchNode": "true"}, None, None, "a1"])),
                   ("reloaded-unchanged", ("reload", None)), ("retire-shared-element", ("delnode", "hub"))):
        out.append(("source-moves-on:" + nm, fam, [("merge", 0), ("merge", 1), ("snapshot",), ("merge", 2), ("edit", 0) + ed, ("unmerge", 0),
                                                   ("merge", 0), ("unmerge", 1), ("rollback", 0), ("unmerge", 0)]))
        out.append(("source-moves-on-alone:" + nm, fam, [("merge", 0), ("edit", 0) + ed, ("unmerge", 0), ("merge", 0), ("merge", 2)]))
    # models sharing NO element
    d1 = {"id": "adm-d1", "nodes": [_n("p1", cd=_cap("primary")), _n("p2")], "edges": [["p1", "p2", dict(E)]]}
    d2 = {"id": "adm-d2", "nodes": [_n("q1", ld=_lab("primary"))], "edges": []}
    fam = [normalise_spec(x) for x in (d1, d2)]
    out.append(("disjoint", fam, [("merge", 0), ("merge", 1), ("unmerge", 0), ("merge", 0), ("unmerge", 1), ("unmerge", 0)]))
    # the same model merged twice (no delegations: the second merge does not raise half-way), one unmerge, a second one
    r = {"id": "adm-r", "nodes": [_n("x"), _n("y")], "edges": [["x", "y", dict(E)]]}
    o = {"id": "adm-o", "nodes": [_n("y"), _n("z")], "edges": [["y", "z", dict(E)]]}
    fam = [normalise_spec(x) for x in (r, o)]
    out.append(("same-model-twice", fam, [("merge", 0), ("merge", 1), ("merge", 0), ("unmerge", 0), ("unmerge", 0), ("unmerge", 1)]))
    # unmerge of a model never merged: on the empty combined model, on a non-empty one (index and foreign id)
    out.append(("unmerge-never-merged", fam, [("unmerge", 1), ("merge", 0), ("unmerge", 1), ("unmerge", "primary"), ("unmerge", "adm"),
                                              ("unmerge", 0)]))
    # one kind of delegation only / pools; the speaker of a shared element changes over time
    l1 = {"id": "adm-l", "nodes": [_n("s", ld=_lab("primary")), _n("l1", ld=_lab("primary", pool="lp"))], "edges": [["s", "l1", dict(E)]]}
    c1 = {"id": "adm-c", "nodes": [_n("s", cd=_cap("d")), _n("c1", cd=_cap("d", pool="cp", ref=True))], "edges": [["s", "c1", dict(E)]]}
    l2 = {"id": "adm-l2", "nodes": [_n("s", ld=_lab("other", pool="lp", ref=True)), _n("m")], "edges": [["s", "m", dict(E)]]}
    fam = [normalise_spec(x) for x in (l1, c1, l2)]
    out.append(("label-only/capacity-only/pools", fam, [("merge", 0), ("merge", 1), ("merge", 2), ("unmerge", 0), ("merge", 2), ("unmerge", 1),
                                                         ("merge", 0), ("unmerge", 2), ("merge", 0), ("unmerge", 0)]))
    # snapshots and rollbacks after several merges; a consumed snapshot; a snapshot that never existed
    fam = [normalise_spec(x) for x in (a, b, c)]
    out.append(("snapshots", fam, [("merge", 0), ("snapshot",), ("merge", 1), ("merge", 2), ("snapshot",), ("unmerge", 1), ("rollback", 1),
                                   ("unmerge", 2), ("rollback", 0), ("rollback", 0), ("merge", 2), ("rollback", 7)]))
    # a delegation model without elements (merge_adm asserts adm.graph_exists())
    e0 = {"id": "adm-empty", "nodes": [], "edges": []}
    fam = [normalise_spec(x) for x in (a, e0)]
    out.append(("empty-model", fam, [("merge", 1), ("merge", 0), ("merge", 1), ("unmerge", 1), ("unmerge", 0)]))
    # many common elements: the iteration order of the set of common ids is not the store order
    ids = ["st%d" % i for i in range(7)] + ["k", "kk", "kkk"]
    m1 = {"id": "adm-m1", "nodes": [_n(i) for i in ids], "edges": [[ids[i], ids[i + 1], dict(E)] for i in range(len(ids) - 1)]}
    m2 = {"id": "adm-m2", "nodes": [_n(i, Model="m2") for i in reversed(ids)] + [_n("own", cd=_cap("primary"))],
          "edges": [[ids[i], ids[i + 2], dict(E, Name="m2")] for i in range(len(ids) - 2)] + [[ids[0], ids[1], dict(E, Name="m2")], ["own", ids[3], dict(E)]]}
    m3 = {"id": "adm-m3", "nodes": [_n(ids[4], cd=_cap("primary")), _n(ids[2]), _n(ids[8], cd=_cap("primary"))], "edges": []}
    fam = [normalise_spec(x) for x in (m1, m2, m3)]
    for perm in ((0, 1, 2), (2, 1, 0), (1, 2, 0)):
        out.append(("many-common:%s" % "".join(map(str, perm)), fam, [("merge", j) for j in perm] + [("unmerge", perm[1]), ("unmerge", perm[0])]))
    # conflict in the middle of the loop: the state left behind depends on the set order
    x1 = {"id": "adm-x1", "nodes": [_n(i, cd=_cap("primary")) if i == "st3" else _n(i) for i in ids], "edges": []}
    x2 = {"id": "adm-x2", "nodes": [_n(i, cd=_cap("primary")) if i == "st3" else _n(i) for i in ids[2:6]] + [_n("fresh")], "edges": [["fresh", "st4", dict(E)]]}
    fam = [normalise_spec(x) for x in (x1, x2)]
    out.append(("conflict-mid-loop", fam, [("merge", 0), ("merge", 1), ("unmerge", 1), ("unmerge", 0)]))
    return out


def describe(count, family, ops, cbm_sizes=None):
    """Feature histogram of one case (what the generators cover goes into the evidence)."""
    live, merges_since_start, nsnap = [], 0, 0
    ids = [{n[0] for n in s["nodes"]} for s in family]
    for op in ops:
        if op[0] == "merge":
            i = op[1]
            mine = ids[i]
            if i in live:
                count("case:merge:model-already-merged")
            else:
                others = set()
                for j in live:
                    others |= ids[j]
                if not live:
                    count("case:merge:into-empty")
                elif not (mine & others):
                    count("case:merge:shares-no-element")
                elif mine <= others:
                    count("case:merge:all-elements-shared")
                else:
                    count("case:merge:shares-some")
                k = sum(1 for j in live if ids[j] & mine)
                if k >= 2 and any(len([j for j in live if n in ids[j]]) >= 2 for n in mine):
                    count("case:merge:element-shared-by-3+")
                live.append(i)
            merges_since_start += 1
        elif op[0] == "unmerge":
            x = op[1]
            if isinstance(x, str):
                count("case:unmerge:foreign-id")
            elif x not in live:
                count("case:unmerge:model-not-merged")
            else:
                pos = live.index(x)
                shares = any(ids[x] & ids[j] for j in live if j != x)
                count("case:unmerge:%s%s" % ("last" if pos == len(live) - 1 else "first" if pos == 0 else "middle",
                                             ":shares" if shares else ":shares-nothing"))
                live.remove(x)
        elif op[0] == "snapshot":
            count("case:snapshot:after-%s-merges" % ("0" if merges_since_start == 0 else "1" if merges_since_start == 1 else "2+"))
            nsnap += 1
        elif op[0] == "rollback":
            count("case:rollback:%s" % ("existing-index" if op[1] < nsnap else "no-such-snapshot"))
        elif op[0] == "edit":
            count("case:edit:%s:%s" % (op[2], "while-merged" if op[1] in live else "while-not-merged"))
    gids = {s["id"] for s in family}
    for s in family:
        for n in s["nodes"]:
            ld, cd = n[2], n[3]
            for d in (ld, cd):
                if isinstance(d, dict):
                    for did in d:
                        count("delegation-id:" + ("own-graph-id" if did == s["id"] else "other-model's-graph-id" if did in gids
                                                  else "combined-model's-id" if did == CBM_ID else "differs-from-graph-ids"))
            kind = ("both" if ld and cd else "label-only" if ld else "capacity-only" if cd else None)
            if kind:
                count("node:delegation:" + kind)
            for d in (ld, cd):
                if isinstance(d, dict):
                    for v in d.values():
                        count("delegation-format:" + ("pool-reference" if '"pool":' in v else "single" if '"pool_id": "_"' in v else "pool-definition"))
