#!/bin/bash
# runall.sh [tier] [seed]  — run every claimed check (from MANIFEST.json) sequentially, print a summary table.
cd "$(dirname "$0")/.."
TIER="${1:-quick}"; export VERIF_SEED="${2:-0}"
for id in $(python3 -c "import json;print(' '.join(c['property_id'] for c in json.load(open('MANIFEST.json'))['checks']))"); do
  s=$(date +%s); out=$(./check "$id" --tier "$TIER" 2>&1); rc=$?; e=$(date +%s)
  echo "$id rc=$rc $((e-s))s $(echo "$out" | grep -c '^VIOLATION') violations, $(echo "$out" | grep -c '^KNOWN-FINDING') known | $(echo "$out" | tail -1 | cut -c1-160)"
done
