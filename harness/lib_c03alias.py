"""C03 - aliasing / mutation oracle family (mixed into props/c03.Oracle).

The property says the codecs "never mutate their input", that a decoded value depends on the stored text only,
that "the copy-with-changes operation returns a new value and leaves the original untouched" and that "a finalized
maintenance record cannot be altered".  For EVERY codec class this family runs the same five oracles:

 (a) input-unchanged   every argument is deep-copied before the call and compared afterwards (constructor, setters,
                       encoders, decoders, getters, update/copy);
 (b) mutate-arg        the caller changes, in place, the object it passed in AFTER the call;
 (c) mutate-result     the caller changes, in place, whatever a getter / decoder / copy handed out (lists, dicts,
                       nested lists, entry objects); a second read must show the original content;
 (d) normalising round trip  value == decode(encode(value)) for argument forms the class accepts and JSON normalises
                       (tuples, non-string keys, nested containers);
 (e) list vs tuple / scalar vs one-element list forms of the same content.

After every caller-side change the value object is observed again (encoding, content, str, ==/hash against a twin
built from the first encoding).  A *strict* channel must show no change at all.  Channels that are strict:
  - everything on the text-holding classes (JSONData family: the value is `json.loads(text)`), Tags (the constructor
    copies), TypedTuple (scalars), a *finalized* MaintenanceInfo (all of add-argument / get / list_* / iter / copy),
  - every *derived* instance of every class: update(x) and copy() results, from_json(to_json(x)) twins - changing them in
    place (including their list fields / entries) must not reach x, and vice versa,
  - the top level of every container a getter builds (to_dict(), list_fields(), Path.to_dict(), list_names(), ...).
The remaining channels are BY-REFERENCE: a mutable value object whose list-valued public attribute *is* the list the
caller assigned (JSONField list fields, Path.a2z/z2a, PathInfo.payload, Gateway's list-valued labels, an unfinalized
MaintenanceInfo's entries).  The property does not ask for a private copy there (nothing is mutated by the library and
there is no stored text to diverge from); they are counted (`oracle:alias:by-reference:*`) and the object must stay
self-consistent (value == decode(encode(value)), re-encode identical) after the change.
Signatures: C03:<Class>:alias:<channel>:<why>.
"""
import copy
import json
from datetime import datetime


def _P():
    from props import c03
    return c03


class Probe:
    def __init__(self, oracle, cname, case):
        self.o, self.cname, self.case = oracle, cname, case

    def bad(self, channel, why, what, **kw):
        self.o.bad("%s:alias:%s:%s" % (self.cname, channel, why), what, self.case, **kw)

    def unchanged(self, channel, name, obj, snap, after):
        """(a): `obj` (an argument or an earlier result, deep-copied into `snap` before) after the call(s) `after`"""
        if not _same(obj, snap):
            self.bad(channel, "input-changed", "%s was changed by %s" % (name, after), expected=_P().srepr(snap), observed=_P().srepr(obj))
            return False
        return True

    def after(self, channel, observe, before, strict, what):
        """the caller has just changed an object it owns: observe the value object again"""
        now = observe()
        if now != before:
            if strict:
                self.bad(channel, "value-changed", what, expected=_P().srepr(before), observed=_P().srepr(now))
            else:
                self.o.res.count("oracle:alias:by-reference:%s:%s" % (self.cname, channel))
        else:
            self.o.res.count("oracle:alias:independent:%s:%s" % (self.cname, channel))
        return now

    def reread(self, channel, got, expected):
        if not _same(got, expected):
            self.bad(channel, "second-read-differs", "a second read does not return the original content",
                     expected=_P().srepr(expected), observed=_P().srepr(got))


def _same(a, b):
    """deep equality that also distinguishes list from tuple, bool from int and int from float at every level"""
    if type(a) is not type(b):
        return False
    if isinstance(a, (list, tuple)):
        return len(a) == len(b) and all(_same(x, y) for x, y in zip(a, b))
    if isinstance(a, dict):
        return list(a.keys()) == list(b.keys()) and all(type(k1) is type(k2) for k1, k2 in zip(a, b)) and all(_same(a[k], b[k]) for k in a)
    if hasattr(a, "__dict__") and not isinstance(a, type):
        return _same(vars(a), vars(b))
    return a == b


def deep_edit(o, depth=0):
    """the canonical in-place change of a container the caller owns (Lean: Hist.deepEdit 3): a list gets "__m__"
    appended, a dict gets d["__m__"] = 1, and down to three levels below the top the first nested container is
    edited the same way.  False for anything that cannot be changed in place (scalars, str, tuples)."""
    if isinstance(o, dict):
        inner = [k for k, v in o.items() if k != "__m__" and isinstance(v, (list, dict))]
        if inner and depth < 3:
            deep_edit(o[inner[0]], depth + 1)
        o["__m__"] = 1
        return True
    if isinstance(o, list):
        inner = [v for v in o if isinstance(v, (list, dict))]
        if inner and depth < 3:
            deep_edit(inner[0], depth + 1)
        o.append("__m__")
        return True
    return False


def grow(lst, item):
    """in-place change of a list the caller owns that stays inside the field's domain"""
    lst.append(item)
    if len(lst) > 2:
        lst.reverse()
    return True


class AliasOracle:
    """mixin for props.c03.Oracle: self.M (modules), self.res, self.bad(sig, what, case, **kw)"""

    # ---------------------------------------------------------------- JSONField family
    def alias_jf(self, cname, kw):
        P = _P()
        cl = self.M[0]
        C = getattr(cl, cname)
        case = {"kind": "alias_jf", "class": cname, "kw": P.to_wire(kw)}
        A = Probe(self, cname, case)

        def item(f):
            pool = P.label_values(cl, f) if cname == "Labels" else P.STRS
            return (pool or ["x"])[0]

        def obs(o):
            return [o.to_json(), P.to_wire(dict(o.__dict__)), P.to_wire(o.to_dict()), str(o), o.list_fields()]

        def consistent(o, step):
            t = o.to_json()
            y = C.from_json(t)
            if (y is None and not _same(o.__dict__, C().__dict__)) or (y is not None and (y.__dict__ != o.__dict__ or y.to_json() != t)):
                A.bad(step, "roundtrip", "after the change decode(encode(value)) differs from the value", observed=t)
        try:
            src = copy.deepcopy(kw)
            snap = copy.deepcopy(kw)
            x = C(**src)
            A.unchanged("ctor", "the constructor's keyword arguments", src, snap, "the constructor")
            o0 = obs(x)
            xsnap = copy.deepcopy(x.__dict__)
            t0 = x.to_json()
            # (a) every reader / decoder / copier leaves the instance, the arguments and the text alone
            d = x.to_dict()
            lf = x.list_fields()
            y = C.update(x)
            z = C.from_json(t0)
            repr(x), str(x), C.from_json(t0), C.update(x, **copy.deepcopy(kw))
            A.unchanged("readers", "the value", x.__dict__, xsnap, "to_dict/list_fields/update/from_json/str")
            A.unchanged("readers", "the constructor's keyword arguments", src, snap, "to_dict/list_fields/update/from_json/str")
            # (d) the value survives its own encoding, list-valued fields included, and ==/hash agree where defined
            consistent(x, "constructed")
            if z is not None and type(x).__eq__ is not object.__eq__:
                try:
                    if not (x == z) or not (z == x):
                        A.bad("eq", "decoded-not-equal", "value != decode(encode(value)) under the class's own __eq__")
                except Exception as e:
                    A.bad("eq", "raises:" + P.kind(e), "__eq__ against the decoded twin raises")
            # (c) containers the getters built
            if d is not None:
                dsnap = copy.deepcopy(d)
                d["__added__"] = 1
                d.pop(next(iter(d)))
                o0 = A.after("to_dict", lambda: obs(x), o0, True, "changing the dict returned by to_dict() changed the instance")
                A.reread("to_dict", x.to_dict(), dsnap)
                d2 = x.to_dict()
                ch = [grow(v, item(f)) for f, v in d2.items() if isinstance(v, list)]
                if ch:
                    o0 = A.after("to_dict-list", lambda: obs(x), o0, False, "")
                    consistent(x, "to_dict-list")
            lf.append("zz")
            lf[:1] = []
            o0 = A.after("list_fields", lambda: obs(x), o0, True, "changing the list returned by list_fields() changed the instance")
            A.reread("list_fields", x.list_fields(), sorted(x.__dict__))
            # (c) derived instances: update(x) ("returns a new value and leaves the original untouched"), decoded twin
            for name, w in (("update-copy", y), ("decoded-twin", z)):
                if w is None:
                    continue
                if w is x or w.__dict__ is x.__dict__:
                    A.bad(name, "same-object", "%s is the original object itself" % name)
                    continue
                ow = obs(w)
                lists = [f for f, v in w.__dict__.items() if isinstance(v, list)]
                for f in lists:
                    grow(w.__dict__[f], item(f))
                if lists:
                    o0 = A.after(name + "-list", lambda: obs(x), o0, True,
                                 "changing a list field of %s in place changed the original" % ("update(x)" if w is y else "from_json(to_json(x))"))
                    ow = obs(w)
                # and the other way round: the original's list fields changed in place must not reach the derived instance
                xl = [f for f, v in x.__dict__.items() if isinstance(v, list)]
                for f in xl:
                    grow(x.__dict__[f], item(f))
                if xl:
                    A.after(name + "-list-reverse", lambda: obs(w), ow, True,
                            "changing a list field of the original in place changed %s" % ("update(x)" if w is y else "from_json(to_json(x))"))
                    o0 = obs(x)
            # (b) update with a list-valued keyword: the original never follows it, the arguments are not touched
            fl = [f for f in x.__dict__ if P.guard_of(C) == "strlist" and (cname != "Labels" or P.label_values(cl, f))][:2]
            if fl:
                kw2 = {f: [item(f)] for f in fl}
                k2snap = copy.deepcopy(kw2)
                y2 = C.update(x, **kw2)
                A.unchanged("update", "update's keyword arguments", kw2, k2snap, "update")
                oy2 = obs(y2)
                for f in fl:
                    grow(kw2[f], item(f))
                o0 = A.after("update-kwarg-list", lambda: obs(x), o0, True, "changing a list passed to update(x, ...) changed x")
                A.after("update-kwarg-list", lambda: obs(y2), oy2, False, "")
                consistent(y2, "update-kwarg-list")
            # (b) the constructor's own list arguments: by reference
            ch = [grow(v, item(f)) for f, v in src.items() if isinstance(v, list)]
            if ch:
                o0 = A.after("ctor-arg-list", lambda: obs(x), o0, False, "")
                consistent(x, "ctor-arg-list")
        except Exception as e:
            A.bad("raises", P.kind(e), "aliasing history on a valid value raises %s" % type(e).__name__)

    def alias_jf_forms(self, cname, field, vals):
        """(e): a one-element list and the scalar are different values and both survive; a tuple is not a list"""
        P = _P()
        cl = self.M[0]
        C = getattr(cl, cname)
        case = {"kind": "alias_jf_forms", "class": cname, "field": field, "vals": vals}
        A = Probe(self, cname, case)
        try:
            for form in (vals[0], [vals[0]], list(vals), []):
                arg = copy.deepcopy(form)
                x = C(**{field: arg})
                got = x.__dict__[field]
                if not _same(got, form):
                    A.bad("forms", "constructor-changes-form", "the stored value is not the given one", expected=P.srepr(form), observed=P.srepr(got))
                y = C.from_json(x.to_json())
                back = None if y is None else y.__dict__[field]
                if not _same(back, form):
                    A.bad("forms", "list" if isinstance(form, list) else "scalar", "the %s form does not read back as given" %
                          ("list" if isinstance(form, list) else "scalar"), expected=P.srepr(form), observed=P.srepr(back))
            # a tuple is outside the documented domain (str or list): rejected cleanly, nothing half-built
            arg = tuple(vals)
            try:
                x = C(**{field: arg})
                y = C.from_json(x.to_json())
                self.res.count("oracle:forms:tuple-accepted:%s" % cname)
                if y is None or list(y.__dict__[field]) != list(arg):
                    A.bad("forms", "tuple-lost", "a tuple value is accepted but its content does not read back", observed=P.srepr(y))
            except AssertionError:
                self.res.count("oracle:forms:tuple-rejected:%s" % cname)
            if arg != tuple(vals):
                A.bad("forms", "input-changed", "a tuple argument was changed")
        except Exception as e:
            A.bad("raises", P.kind(e), "list/scalar forms of a valid value raise %s" % type(e).__name__)

    # ---------------------------------------------------------------- Tags
    def alias_tags(self, ts, form):
        P = _P()
        tg = self.M[1]
        case = {"kind": "alias_tags", "tags": ts, "form": form}
        A = Probe(self, "Tags", case)
        try:
            if form == "list":
                src = list(ts)
                args = (src,)
            elif form == "tuple":
                src = tuple(ts)
                args = (src,)
            elif form == "varargs":
                src = list(ts)
                args = tuple(src)
            else:               # mixed: first tag alone, then a tuple, then a list
                src = [ts[0], tuple(ts[1:2]), list(ts[2:])] if ts else []
                args = tuple(src)
            snap = copy.deepcopy(src)
            x = tg.Tags(*args)
            A.unchanged("ctor", "the constructor argument", src, snap, "the constructor")
            # (e) every form of the same content is the same value, held as a list of str
            if not _same(x.tags, list(ts)):
                A.bad("forms", form, "the %s form of the tags is not stored as the plain list of the tags" % form,
                      expected=P.srepr(list(ts)), observed=P.srepr(x.tags))
            t0 = x.to_json()
            if t0 != json.dumps(list(ts)):
                A.bad("forms", form + "-text", "the encoding depends on the argument form", expected=json.dumps(list(ts)), observed=t0)

            def obs():
                return [x.to_json(), copy.deepcopy(x.tags), str(x), list(iter(x))]
            o0 = obs()
            # (d)
            y = tg.Tags.from_json(t0)
            if y is None or not _same(y.tags, x.tags) or y.to_json() != t0:
                A.bad("roundtrip", form, "value != decode(encode(value))", observed=None if y is None else P.srepr(y.tags))
            it = list(iter(x))
            x.to_json(), str(x), list(iter(x)), tg.Tags.from_json(t0)
            A.unchanged("readers", "the constructor argument", src, snap, "to_json/str/iter/from_json")
            # (b)
            done = False
            for s in ([src] if form in ("list", "varargs") else [q for q in src if isinstance(q, list)]):
                s.append("added")
                s[0] = "changed"
                done = True
            if done:
                o0 = A.after("ctor-arg", obs, o0, True, "changing the list given to the constructor changed the Tags")
            # (c)
            it.append("added")
            it[:1] = []
            o0 = A.after("iter", obs, o0, True, "changing the list obtained by iterating changed the Tags")
            A.reread("iter", list(iter(x)), list(ts))
            if y is not None:
                y.tags.append("zz")
                y.tags[:1] = []
                o0 = A.after("decoded-twin", obs, o0, True, "changing a decoded twin changed the original")
        except Exception as e:
            A.bad("raises", P.kind(e), "aliasing history on valid tags raises %s" % type(e).__name__)

    # ---------------------------------------------------------------- Gateway
    def alias_gw(self, kw):
        P = _P()
        cl, gw = self.M[0], self.M[3]
        case = {"kind": "alias_gw", "kw": kw}
        A = Probe(self, "Gateway", case)
        try:
            lab = cl.Labels(**copy.deepcopy(kw))
            snap = copy.deepcopy(lab.__dict__)
            g = gw.Gateway(lab)
            A.unchanged("ctor", "the Labels given to the constructor", lab.__dict__, snap, "the constructor")

            def obs(q=None):
                q = q or g
                return [q.to_json(), P.to_wire(dict(q.lab.__dict__)), str(q), P.to_wire(q.gateway), P.to_wire(q.subnet), P.to_wire(q.mac)]
            o0 = obs()
            t0 = g.to_json()
            g2 = gw.Gateway.from_json(t0)
            g3 = gw.Gateway(g.lab)
            g.to_json(), str(g), repr(g), g.gateway, g.subnet, g.mac
            A.unchanged("readers", "the Labels given to the constructor", lab.__dict__, snap, "to_json/str/gateway/subnet/mac/from_json")
            # (d) decode(encode(g)) == g, and the constructor is idempotent on a gateway's own labels
            if g2 is None or g2.lab.__dict__ != g.lab.__dict__ or g2.to_json() != t0:
                A.bad("roundtrip", "lost", "gateway != decode(encode(gateway))")
            if g3.lab.__dict__ != g.lab.__dict__ or g3.lab is g.lab:
                A.bad("roundtrip", "ctor-not-idempotent", "Gateway(g.lab) is not an equal gateway with labels of its own")
            # (b) the caller keeps using its Labels object: assignments never reach the gateway
            lab.mac = "0a:0b:0c:0d:0e:0f"
            for f in ("ipv4", "ipv6", "ipv4_subnet", "ipv6_subnet"):
                if not isinstance(lab.__dict__[f], list):
                    setattr(lab, f, None)
            o0 = A.after("ctor-arg", obs, o0, True, "assigning fields of the Labels given to the constructor changed the Gateway")
            # list-valued labels are shared by reference
            ch = [grow(v, v[0]) for f, v in lab.__dict__.items() if isinstance(v, list) and v]
            if ch:
                o0 = A.after("ctor-arg-list", obs, o0, False, "")
                gx = gw.Gateway.from_json(g.to_json())
                if gx.lab.__dict__ != g.lab.__dict__:
                    A.bad("ctor-arg-list", "roundtrip", "after the change decode(encode(gateway)) differs from the gateway")
            # (c) derived instances
            for name, w in (("decoded-twin", g2), ("ctor-copy", g3)):
                if w is None:
                    continue
                w.lab.mac = "0a:0b:0c:0d:0e:0f"
                w.lab.ipv4_subnet = None
                o0 = A.after(name, obs, o0, True, "changing %s changed the original" % name)
        except Exception as e:
            A.bad("raises", P.kind(e), "aliasing history on a valid gateway raises %s" % type(e).__name__)

    # ---------------------------------------------------------------- Path / PathInfo / ERO
    def alias_pi(self, ero, a2z, z2a, symmetric=False):
        P = _P()
        pi = self.M[4]
        cname = "ERO" if ero else "PathInfo"
        tuples = isinstance(a2z, tuple) or isinstance(z2a, tuple)
        case = {"kind": "alias_pi", "ero": ero, "a2z": P.to_wire(a2z), "z2a": P.to_wire(z2a), "symmetric": symmetric, "tuples": tuples}
        A = Probe(self, cname, case)
        K = pi.ERO if ero else pi.PathInfo

        def pobs(p):
            return [P.to_wire(p.a2z), P.to_wire(p.z2a), str(p), P.to_wire(p.to_dict())]

        def norm(d):
            # Path.set documents lists; a tuple is accepted silently and reads back as the list of the same hops
            return {k: list(v) if isinstance(v, tuple) else v for k, v in d.items()} if tuples else d

        def same(p, q):
            return q is not None and p.type == q.type and type(p.payload) is type(q.payload) and \
                (norm(p.payload.__dict__) == q.payload.__dict__ if isinstance(p.payload, pi.Path) else p.payload == q.payload) and \
                (not ero or p.strict == q.strict)
        try:
            a, z = copy.deepcopy(a2z), copy.deepcopy(z2a)
            asnap, zsnap = copy.deepcopy(a), copy.deepcopy(z)
            q = pi.Path()
            if symmetric:
                q.set_symmetric(a)
                A.unchanged("set_symmetric", "the list given to set_symmetric", a, asnap, "set_symmetric")
                if q.z2a != list(reversed(asnap)) or q.z2a is a:
                    A.bad("set_symmetric", "not-reversed-copy", "z2a is not a reversed copy of a2z")
            else:
                q.set(a2z=a, z2a=z)
                A.unchanged("Path.set", "the lists given to Path.set", [a, z], [asnap, zsnap], "Path.set")
            x = K(pi.PathRepresentationType.Path, True) if ero else K(pi.PathRepresentationType.Path)
            qsnap = copy.deepcopy(q.__dict__)
            x.set(q)
            t0 = x.to_json()

            def obs(w=None):
                w = w or x
                return [w.to_json(), str(w.type), pobs(w.payload) if isinstance(w.payload, pi.Path) else P.to_wire(w.payload), str(w),
                        getattr(w, "strict", None)]
            o0 = obs()
            y = K.from_json(t0)
            got = x.get()
            lists = q.get()
            d = q.to_dict()
            x.to_json(), str(x), repr(q), K.from_json(t0)
            A.unchanged("readers", "the Path given to set()", q.__dict__, qsnap, "set/to_json/get/to_dict/from_json/str")
            A.unchanged("readers", "the lists given to Path.set", a, asnap, "set/to_json/get/to_dict/from_json/str")
            # (d)
            if not same(x, y) or y.to_json() != t0:
                A.bad("roundtrip", "lost", "value != decode(encode(value))", observed=t0)
            if tuples:
                self.res.count("oracle:forms:tuple-path-outside-documented-domain")
            # (c) the dict built by to_dict is new; the lists inside are the path's own
            d["__added__"] = 1
            d.pop("a2z")
            o0 = A.after("Path.to_dict", obs, o0, True, "changing the dict returned by Path.to_dict() changed the path")
            A.reread("Path.to_dict", list(q.to_dict()), ["a2z", "z2a"])
            # decoded twin is independent
            if y is not None and isinstance(y.payload, pi.Path):
                for l in (y.payload.a2z, y.payload.z2a):
                    if isinstance(l, list):
                        grow(l, "zz")
                y.payload = None
                o0 = A.after("decoded-twin", obs, o0, True, "changing the decoded twin changed the original")
            if symmetric:
                # z2a was built by copying: it does not follow the a2z list
                zs = copy.deepcopy(q.z2a)
                grow(a, "zz")
                if q.z2a != zs:
                    A.bad("set_symmetric", "z2a-follows-a2z", "changing the a2z list changed the reversed copy")
                o0 = obs()
            # (b)/(c) by reference: the lists given to Path.set / returned by Path.get, the Path given to PathInfo.set / returned by get
            ch = False
            for l in (a, z) + tuple(lists):
                if isinstance(l, list):
                    ch |= grow(l, "hop")
            if ch:
                o0 = A.after("Path.set-arg-list", obs, o0, False, "")
                if not same(x, K.from_json(x.to_json())):
                    A.bad("Path.set-arg-list", "roundtrip", "after the change decode(encode(value)) differs from the value")
            if got[1] is not None:
                got[1].z2a = None
                o0 = A.after("get-payload", obs, o0, False, "")
                if not same(x, K.from_json(x.to_json())):
                    A.bad("get-payload", "roundtrip", "after the change decode(encode(value)) differs from the value")
        except Exception as e:
            A.bad("raises", P.kind(e), "aliasing history on a valid path raises %s" % type(e).__name__)

    def alias_pi_graph(self, ero, gid):
        P = _P()
        pi = self.M[4]
        cname = "ERO" if ero else "PathInfo"
        case = {"kind": "alias_pi_graph", "ero": ero, "gid": gid}
        A = Probe(self, cname, case)
        K = pi.ERO if ero else pi.PathInfo
        try:
            x = K(pi.PathRepresentationType.Graph)
            x.set(gid)
            t0 = x.to_json()
            y = K.from_json(t0)
            if y is None or y.payload != gid or y.type != x.type or y.to_json() != t0:
                A.bad("roundtrip", "lost", "value != decode(encode(value))", observed=t0)
            o0 = [x.to_json(), x.get(), str(x)]
            y.payload = "other"
            y.type = pi.PathRepresentationType.Path
            if [x.to_json(), x.get(), str(x)] != o0:
                A.bad("decoded-twin", "value-changed", "changing the decoded twin changed the original")
        except Exception as e:
            A.bad("raises", P.kind(e), "aliasing history on a valid graph path raises %s" % type(e).__name__)

    # ---------------------------------------------------------------- MaintenanceInfo
    def alias_mi(self, entries):
        P = _P()
        mm = self.M[5]
        case = {"kind": "alias_mi", "entries": entries}
        A = Probe(self, "MaintenanceInfo", case)
        S = list(mm.MaintenanceState)

        def scramble(e):
            """change every public field of an entry object in place"""
            e.state = S[(S.index(e.state) + 1) % len(S)] if e.state in S else S[0]
            e.deadline = None if e.deadline is not None else datetime(1999, 9, 9, 9, 9, 9)
            e.expected_end = datetime(2001, 1, 1) if e.expected_end is None else None
            return True
        try:
            built = [(nm, P.entry_build(mm, wv)) for nm, wv in entries]
            esnap = copy.deepcopy(built)
            m = mm.MaintenanceInfo()
            for nm, e in built:
                m.add(nm, e)
            A.unchanged("add", "the entries given to add()", built, esnap, "add")
            # an unfinalized record holds the caller's entries by reference (it is still being built)
            if built:
                before = P.mi_wire(m)
                g0 = m.get(built[0][0])
                keep = copy.deepcopy(vars(g0))
                scramble(g0)
                self.res.count("oracle:alias:%s:MaintenanceInfo:get-unfinalized" % ("by-reference" if P.mi_wire(m) != before else "independent"))
                g0.__dict__.clear()
                g0.__dict__.update(keep)
            m.finalize()
            t0 = m.to_json()
            A.unchanged("finalize", "the entries given to add()", built, esnap, "finalize/to_json")

            def obs(w=None):
                w = w or m
                return [w.to_json(), P.mi_wire(w), w.list_names(), [[k, P.entry_wire(e)] for k, e in w.list_details()],
                        [[k, P.entry_wire(e)] for k, e in w.iter()], str(w)]
            o0 = obs()
            nsnap = copy.deepcopy(m._nodes)
            names, details, its = m.list_names(), m.list_details(), list(m.iter())
            gets = [(nm, m.get(nm)) for nm in nsnap]
            y = mm.MaintenanceInfo.from_json(t0)
            c = m.copy()
            m.get("no-such-node"), str(m), m.to_json()
            A.unchanged("readers", "the finalized record", m._nodes, nsnap, "list_names/list_details/iter/get/copy/to_json/from_json")
            # (d)
            if y is None or y._nodes != nsnap or list(y._nodes) != list(nsnap) or y.to_json() != t0 or y._lock is not True:
                A.bad("roundtrip", "lost", "record != decode(encode(record))", observed=t0)
            # (b) "a finalized maintenance record cannot be altered": not through the entry objects the caller added ...
            if built:
                for nm, e in built:
                    scramble(e)
                o0 = A.after("add-arg-entry", obs, o0, True, "changing an entry object after add() + finalize() changed the finalized record")
            # (c) ... nor through anything a reader hands out
            for nm, e in gets:
                if e is not None:
                    scramble(e)
            if gets:
                o0 = A.after("get", obs, o0, True, "changing the entry returned by get() changed the finalized record")
                for nm, _ in gets:
                    A.reread("get", m.get(nm), nsnap[nm])
            names.append("zz")
            names[:1] = []
            o0 = A.after("list_names", obs, o0, True, "changing the list returned by list_names() changed the finalized record")
            for k, e in details:
                scramble(e)
            details.append(("zz", None))
            details[:1] = []
            o0 = A.after("list_details", obs, o0, True, "changing what list_details() returned changed the finalized record")
            for k, e in its:
                scramble(e)
            its.clear()
            o0 = A.after("iter", obs, o0, True, "changing what iter() yielded changed the finalized record")
            # copy(): "copy an instance of the object but don't finalize" - the copy is the caller's to change
            for nm in list(nsnap)[:2]:
                ce = c.get(nm)
                if ce is not None:
                    scramble(ce)
            c.add("zz", P.entry_build(mm, ["Active", None, None]))
            for nm in list(nsnap)[:1]:
                c.rem(nm)
            o0 = A.after("copy", obs, o0, True, "changing a copy() (its entries or its entry table) changed the finalized original")
            # decoded twin and its copy
            if y is not None:
                oy = obs(y)
                y2 = y.copy()
                for nm in list(nsnap)[:2]:
                    scramble(y2.get(nm))
                y2.add("yy", P.entry_build(mm, ["Maint", None, None]))
                o0 = A.after("decoded-twin", obs, o0, True, "changing a copy of the decoded twin changed the original")
                A.after("decoded-twin-copy", lambda: obs(y), oy, True, "changing a copy of the decoded twin changed the twin")
            A.reread("final", m._nodes, nsnap)
        except Exception as e:
            A.bad("raises", P.kind(e), "aliasing history on a valid record raises %s" % type(e).__name__)

    def alias_entry(self, w):
        """MaintenanceEntry: constructor arguments (datetimes / ISO strings / state or state name) are not changed and
        both argument forms build the same entry"""
        P = _P()
        mm = self.M[5]
        case = {"kind": "alias_entry", "entry": w}
        A = Probe(self, "MaintenanceEntry", case)
        try:
            st, dl, ee = w
            e1 = P.entry_build(mm, w)
            kw = {"state": st if st is not None else "no-such-state", "deadline": dl, "expected_end": ee}
            ksnap = copy.deepcopy(kw)
            e2 = mm.MaintenanceEntry(**kw)
            A.unchanged("ctor", "the constructor's keyword arguments", kw, ksnap, "the constructor")
            if e1 != e2 or P.entry_wire(e1) != P.entry_wire(e2):
                A.bad("forms", "text-vs-object", "an entry built from ISO texts / a state name differs from the one built from objects",
                      expected=P.entry_wire(e1), observed=P.entry_wire(e2))
            if P.entry_wire(e1) != [st, dl, ee]:
                A.bad("forms", "content", "the entry does not hold what it was given", expected=[st, dl, ee], observed=P.entry_wire(e1))
        except Exception as e:
            A.bad("raises", P.kind(e), "a valid entry raises %s" % type(e).__name__)

    # ---------------------------------------------------------------- typed tuples
    def alias_tt(self, cname, t, v):
        P = _P()
        tt = self.M[6]
        C = getattr(tt, cname)
        case = {"kind": "alias_tt", "class": cname, "type": t, "val": v}
        A = Probe(self, "typed_tuple", case)
        try:
            kw = {"atype": t, "aval": v}
            ksnap = dict(kw)
            x = C(**kw)
            A.unchanged("ctor", "the constructor's keyword arguments", kw, ksnap, "the constructor")

            def obs():
                return [x.type, P.to_wire(x.val), type(x.val).__name__, x.get_as_string(), repr(x), x.get_type(), P.to_wire(x.get_val())]
            o0 = obs()
            s = x.get_as_string()
            kw2 = {"fromstring": s}
            y = C(**kw2)
            if kw2 != {"fromstring": s}:
                A.bad("ctor", "input-changed", "the fromstring argument was changed")
            # the type table handed out by the validator is a copy: emptying it does not disable validation
            types = x.lv.get_types(x.category)
            tsnap = list(types)
            types.clear()
            types.append("__bogus__")
            A.reread("get_types", x.lv.get_types(x.category), tsnap)
            try:
                C(atype="__bogus__", aval="x")
                A.bad("get_types", "value-changed", "changing the list returned by get_types() changed what the class accepts")
            except Exception:
                pass
            C(atype=t, aval=v)
            # a decoded twin is its own object: re-parsing it does not reach the original
            other = [u for u in tsnap if u != t][:1] or [t]
            y.parse_from_string(other[0] + ":other")
            y.type, y.val = other[0], "assigned"
            o0 = A.after("decoded-twin", obs, o0, True, "changing the decoded twin changed the original")
        except Exception as e:
            A.bad("raises", P.kind(e), "aliasing history on a valid tuple raises %s" % type(e).__name__)

    def run_alias_case(self, c):
        P = _P()
        k = c["kind"]
        if k == "alias_jf":
            self.alias_jf(c["class"], P.from_wire(c["kw"]))
        elif k == "alias_jf_forms":
            self.alias_jf_forms(c["class"], c["field"], c["vals"])
        elif k == "alias_tags":
            self.alias_tags(c["tags"], c["form"])
        elif k == "alias_gw":
            self.alias_gw(c["kw"])
        elif k == "alias_pi":
            a, z = P.from_wire(c["a2z"]), P.from_wire(c["z2a"])
            if c.get("tuples"):
                a, z = (tuple(a) if isinstance(a, list) else a), (tuple(z) if isinstance(z, list) else z)
            self.alias_pi(c["ero"], a, z, c.get("symmetric", False))
        elif k == "alias_pi_graph":
            self.alias_pi_graph(c["ero"], c["gid"])
        elif k == "alias_mi":
            self.alias_mi([tuple(e) for e in c["entries"]])
        elif k == "alias_entry":
            self.alias_entry(c["entry"])
        elif k == "alias_tt":
            self.alias_tt(c["class"], c["type"], c["val"])
        else:
            return False
        return True


def alias_group(case):
    k = case["kind"]
    if k in ("alias_jf", "alias_jf_forms"):
        return case["class"]
    return {"alias_tags": "Tags", "alias_gw": "Gateway", "alias_mi": "MaintenanceInfo", "alias_entry": "MaintenanceInfo",
            "alias_tt": "TypedTuple"}.get(k) or ("ERO" if case.get("ero") else "PathInfo")


def alias_nontrivial(c):
    k = c["kind"]
    if k == "alias_jf":
        return bool(c["kw"].get("o")) if isinstance(c["kw"], dict) else bool(c["kw"])
    if k == "alias_tags":
        return bool(c["tags"])
    if k == "alias_mi":
        return bool(c["entries"])
    if k == "alias_pi":
        return c["a2z"] is not None or c["z2a"] is not None
    return True
