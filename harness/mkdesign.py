"""Regenerates the tables of DESIGN.md section 9 (between the GENERATED markers) from the machinery itself:
props modules (theorems, generators), claims/, known_findings/, seeded/*/meta.json, evidence/."""
import importlib
import json
import os
import re
import sys

VERIF = os.path.dirname(os.path.dirname(os.path.abspath(__file__)))
sys.path.insert(0, os.path.join(VERIF, "harness"))
sys.path.insert(0, VERIF)
sys.path.insert(0, "/repo")

BEGIN, END = "<!-- BEGIN GENERATED TABLES (harness/mkdesign.py) -->", "<!-- END GENERATED TABLES -->"


def loc(paths):
    n = 0
    for p in paths:
        try:
            n += sum(1 for _ in open(p))
        except OSError:
            pass
    return n


def lean_closure(mods):
    import core
    return list(core.module_closure(mods).values())


def main():
    props = [json.loads(l) for l in open(os.path.join(VERIF, "properties.jsonl"))]
    out = []
    out.append("### 9.2 Per-property summary (generated)\n")
    out.append("| id | theorems (audited each run) | translator | Lean lines (model+proofs, import closure) | correspondence / oracle evaluations (quick, last run) | known / fixed findings | claim |")
    out.append("|---|---|---|---|---|---|---|")
    tot_thm = 0
    for p in props:
        pid = p["id"]
        try:
            mod = importlib.import_module("props." + pid.lower())
        except Exception as e:
            out.append("| %s | (not importable: %s) | | | | | |" % (pid, e))
            continue
        th = getattr(mod, "THEOREMS", [])
        tot_thm += len(th)
        gens = ", ".join(sorted({g.__module__.split(".")[-1] for g in getattr(mod, "GENERATORS", [])})) or "— (hand-mirrored, differential only)"
        files = [f for f in lean_closure(list(mod.LEAN_MODULES) + ["FimVerif.Drivers." + pid]) if "/Generated/" not in f]
        ev = {}
        try:
            ev = json.load(open(os.path.join(VERIF, "evidence", pid + ".json")))["coverage"]
        except Exception:
            pass
        kf = []
        try:
            kf = json.load(open(os.path.join(VERIF, "known_findings", pid + ".json")))["findings"]
        except Exception:
            pass
        nk = sum(1 for k in kf if k["status"] == "known")
        nf = sum(1 for k in kf if k["status"] == "fixed")
        claim = ""
        try:
            c = json.load(open(os.path.join(VERIF, "claims", pid + ".json")))
            claim = "partial" if re.search(r"\bpartial\b", (c["text"] + c["note"])[:400], re.I) else "full on the model"
        except Exception:
            claim = "not claimed"
        out.append("| %s | %d | %s | %d | %s / %s | %d / %d | %s |" % (
            pid, len(th), gens, loc(files), ev.get("correspondence", {}).get("evaluations", "?"),
            ev.get("oracle", {}).get("evaluations", "?"), nk, nf, claim))
    out.append("\nTotal property theorems audited with `#print axioms` on every run: **%d**.\n" % tot_thm)

    out.append("### 9.4 Defect triage (generated from known_findings/*.json)\n")
    out.append("`fixed` = repaired by the named `fix:` commit in /repo (the entry suppresses nothing; the corpus case is replayed first on every run). "
               "`known` = genuine defect left in the code; the check prints `KNOWN-FINDING` for it on every run from a deterministic case.\n")
    out.append("| property | status | commit | signature | what fails |")
    out.append("|---|---|---|---|---|")
    for p in props:
        try:
            kf = json.load(open(os.path.join(VERIF, "known_findings", p["id"] + ".json")))["findings"]
        except Exception:
            continue
        for k in kf:
            out.append("| %s | %s | %s | `%s` | %s |" % (k["property"], k["status"], k.get("commit", ""), k["signature"],
                                                       k["what"].replace("|", "\\|").replace("\n", " ")[:300]))

    out.append("\n### 9.5 Seeded changes and which check catches them (generated from seeded/*/meta.json)\n")
    out.append("Every change below was written by a fresh sub-agent that saw only the property text and a scratch worktree, compiles, keeps the "
               "77 pinned tests green, and fails its own demonstration (all re-confirmed by `harness/seedrun.sh`). "
               "`first run` is the verdict of the check as it was when the change was first tried; `now` the latest recorded verdict.\n")
    out.append("| seeded change | what it breaks / what it needs to manifest | first run | now | how it is caught (first replay) |")
    out.append("|---|---|---|---|---|")
    sd = os.path.join(VERIF, "seeded")
    caught = total = 0
    for d in sorted(os.listdir(sd)) if os.path.isdir(sd) else []:
        mp = os.path.join(sd, d, "meta.json")
        if not os.path.exists(mp):
            continue
        m = json.load(open(mp))
        hist = m.get("check_history", [])
        if not hist:
            continue

        def verdict(h):
            return "caught" if any(c["exit"] == 1 for c in h["checks"].values()) else "MISSED"
        total += 1
        caught += verdict(hist[-1]) == "caught"
        rp = hist[-1].get("first_replays") or [{}]
        how = "%s `%s`" % (rp[0].get("kind", ""), rp[0].get("signature", "")) if rp[0] else ""
        out.append("| %s | %s — needs: %s | %s | %s | %s |" % (
            d, m.get("summary", "").replace("|", "\\|")[:260], m.get("needs_to_manifest", "").replace("|", "\\|")[:200],
            verdict(hist[0]), verdict(hist[-1]), how))
    out.append("\nCaught now: **%d of %d**.\n" % (caught, total))

    # per-round summary: how many were caught by the machinery as it was when the round was first tried, and now
    rounds = {}
    for d in sorted(os.listdir(sd)) if os.path.isdir(sd) else []:
        mp = os.path.join(sd, d, "meta.json")
        if not os.path.exists(mp):
            continue
        m = json.load(open(mp))
        hist = m.get("check_history", [])
        if not hist:
            continue
        mr = re.search(r"-r(\d+)-", d)
        r = int(mr.group(1)) if mr else 1
        t = rounds.setdefault(r, [0, 0, 0, 0])
        t[0] += 1
        t[1] += any(c["exit"] == 1 for c in hist[0]["checks"].values())
        t[2] += any(c["exit"] == 1 for c in hist[-1]["checks"].values())
        t[3] += any(c["exit"] == 1 for c in hist[-1]["checks"].values()) and any(
            (x or {}).get("kind") == "concrete" for x in (hist[-1].get("first_replays") or []))
    out.append("| seeding round | changes | caught when first tried | caught now | of those with a concrete replay among the first replays |")
    out.append("|---|---|---|---|---|")
    for r in sorted(rounds):
        out.append("| %d | %d | %d | %d | %d |" % (r, rounds[r][0], rounds[r][1], rounds[r][2], rounds[r][3]))

    out.append("\n### 9.5b Behaviour-preserving rewrites (false-alarm test; generated from refactors/*/meta.json)\n")
    out.append("Each rewrite was written by a fresh sub-agent that saw only the property text and a scratch worktree, keeps the pinned suite "
               "green and produces an identical digest of an equivalence program on the unchanged and the rewritten tree. `quiet` = the "
               "property's check exits 0 on the rewritten tree; `note` = exit 0 through the translator fallback of 9.7 (NOTE line); `ALARM` = exit 1.\n")
    out.append("| rewrite | kind | what was rewritten | first run | now |")
    out.append("|---|---|---|---|---|")
    rd = os.path.join(VERIF, "refactors")
    quiet = tot = 0
    for d in sorted(os.listdir(rd)) if os.path.isdir(rd) else []:
        mp = os.path.join(rd, d, "meta.json")
        if not os.path.exists(mp):
            continue
        m = json.load(open(mp))
        hist = m.get("check_history", [])
        if not hist:
            continue

        hist = [h for h in hist if h["checks"]] or hist      # an entry without checks = the patch no longer applied (later fix: commit)

        def rv(h):
            cs = list(h["checks"].values())
            if not cs:
                return "n/a"
            if any(c["exit"] != 0 for c in cs):
                return "ALARM"
            return "note" if any(c.get("fallback_note") for c in cs) else "quiet"
        tot += 1
        quiet += rv(hist[-1]) != "ALARM"
        out.append("| %s | %s | %s | %s | %s |" % (d, str(m.get("kind", ""))[:40].replace("|", "/"), m.get("summary", "").replace("|", "\\|").replace("\n", " ")[:220],
                                                rv(hist[0]), rv(hist[-1])))
    out.append("\nNo alarm now: **%d of %d**.\n" % (quiet, tot))

    path = os.path.join(VERIF, "DESIGN.md")
    s = open(path).read()
    block = BEGIN + "\n\n" + "\n".join(out) + "\n" + END
    if BEGIN in s:
        s = s[:s.index(BEGIN)] + block + s[s.index(END) + len(END):]
    else:
        s = s.rstrip("\n") + "\n\n" + block + "\n"
    open(path, "w").write(s)
    print("DESIGN.md tables regenerated: %d theorems, seeded %d/%d" % (tot_thm, caught, total))


if __name__ == "__main__":
    main()
