"""C09 extensions of the topology harness (lib_topo.py stays as it is: C07 shares it).

  SessionX            lib_topo.Session plus the argument positions and calls the shared alphabet does not reach:
                        add_switch(nslabels=, portlabels=, portcapacities=, nstype=None), add_facility(nslabels=, nstype=None),
                        Node.add_network_service(interfaces=[...])          -> the same Lean requests, more of their fields used
                        update_labels / update_capacities                   -> Lean request `update_caplab` (Model/TopoC09.lean)
                        attribute assignment (`element.capacities = v`)     -> Lean request `set_props` / `unset_prop`
                        oracle-only (no Lean request, line is None): node.image_ref / image_type = v, add_node(ns_info=...)
  gen_op_x            lib_topo.gen_op plus these, plus links that give an interface a second ServicePort peer and removals
                      by the wrong call (remove_facility / remove_switch on another kind of node)
  multi_sp_peer(snap) does some interface of the snapshot have more than one ServicePort peer? (known-finding discriminator)
"""
import json

import lib_topo as T
from lib_topo import BOGUS, UUIDS, det_uuids, kwargs_of, mk_value, prop_args, prop_args_values, _cache, _enum
from core import err_kind

DEFAULT_NS = {"add_switch": "P4", "add_facility": "VLAN"}
# attributes whose setter is `self.set_property(<attr>, value)` (None unsets), per handle kind
SIMPLE_ATTRS = {
    "node": ["capacities", "labels", "details", "boot_script", "site"],
    "comp": ["capacities", "labels", "details"],
    "svc": ["capacities", "labels", "details", "site", "controller_url"],
    "iface": ["capacities", "labels", "details"],
    "link": ["capacities", "labels", "details"],
}
ATTR_GOOD = {"capacities": ["cap", {"bw": 3}], "labels": ["lab", {"local_name": "zz"}], "details": ["str", "by attribute"],
             "boot_script": ["str", "echo attr"], "site": ["str", "LBNL"], "controller_url": ["str", "http://y"]}
# values the sliver classes reject (details / site / controller_url accept anything: no rejected value to inject there)
ATTR_BAD = {"capacities": ["str", "much"], "labels": ["int", 4], "boot_script": ["int", 9]}
UPD_GOOD = {"labels": [{"vlan": "77"}, {"local_name": "u1"}, {"vlan": "78", "local_name": "u2"}],
            "capacities": [{"bw": 7}, {"unit": 2}, {"bw": 8, "unit": 3}]}
UPD_BAD = {"labels": [{"bogus": 1}, {"vlan": 5}, {"local_name": "ok", "mac": "zz"}],
           "capacities": [{"core": "many"}, {"bogus": 2}, {"bw": 1, "core": -1}]}


# values a property setter WITHOUT a type check lets through although every codec of the repo writes strings: the layers
# below the sliver (graph primitives, serializers) meet them first.  All JSON-able (cases are replayed from JSON) + a tuple.
LOOSE_VALUES = [["int", 1234], ["raw", 2.5], ["raw", [1, 2]], ["raw", {"a": 1}], ["int", 0], ["raw", []], ["raw", False],
                ["raw", True], ["tuple", [1, 2]], ["raw", {}]]
_LOOSE = {}


def loose_props(kind):
    """keyword properties of the element kind whose sliver setter accepts a non-string value and hands it to the graph as it is
    (found by probing the sliver class with LOOSE_VALUES, not listed): [(name, [value specs accepted])]"""
    if kind not in _LOOSE:
        cls, to_dict = T._sliver_codec(kind)
        base = to_dict(cls())
        out = []
        for nm in sorted(cls.list_properties()):
            acc = []
            for spec in LOOSE_VALUES:
                sl = cls()
                try:
                    sl.set_properties(**{nm: mk_value(spec)})
                    d = to_dict(sl)
                except Exception:
                    continue
                ch = [k for k in d if k not in base or base[k] != d[k]]
                if ch and all(k not in T.CLASS_KEYS for k in ch) and any(not isinstance(d[k], str) for k in ch):
                    acc.append(spec)
            if acc:
                out.append((nm, acc))
        _LOOSE[kind] = out
    return _LOOSE[kind]


_KW_KIND = {"add_node": "node", "add_component": "comp", "add_component_mt": "comp", "add_storage": "comp", "add_service": "svc",
            "node_add_service": "svc", "add_port_mirror": "svc", "add_link": "link", "ns_add_interface": "iface",
            "add_child_interface": "iface", "peer": "iface"}


def loosen(rng, sess, op, p=0.1):
    """post-processor of a generated op (as lib_topo.collide): with probability p one keyword whose setter has no type check
    gets a non-string value, at a random position among the call's keywords - in creating calls and bulk setters alike"""
    k = op.get("op")
    if "kw" not in op or rng.random() >= p:
        return op
    if k == "set_props":
        h = sess.handles.get(op.get("h"))
        kind = h.kind if h is not None else None
    else:
        kind = _KW_KIND.get(k)
    have = [x[0] for x in op["kw"]]
    # creating calls pass site= (and the port mirror its mirror_* values) as arguments of their own
    skip = () if k == "set_props" else ("site", "mirror_port", "mirror_vlan")
    cands = [(n, vs) for n, vs in (loose_props(kind) if kind else []) if n not in have and n not in skip]
    if not cands:
        return op
    n, vs = rng.choice(cands)
    op = dict(op, kw=list(op["kw"]), loose=n)
    op["kw"].insert(rng.randrange(len(op["kw"]) + 1), [n, rng.choice(vs)])
    if k == "set_props":
        op["single"] = op.get("single", True) and len(op["kw"]) == 1
    return op


def multi_sp_peer(snap):
    """names of the interfaces (not ServicePorts) of a snapshot that have more than one ServicePort peer over their links"""
    typ = {(n[0], n[1]): n[3] for n in snap["nodes"]}
    name = {(n[0], n[1]): n[2] for n in snap["nodes"]}
    on_link = {}
    for a, b, rel in snap["edges"]:
        a, b = tuple(a), tuple(b)
        if rel != "connects":
            continue
        for x, y in ((a, b), (b, a)):
            if x[0] == "Link" and y[0] == "ConnectionPoint":
                on_link.setdefault(x, []).append(y)
    peers = {}
    for l, cps in on_link.items():
        for c in cps:
            for d in cps:
                if d != c and typ.get(d) == "ServicePort":
                    peers.setdefault(c, set()).add(d)
    return sorted(name[c] for c, ps in peers.items() if typ.get(c) != "ServicePort" and len(ps) > 1)


class SessionX(T.Session):
    """.others: further topologies alive in the same process (pseudo-op `_backup`): copies of this one, node ids preserved"""

    def backup(self, how):
        """keep a copy of the topology as it is now: 'load' = serialize + load under a new graph id into a topology object of the
        same class and backend, 'clone' = graph_model.clone_graph.  A model that cannot be serialized is not copied."""
        import uuid
        if not hasattr(self, "others"):
            self.others = []
        gid = str(T._real_uuid4())
        try:
            if how == "clone":
                g = self.topo.graph_model.clone_graph(new_graph_id=gid)
                self.others.append(("clone", g, None))
            else:
                b = T.new_topology(self.flavour + ("+d" if self.backend == "d" else ""))
                empty = b.graph_model.graph_id
                if self.flavour == "exp":
                    b.load(graph_string=self.topo.serialize(), new_graph_id=gid)
                else:
                    # SubstrateTopology.load keeps the graph id of the text: re-label the copy through the importer
                    g = b.graph_model.importer.import_graph_from_string(graph_string=self.topo.serialize(), graph_id=gid)
                    b.graph_model = type(b.graph_model)(graph_id=g.graph_id, importer=g.importer, logger=g.log)
                try:
                    b.graph_model.importer.delete_graph(graph_id=empty)
                except Exception:
                    pass
                self.others.append(("load", b.graph_model, b))
            return True
        except Exception:
            return False

    def other_snapshots(self):
        out = []
        for how, gm, _ in getattr(self, "others", []):
            class _V:
                graph_model = gm
            out.append(T.snapshot(_V))
        return out

    def close(self):
        for how, gm, _ in getattr(self, "others", []):
            try:
                gm.importer.delete_graph(graph_id=gm.graph_id)
            except Exception:
                pass
        super().close()

    def apply(self, op):
        """as Session.apply; an op whose *arguments* cannot be built (a value spec the sliver classes refuse to construct, e.g. a
        generated `Labels(vlan='None')`) is not a call at all: ValueError, which run_history skips.  Exceptions of the call
        itself never get here (apply catches them and reports the outcome)."""
        try:
            return self._apply(op)
        except ValueError:
            raise
        except Exception as e:
            raise ValueError("op cannot be built %r: %s %s" % (op.get("op"), type(e).__name__, str(e)[:80]))

    def _apply(self, op):
        k = op["op"]
        if k in ("add_switch", "add_facility") and any(f in op for f in ("nslabels", "portlabels", "portcaps", "nstype_none")):
            return self._composite_x(op)
        if k == "node_add_service" and op.get("ifs") is not None:
            return self._node_service_ifs(op)
        if k in ("update_labels", "update_capacities"):
            return self._update_caplab(op)
        if k == "set_attr":
            return self._set_attr(op)
        if k == "add_node_nsinfo":
            return self._add_node_nsinfo(op)
        if k == "add_component" and op.get("if_labels") is not None:
            return self._add_component_labels(op)
        return super().apply(op)

    # -- helpers
    def _run(self, call, post, line):
        with det_uuids():
            try:
                r = call()
            except Exception as e:
                return ["err", err_kind(e)], line
            pr = post(r)
            hk, rid, cache = pr[:3]
        return ["ok", rid, cache, hk] + list(pr[3:4]), line

    def _line(self, op):
        self.nops += 1
        line = {"op": op["op"], "fl": self.flavour, "u": UUIDS.n}
        for f in ("name", "nid", "site", "nstype", "tech"):
            if f in op and op[f] is not None:
                line[f] = op[f]
        return line

    def _composite_x(self, op):
        from fim.slivers.network_service import ServiceType
        from fim.slivers.capacities_labels import Labels, Capacities
        k, t = op["op"], self.topo
        line = self._line(op)
        args = dict(name=op["name"], site=op.get("site"))
        if op.get("nid") is not None:
            args["node_id"] = op["nid"]
        if op.get("nstype_none"):
            args["nstype"] = None
            line.pop("nstype", None)
        elif op.get("nstype") is not None:
            args["nstype"] = _enum(ServiceType, op["nstype"])
        else:
            line["nstype"] = DEFAULT_NS[k]
        if "nslabels" in op:
            args["nslabels"] = mk_value(op["nslabels"])
            line["nsprops"] = prop_args("svc", [["labels", op["nslabels"]]])
        else:
            line["nsprops"] = []
        if k == "add_switch":
            n = op.get("nports", 2)
            pl = mk_value(op["portlabels"]) if "portlabels" in op else None
            pc = mk_value(op["portcaps"]) if "portcaps" in op else None
            if "portlabels" in op:
                args["portlabels"] = pl
            if "portcaps" in op:
                args["portcapacities"] = pc
            args["nports"] = n
            line["ports"] = []
            for i in range(1, n + 1):
                lab = pl if pl else Labels(local_name="p%d" % i)          # `portlabels if portlabels else labels`
                cap = pc if pc else Capacities(bw=100)
                line["ports"].append(["p%d" % i, "-int%d" % i, prop_args_values("iface", [("labels", lab), ("capacities", cap)])])
            call = lambda: t.add_switch(**args)
        else:
            line["props"] = prop_args("iface", op.get("kw", []))
            if op.get("ifs") is not None:
                tuples, wire = [], []
                for iname, lab, cap in op["ifs"]:
                    wire.append([iname, prop_args("iface", [["labels", lab], ["capacities", cap]])])
                    tuples.append((iname, mk_value(lab), mk_value(cap)))
                args["interfaces"] = tuples
                line["ifs"] = wire
            else:
                args.update(kwargs_of(op.get("kw", [])))
            call = lambda: t.add_facility(**args)
        return self._run(call, lambda r: (self.add_handle("node", r), r.node_id, None), line)

    def _node_service_ifs(self, op):
        from fim.slivers.network_service import ServiceType
        line = self._line(op)
        parent = self.handles[op["parent"]].obj
        objs, wire = [], []
        for x in op["ifs"]:
            w, o = self._if_arg(x)
            wire.append(w)
            objs.append(o)
        line["props"] = prop_args("svc", op.get("kw", []))
        line["ifs"] = wire
        line["parent"] = parent.node_id
        args = dict(name=op["name"], nstype=_enum(ServiceType, op.get("nstype")), interfaces=objs, **kwargs_of(op.get("kw", [])))
        if op.get("nid") is not None:
            args["node_id"] = op["nid"]
        return self._run(lambda: parent.add_network_service(**args),
                         lambda r: (self.add_handle("svc", r), r.node_id, _cache(r)), line)

    def _update_caplab(self, op):
        """element.update_labels(**fields) / update_capacities(**fields): the merged value is computed with the
        implementation's pure Labels/Capacities code from what the graph holds (C02/C03 own that); the model gets
        `accepted as this graph property` / `rejected with this kind`"""
        from fim.slivers.capacities_labels import Labels, Capacities
        h = self.handles[op["h"]]
        which = "labels" if op["op"] == "update_labels" else "capacities"
        cls = Labels if which == "labels" else Capacities
        self.nops += 1
        line = {"op": "update_caplab", "fl": self.flavour, "u": UUIDS.n, "nid": h.obj.node_id}
        fields = dict(op["fields"])
        try:
            with det_uuids():
                cur = getattr(h.obj, which)
            try:
                new = cls(**fields) if cur is None else cls.update(cur, **fields)
                line["props"] = prop_args_values(h.kind, [(which, new)])
            except Exception as e:
                line["props"] = [["!", err_kind(e)]]
        except Exception:
            line["props"] = []          # stale handle: the read fails first (model: findNode)
        fn = h.obj.update_labels if which == "labels" else h.obj.update_capacities
        return self._run(lambda: fn(**fields), lambda r: (None, None, None), line)

    def _set_attr(self, op):
        from fim.graph.abc_property_graph import ABCPropertyGraph
        h = self.handles[op["h"]]
        attr, spec = op["attr"], op["val"]
        self.nops += 1
        if attr in SIMPLE_ATTRS.get(h.kind, []):
            if spec[0] == "none":
                line = {"op": "unset_prop", "fl": self.flavour, "u": UUIDS.n, "nid": h.obj.node_id}
                g = ABCPropertyGraph.map_sliver_property_to_graph(attr)
                if g is not None:
                    line["gname"] = g
            else:
                line = {"op": "set_props", "fl": self.flavour, "u": UUIDS.n, "nid": h.obj.node_id, "props": prop_args(h.kind, [[attr, spec]])}
        else:
            line = None                  # oracle only (image_ref / image_type pair their value with what is stored)
        val = mk_value(spec)
        return self._run(lambda: setattr(h.obj, attr, val), lambda r: (None, None, None), line)

    def _add_component_labels(self, op):
        """Node.add_component(..., interface_labels=[<non-empty Labels or something else>, ...]) - oracle only (the model has
        `Labels()` there: what the labels do to the generated interfaces is the catalogue's pure code)"""
        from fim.slivers.attached_components import ComponentType
        self.nops += 1
        parent = self.handles[op["parent"]].obj
        args = dict(name=op["name"], ctype=_enum(ComponentType, op.get("ctype")), model=op.get("model"),
                    interface_labels=[mk_value(x) for x in op["if_labels"]], **kwargs_of(op.get("kw", [])))
        if op.get("nid") is not None:
            args["node_id"] = op["nid"]
        if op.get("ns_nid") is not None:
            args["network_service_node_id"] = op["ns_nid"]
        if op.get("if_nids") is not None:
            args["interface_node_ids"] = list(op["if_nids"])
        return self._run(lambda: parent.add_component(**args), lambda r: (self.add_handle("comp", r), r.node_id, None), None)

    def _add_node_nsinfo(self, op):
        """Topology.add_node(..., ns_info=<NetworkServiceInfo with one service of the given id>) - oracle only"""
        from fim.slivers.network_node import NodeType
        from fim.slivers.network_service import NetworkServiceSliver, NetworkServiceInfo, ServiceType
        self.nops += 1
        nsi = NetworkServiceInfo()
        s = NetworkServiceSliver()
        s.node_id = op["ns_nid"]
        s.set_name(op["name"] + "-ns")
        s.set_type(ServiceType.MPLS)
        s.set_layer(NetworkServiceSliver.ServiceConstraints[ServiceType.MPLS].layer)
        nsi.add_network_service(s)
        args = dict(name=op["name"], site=op.get("site", "RENC"), ntype=NodeType.Server, ns_info=nsi)
        if op.get("nid") is not None:
            args["node_id"] = op["nid"]
        return self._run(lambda: self.topo.add_node(**args), lambda r: (self.add_handle("node", r), r.node_id, None), None)


# --------------------------------------------------------------------------
# generator

def _service_ports(sess, ifaces):
    return [h for h in ifaces if T._if_type(h) == "ServicePort"]


def gen_op_x(rng, sess, names, fault=0.0, ext=False, oracle_only=False, px=0.22):
    """lib_topo.gen_op, and with probability px one of the C09 extensions applicable to the session's state"""
    if getattr(names, "queue", None):
        return names.queue.pop(0)
    if rng.random() >= px:
        return T.gen_op(rng, sess, names, fault, ext=ext)
    fl = sess.flavour
    nodes = [h for h in sess.of_kind("node") if sess.alive(h)]
    comps = [h for h in sess.of_kind("comp") if sess.alive(h)]
    svcs = [h for h in sess.of_kind("svc") if sess.alive(h)]
    links = [h for h in sess.of_kind("link") if sess.alive(h)]
    ifaces = [h for h in sess.of_kind("iface") if sess.alive(h)]
    free = T.free_ifaces(sess)
    connected = [h for h in ifaces if T._is_connected(h)]
    sps = _service_ports(sess, ifaces)
    stale = [h for h in sess.order if not sess.alive(sess.handles[h])]
    bad = rng.random() < max(fault, 0.4)
    menu = ["add_switch_x", "add_facility_x"]
    elems = nodes + comps + svcs + ifaces + links
    if elems:
        menu += ["update_labels", "update_capacities", "set_attr", "set_attr", "set_props_loose"]
    if nodes and free:
        menu += ["node_add_service_ifs"]
    if connected and sps:
        menu += ["exotic_link"] * 2
    if nodes:
        menu += ["remove_wrong_type"] * 2 + ["node_remove_service"]
    if oracle_only and nodes:
        menu += ["set_attr_image", "add_node_nsinfo", "add_component_labels"]
    k = rng.choice(menu)
    if k == "add_switch_x":
        op = {"op": "add_switch", "name": names.new("sw"), "nid": names.nid(fl), "site": rng.choice(T.SITES), "nports": rng.choice([1, 2, 3])}
        what = rng.choice(["nslabels", "portlabels", "portcaps", "all"])
        if what in ("nslabels", "all"):
            op["nslabels"] = ["lab", {"vlan": "210"}]
        if what in ("portlabels", "all"):
            op["portlabels"] = ["lab", {"local_name": "px"}]
        if what in ("portcaps", "all"):
            op["portcaps"] = ["cap", {"bw": 25}]
        if bad:
            f = rng.choice(["bad-nslabels", "bad-portlabels", "bad-portcaps", "no-nstype", "derived-ns-id-taken", "derived-int-id-taken"])
            op["fault"] = f
            if f == "bad-nslabels":
                op["nslabels"] = rng.choice([["int", 5], ["str", "x"], ["cap", {"bw": 1}]])
            elif f == "bad-portlabels":
                op["portlabels"] = rng.choice([["str", "x"], ["int", 5], ["cap", {"bw": 1}]])
            elif f == "bad-portcaps":
                op["portcaps"] = rng.choice([["str", "fast"], ["lab", {"vlan": "1"}]])
            elif f == "no-nstype":
                op["nstype_none"] = True
            elif f in ("derived-ns-id-taken", "derived-int-id-taken") and nodes:
                # first a service that takes the id the switch will derive, then the switch
                op["nid"] = "swx-%d" % names.k
                names.k += 1
                suffix = "-ns" if f == "derived-ns-id-taken" else "-int%d" % rng.randrange(1, op["nports"] + 1)
                pre = {"op": "node_add_service", "parent": rng.choice(nodes).key, "name": names.new("tk"), "nid": op["nid"] + suffix,
                       "nstype": "VLAN", "kw": []}
                names.queue = getattr(names, "queue", []) + [op]
                return pre
        return op
    if k == "add_facility_x":
        op = {"op": "add_facility", "name": names.new("f"), "nid": names.nid(fl), "site": rng.choice(T.SITES),
              "nslabels": ["lab", {"vlan": "220"}]}
        if rng.random() < 0.5:
            op["kw"] = T.pick_kw(rng, "iface")
        else:
            op["ifs"] = [[names.new("fi"), ["lab", {"vlan": str(300 + j)}], ["cap", {"bw": 10}]] for j in range(rng.choice([1, 2]))]
        if bad:
            f = rng.choice(["bad-nslabels", "no-nstype", "bad-iface-labels"])
            op["fault"] = f
            if f == "bad-nslabels":
                op["nslabels"] = rng.choice([["str", "x"], ["int", 0], ["cap", {"bw": 1}]])
            elif f == "no-nstype":
                op["nstype_none"] = True
            elif f == "bad-iface-labels" and "ifs" in op:
                op["ifs"][-1][1] = ["str", "v"]
        return op
    if k == "node_add_service_ifs":
        p = rng.choice(nodes)
        n = min(len(free), rng.choice([1, 1, 2]))
        op = {"op": "node_add_service", "parent": p.key, "name": names.new("ns"), "nid": names.nid(fl), "nstype": rng.choice(T.NODE_SVC_TYPES),
              "ifs": [h.key for h in rng.sample(free, n)], "kw": T.pick_kw(rng, "svc")}
        if bad:
            f = rng.choice(["bogus-iface", "stale-iface", "connected-iface", "repeat-iface", "bad-prop"])
            op["fault"] = f
            pos = rng.randrange(0, len(op["ifs"]) + 1)
            st_if = [s for s in stale if sess.handles[s].kind == "iface"]
            if f == "bogus-iface":
                op["ifs"].insert(pos, BOGUS)
            elif f == "stale-iface" and st_if:
                op["ifs"].insert(pos, rng.choice(st_if))
            elif f == "connected-iface" and connected:
                op["ifs"].insert(pos, rng.choice(connected).key)
            elif f == "repeat-iface" and op["ifs"]:
                op["ifs"].insert(pos, rng.choice(op["ifs"]))
            elif f == "bad-prop":
                op["kw"] = T.pick_kw(rng, "svc", bad_at=rng.randrange(0, 3), n=2)
        return op
    if k in ("update_labels", "update_capacities"):
        h = rng.choice(elems + [sess.handles[s] for s in stale][:1])
        which = "labels" if k == "update_labels" else "capacities"
        op = {"op": k, "h": h.key, "fields": dict(rng.choice(UPD_GOOD[which]))}
        if bad:
            op["fault"] = "bad-field"
            op["fields"] = dict(rng.choice(UPD_BAD[which]))
        return op
    if k == "set_props_loose":
        # bulk setter mixing good properties with one the sliver does not type-check (non-string value), and - when a fault is
        # injected - one the sliver rejects; every position
        h = rng.choice(elems)
        op = {"op": "set_props", "h": h.key, "kw": T.pick_kw(rng, h.kind, n=rng.choice([1, 2, 2])), "single": False}
        if bad and rng.random() < 0.5:
            op["kw"] = T.pick_kw(rng, h.kind, bad_at=rng.randrange(0, 3), n=2)
            op["fault"] = "bad-prop"
        return loosen(rng, sess, op, p=1.0)
    if k == "set_attr":
        h = rng.choice(elems)
        attr = rng.choice(SIMPLE_ATTRS[h.kind])
        op = {"op": "set_attr", "h": h.key, "attr": attr, "val": ATTR_GOOD[attr]}
        r = rng.random()
        if bad and attr in ATTR_BAD:
            op["fault"] = "bad-value"
            op["val"] = ATTR_BAD[attr]
        elif r < 0.3:
            op["val"] = ["none"]
        elif r < 0.45 and attr in dict(loose_props(h.kind)):
            op["val"] = rng.choice(dict(loose_props(h.kind))[attr])       # `element.details = 1234`: no type check anywhere above the graph
            op["loose"] = attr
        return op
    if k == "set_attr_image":
        h = rng.choice(nodes)
        if rng.random() < 0.4:          # a stored (reference, type) pair for the setters to read
            return {"op": "set_props", "h": h.key, "kw": [["image_ref", ["str", "img0"]], ["image_type", ["str", "qcow2"]]], "single": False}
        attr = rng.choice(["image_ref", "image_type"])
        val = rng.choice([["str", "img1"], ["str", "qcow2"], ["none"], ["int", 5], ["str", "a,b"]])
        return {"op": "set_attr", "h": h.key, "attr": attr, "val": val}
    if k == "add_component_labels":
        p = rng.choice(nodes)
        good = [["lab", {"bdf": "0000:41:00.%d" % j, "mac": "0C:42:A1:EA:C7:5%d" % j}] for j in range(2)]
        op = {"op": "add_component", "parent": p.key, "name": names.new("c"), "nid": names.nid(fl, True), "ctype": "SmartNIC",
              "model": "ConnectX-6", "ns_nid": names.nid(fl, True), "if_nids": [names.nid(fl, True), names.nid(fl, True)],
              "if_labels": good, "kw": []}
        if bad:
            f = rng.choice(["bad-label", "short-labels", "dup-iface-id"])
            op["fault"] = f
            if f == "bad-label":
                op["if_labels"][rng.randrange(2)] = rng.choice([["str", "x"], ["cap", {"bw": 1}], ["int", 3]])
            elif f == "short-labels":
                op["if_labels"] = good[:1]
            elif f == "dup-iface-id" and ifaces:
                op["if_nids"][rng.randrange(2)] = rng.choice(ifaces).obj.node_id
        return op
    if k == "add_node_nsinfo":
        taken = rng.choice(nodes + svcs + ifaces).obj.node_id if bad else names.nid(fl, True)
        return {"op": "add_node_nsinfo", "name": names.new("n"), "nid": names.nid(fl, True), "ns_nid": taken, "fault": "taken-nested-id" if bad else None}
    if k == "exotic_link":
        a = rng.choice(connected)
        own = set()
        try:
            own = {p.node_id for p in a.obj.get_peers(itype=T._sp())}
        except Exception:
            pass
        cand = [h for h in sps if h.obj.node_id not in own] or sps
        return {"op": "add_link", "name": names.new("xl"), "nid": names.nid(fl), "ltype": rng.choice(["L2Path", "Patch"]),
                "ifs": [a.key, rng.choice(cand).key], "kw": [], "fault": "second-sp-peer"}
    if k == "node_remove_service":
        # Node.remove_network_service: of a switch / facility / node that has a service of its own, or a name it does not have
        withsvc = [(h, n) for h in nodes for n in T._svc_child_names(h)]
        if withsvc and not bad:
            h, n = rng.choice(withsvc)
            return {"op": "node_remove_service", "parent": h.key, "name": n}
        return {"op": "node_remove_service", "parent": rng.choice(nodes).key, "name": "no-such-service", "fault": "no-such-name"}
    if k == "remove_wrong_type":
        which = rng.choice(["remove_facility", "remove_switch"])
        want = {"remove_facility": "Facility", "remove_switch": "Switch"}[which]
        wrong = [h for h in nodes if T._node_type(h) != want]
        if not wrong:
            return T.gen_op(rng, sess, names, fault, ext=ext)
        # prefer a node one of whose interfaces is connected (something to lose)
        def has_conn(h):
            try:
                return any(T._is_connected(T.Handle("x", "iface", i)) for i in h.obj.interface_list)
            except Exception:
                return False
        pref = [h for h in wrong if has_conn(h)] or wrong
        return {"op": which, "name": rng.choice(pref).obj.name, "fault": "wrong-node-type"}
    return T.gen_op(rng, sess, names, fault, ext=ext)
