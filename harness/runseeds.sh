#!/bin/bash
# runseeds.sh <round> Cxx ... : seedrun every out<round>-Cxx/i not yet run, 4 at a time
R=$1; shift
jobs_list=()
for p in "$@"; do for d in /tmp/seed/out$R-$p/*/; do d=${d%/}; i=$(basename $d); f=/tmp/seed/results/out$R-${p}_$i.txt; [ -f "$d/patch.diff" ] && [ ! -s "$f" ] && jobs_list+=("$d|$f"); done; done
printf '%s\n' "${jobs_list[@]}" | xargs -P 4 -I{} bash -c 'x="{}"; d=${x%%|*}; f=${x##*|}; bash /verif/harness/seedrun.sh $d > $f 2>&1'
