"""C16: one behavioural probe per entry point the translator (gen/entrypoints.py) discovers.

PROBES[entry] = Probe(domains, variants, run).  run(C, variant, dom, val) performs the call with `val` arriving through the
entry point's parameter of domain `dom` and returns the object that now holds the value: a model element (read back from the
raw graph properties), a sliver, or a Labels / Tags / JSON-blob object.  Raising = rejection.
EXEMPT[entry] = reason (nothing of its own to drive).
The translator fails (extraction error) when the discovered set is not PROBES ∪ EXEMPT.
"""
import json
import types

import lib_c16 as L

ELEM_DOMS = ["labels", "tags", "boot_script", "json:UserData", "json:MeasurementData", "json:LayoutData"]
KW_OF = {"labels": "labels", "tags": "tags", "boot_script": "boot_script", "json:UserData": "user_data",
         "json:MeasurementData": "mf_data", "json:LayoutData": "layout_data", "name": "name", "peer_labels": "peer_labels",
         "label_allocations": "label_allocations"}
GRAPH_PROP = {"name": "Name", "labels": "Labels", "tags": "Tags", "boot_script": "BootScript", "json:UserData": "UserData",
              "json:MeasurementData": "MeasurementData", "json:LayoutData": "LayoutData", "peer_labels": "PeerLabels",
              "label_allocations": "LabelAllocations"}
SLIVER_FIELD = {"name": "resource_name", "labels": "labels", "tags": "tags", "boot_script": "boot_script", "json:UserData": "user_data",
                "json:MeasurementData": "mf_data", "json:LayoutData": "layout_data", "peer_labels": "peer_labels",
                "label_allocations": "label_allocations"}
SLIVERS = ["NodeSliver", "ComponentSliver", "InterfaceSliver", "NetworkServiceSliver", "NetworkLinkSliver", "CompositeNodeSliver",
           "NetworkAttachedStorageSliver"]
ELEMS = {"Node": "NodeSliver", "Component": "ComponentSliver", "Interface": "InterfaceSliver", "NetworkService": "NetworkServiceSliver",
         "Link": "NetworkLinkSliver"}


class Probe:
    def __init__(self, domains, variants, run, note=""):
        self.domains, self.variants, self.run, self.note = domains, variants, run, note


class C:
    """scratch experiment topology for one probe call (fresh every time: nothing leaks between cases)"""

    def __init__(self, I, keep=False):
        """keep=True: the sliver / element an entry point is applied to is created once and handed out again by every later call
        in this context - a history of calls (accepted, refused, accepted ...) then works on ONE kept object"""
        self.I = I
        self.fu = I.fu
        self.t = I.fu.ExperimentTopology()
        self._k = 0
        self.el = None              # the existing element an entry point is applied to (for read-back after a rejection)
        self.keep = keep
        self._kept = {}
        self.objs = []              # every sliver / element handed out as the target of an entry point

    def close(self):
        """the NetworkX store is one shared graph: leaving scratch topologies in it makes every later query slower"""
        try:
            self.t.graph_model.delete_graph()
        except Exception:
            pass

    def fresh(self, p="x"):
        self._k += 1
        return "%s%d" % (p, self._k)

    def node(self, **kw):
        return self.t.add_node(name=self.fresh("n"), site="S1", **kw)

    def gpu(self, n=None):
        return (n or self.node()).add_component(name=self.fresh("g"), model_type=self.fu.ComponentModelType.GPU_Tesla_T4)

    def nic(self, n=None, smart=False):
        mt = self.fu.ComponentModelType.SmartNIC_ConnectX_6 if smart else self.fu.ComponentModelType.SharedNIC_ConnectX_6
        return (n or self.node()).add_component(name=self.fresh("c"), model_type=mt)

    def iface(self, smart=False):
        return self.nic(smart=smart).interface_list[0]

    def service(self, **kw):
        return self.t.add_network_service(name=self.fresh("s"), nstype=self.fu.ServiceType.L2Bridge, interfaces=[], **kw)

    def link(self, **kw):
        a, b = self.nic(smart=True), self.nic(smart=True)
        return self.t.add_link(name=self.fresh("l"), ltype=self.fu.LinkType.Patch, interfaces=[a.interface_list[0], b.interface_list[0]], **kw)

    def elem(self, kind):
        if self.keep and ("e", kind) in self._kept:
            self.el = self._kept[("e", kind)]
            return self.el
        self.el = self._elem(kind)
        self._kept[("e", kind)] = self.el
        self.objs.append(self.el)
        return self.el

    def _elem(self, kind):
        self.el = {"Node": self.node, "Component": self.gpu, "Interface": self.iface, "NetworkService": self.service, "Link": self.link}[kind]()
        return self.el

    def sliver(self, cls):
        if self.keep and ("s", cls) in self._kept:
            return self._kept[("s", cls)]
        s = self.I.classes[cls]()
        self._kept[("s", cls)] = s
        self.objs.append(s)
        return s

    def obj(self, key, factory):
        """a value object (Labels ...) an in-place entry point is applied to: kept across the calls of a history in keep mode"""
        if self.keep and ("o", key) in self._kept:
            return self._kept[("o", key)]
        o = factory()
        self._kept[("o", key)] = o
        self.objs.append(o)
        return o

    def all_props(self):
        gm = self.t.graph_model
        try:
            ids = gm.list_all_node_ids()
        except Exception:               # an empty graph raises
            return []
        return [gm.get_node_properties(node_id=i)[1] for i in ids]


def kw(dom, val):
    return {KW_OF[dom]: val}


# ---------------------------------------------------------------- F1: slivers

def _sliver_setter(meth, dom):
    def run(c, variant, d, val):
        s = c.sliver(variant)
        getattr(s, meth)(val)
        return s
    return run


def _sliver_set_property(c, variant, dom, val):
    s = c.sliver(variant)
    s.set_property(KW_OF[dom], val)
    return s


def _sliver_set_properties(c, variant, dom, val):
    s = c.sliver(variant)
    s.set_properties(**kw(dom, val))
    return s


SV = [(s, s) for s in SLIVERS]
PROBES = {
    "BaseSliver.set_name": Probe(["name"], SV, _sliver_setter("set_name", "name")),
    "BaseSliver.set_labels": Probe(["labels"], SV[:4], _sliver_setter("set_labels", "labels")),
    "BaseSliver.set_label_allocations": Probe(["label_allocations"], SV[:2], _sliver_setter("set_label_allocations", "label_allocations")),
    "BaseSliver.set_tags": Probe(["tags"], SV[:4], _sliver_setter("set_tags", "tags")),
    "BaseSliver.set_boot_script": Probe(["boot_script"], SV[:2], _sliver_setter("set_boot_script", "boot_script")),
    "BaseSliver.set_mf_data": Probe(["json:MeasurementData"], SV[:2], _sliver_setter("set_mf_data", "mf")),
    "BaseSliver.set_user_data": Probe(["json:UserData"], SV[:2], _sliver_setter("set_user_data", "ud")),
    "BaseSliver.set_layout_data": Probe(["json:LayoutData"], SV[:2], _sliver_setter("set_layout_data", "ld")),
    "BaseSliver.set_property": Probe(["name"] + ELEM_DOMS + ["label_allocations"], SV[:5], _sliver_set_property),
    "BaseSliver.set_properties": Probe(["name"] + ELEM_DOMS + ["label_allocations"], SV[:5], _sliver_set_properties),
    "InterfaceSliver.set_peer_labels": Probe(["peer_labels"], [("InterfaceSliver", "InterfaceSliver")], _sliver_setter("set_peer_labels", "pl")),
}

# ---------------------------------------------------------------- F2-F4: Labels, Tags, JSON blobs, Gateway
# dom "labelfield": val = (field, value);  "tag": val = a tag (or list);  "blob:<Cls>": val = text or object


def _labels_ctor(c, v, d, val):
    return c.I.cl.Labels(**{val[0]: val[1]})


def _labels_setf(c, v, d, val):
    return c.obj("Labels", lambda: c.I.cl.Labels(local_name="p"))._set_fields(**{val[0]: val[1]})


def _labels_update_kw(c, v, d, val):
    Lb = c.I.cl.Labels
    base = Lb(local_name="p", vlan="7")
    r = Lb.update(base, **{val[0]: val[1]})
    if base.__dict__ != Lb(local_name="p", vlan="7").__dict__:
        raise RuntimeError("update mutated its argument")
    return r


def _labels_update_lab(c, v, d, val):
    """the copied object arrives as `lab`: a Labels object (member) or something else (must be rejected)"""
    return c.I.cl.Labels.update(val)


def _labels_from_json(c, v, d, val):
    r = c.I.cl.Labels.from_json(json.dumps({val[0]: val[1]}))
    return r


def _gateway_ctor(c, v, d, val):
    from fim.slivers.gateway import Gateway
    return Gateway(val).lab


def _gateway_from_json(c, v, d, val):
    from fim.slivers.gateway import Gateway
    base = {"ipv4": "10.0.0.1", "ipv4_subnet": "10.0.0.0/24"}
    if val[0] in ("ipv6", "ipv6_subnet"):
        base = {"ipv6": "::1", "ipv6_subnet": "::/64"}
    base[val[0]] = val[1]
    g = Gateway.from_json(json.dumps(base))
    return g.lab


def _tags_ctor(c, v, d, val):
    T = c.I.tg.Tags
    return {"arg": lambda: T(val), "list": lambda: T(["x", val]), "tuple": lambda: T(("x", val), "y")}[v]()


def _tags_from_json(c, v, d, val):
    return c.I.tg.Tags.from_json(json.dumps(["x", val]))


def _blob(cls):
    def run(c, v, d, val):
        return getattr(c.I.jd, cls or d.split(":")[1])(val)
    return run


PROBES.update({
    "Labels.__init__": Probe(["labelfield"], [("", None)], _labels_ctor),
    "Labels._set_fields": Probe(["labelfield"], [("", None)], _labels_setf),
    "JSONField.update": Probe(["labelfield", "labelsobj"], [("", None)], lambda c, v, d, val: (_labels_update_kw if d == "labelfield" else _labels_update_lab)(c, v, d, val)),
    "JSONField.from_json": Probe(["labelfield"], [("", None)], _labels_from_json),
    "Gateway.__init__": Probe(["gatewayobj"], [("", None)], _gateway_ctor),
    "Gateway.from_json": Probe(["gatewayfield"], [("", None)], _gateway_from_json),
    "Tags.__init__": Probe(["tag"], [("arg", None), ("list", None), ("tuple", None)], _tags_ctor),
    "Tags.from_json": Probe(["tag"], [("", None)], _tags_from_json),
    "JSONData.__init__": Probe(["blob:UserData", "blob:MeasurementData", "blob:LayoutData"], [("", None)], _blob(None),
                               note="abstract: driven through its three subclasses"),
    "UserData.__init__": Probe(["blob:UserData"], [("", None)], _blob("UserData")),
    "MeasurementData.__init__": Probe(["blob:MeasurementData"], [("", None)], _blob("MeasurementData")),
    "LayoutData.__init__": Probe(["blob:LayoutData"], [("", None)], _blob("LayoutData")),
})

# ---------------------------------------------------------------- F5: decoding a property dictionary
DECODE_TYPE = {"node": ("NodeSliver", "VM"), "component": ("ComponentSliver", "GPU"), "interface": ("InterfaceSliver", "SharedPort"),
               "network_service": ("NetworkServiceSliver", "L2Bridge"), "link": ("NetworkLinkSliver", "Patch")}


def enc(dom, val):
    """the text a graph property of this domain holds (what decoding starts from)"""
    base = dom.split(":")[0]
    if base in ("labelfield", "peer_labelfield"):
        return json.dumps({val[0]: val[1]})
    if base == "tag":
        return json.dumps(["x", val])
    if base == "blob":
        return val if isinstance(val, str) else json.dumps(val)
    return val


def store_key(dom):
    """domain of a case -> the stored property it lands in"""
    base = dom.split(":")[0]
    return {"labelfield": "labels", "labelsobj": "labels", "peer_labelfield": "peer_labels", "tag": "tags",
            "blob": "json:" + dom.split(":")[-1], "wjson": "json:" + dom.split(":")[-1]}.get(base, dom)


def _decode(fname, kind, nested=None):
    def run(c, v, d, val):
        from fim.graph.abc_property_graph import ABCPropertyGraph as G
        cls, ty = DECODE_TYPE[kind]
        props = {"Name": "ab", "Type": ty, "NodeID": "id1"}
        if d == "name":
            props["Name"] = val
        else:
            props[GRAPH_PROP[store_key(d)]] = enc(d, val)
        if nested:                     # the value sits on a nested element of a deep dictionary
            outer_kind, key = nested
            ocls, oty = DECODE_TYPE[outer_kind]
            props = {"Name": "outer", "Type": oty, "NodeID": "id0", key: [props]}
        f = getattr(G, fname)
        r = f(props=props) if fname.startswith("build_deep") else f(props)
        if nested:
            key = nested[1]
            if key == "components":
                r = list(r.attached_components_info.devices.values())[0]
            elif key == "network_services":
                r = list(r.network_service_info.network_services.values())[0]
            elif key == "interfaces":
                r = list(r.interface_info.interfaces.values())[0]
        return r
    return run


def _set_base(c, v, d, val):
    from fim.graph.abc_property_graph import ABCPropertyGraph as G
    cls, ty = DECODE_TYPE[v]
    props = {"Name": "ab", "Type": ty}
    if d == "name":
        props["Name"] = val
    else:
        props[GRAPH_PROP[store_key(d)]] = enc(d, val)
    s = c.sliver(cls)
    G.set_base_sliver_properties_from_graph_properties_dict(s, props)
    return s


DEC_DOMS = ["name", "labelfield", "tag", "boot_script", "blob:UserData", "blob:MeasurementData", "blob:LayoutData"]
PROBES.update({
    "ABCPropertyGraph.node_sliver_from_graph_properties_dict": Probe(DEC_DOMS, [("node", "NodeSliver")], _decode("node_sliver_from_graph_properties_dict", "node")),
    "ABCPropertyGraph.component_sliver_from_graph_properties_dict": Probe(DEC_DOMS, [("component", "ComponentSliver")], _decode("component_sliver_from_graph_properties_dict", "component")),
    "ABCPropertyGraph.interface_sliver_from_graph_properties_dict": Probe(DEC_DOMS + ["peer_labelfield"], [("interface", "InterfaceSliver")], _decode("interface_sliver_from_graph_properties_dict", "interface")),
    "ABCPropertyGraph.network_service_sliver_from_graph_properties_dict": Probe(DEC_DOMS, [("network_service", "NetworkServiceSliver")], _decode("network_service_sliver_from_graph_properties_dict", "network_service")),
    "ABCPropertyGraph.link_sliver_from_graph_properties_dict": Probe(DEC_DOMS, [("link", "NetworkLinkSliver")], _decode("link_sliver_from_graph_properties_dict", "link")),
    "ABCPropertyGraph.set_base_sliver_properties_from_graph_properties_dict": Probe(DEC_DOMS, [(k, v[0]) for k, v in sorted(DECODE_TYPE.items())], _set_base),
    "ABCPropertyGraph.build_deep_node_sliver_from_dict": Probe(DEC_DOMS, [("node", "NodeSliver"), ("component", "ComponentSliver"), ("network_service", "NetworkServiceSliver")],
                                                              lambda c, v, d, val: _decode("build_deep_node_sliver_from_dict", v, None if v == "node" else ("node", v + "s"))(c, v, d, val)),
    "ABCPropertyGraph.build_deep_component_sliver_from_dict": Probe(DEC_DOMS, [("component", "ComponentSliver"), ("network_service", "NetworkServiceSliver")],
                                                                   lambda c, v, d, val: _decode("build_deep_component_sliver_from_dict", v, None if v == "component" else ("component", "network_services"))(c, v, d, val)),
    "ABCPropertyGraph.build_deep_ns_sliver_from_dict": Probe(DEC_DOMS, [("network_service", "NetworkServiceSliver"), ("interface", "InterfaceSliver")],
                                                            lambda c, v, d, val: _decode("build_deep_ns_sliver_from_dict", v, None if v == "network_service" else ("network_service", "interfaces"))(c, v, d, val)),
    "ABCPropertyGraph.build_deep_interface_sliver_from_dict": Probe(DEC_DOMS, [("interface", "InterfaceSliver"), ("child", "InterfaceSliver")],
                                                                   lambda c, v, d, val: _decode("build_deep_interface_sliver_from_dict", "interface", None if v == "interface" else ("interface", "interfaces"))(c, v, d, val)),
    "ABCPropertyGraph.build_deep_link_sliver_from_dict": Probe(DEC_DOMS, [("link", "NetworkLinkSliver")], _decode("build_deep_link_sliver_from_dict", "link")),
})

# ---------------------------------------------------------------- F6: properties of an existing model element
EV = sorted(ELEMS.items())


def _assign(attr):
    def run(c, v, d, val):
        el = c.elem(v)
        setattr(el, attr, val)
        return el
    return run


def _rename(c, v, d, val):
    el = c.elem(v)
    el.rename(val)
    return el


def _update_labels(c, v, d, val):
    el = c.elem(v)
    el.update_labels(**{val[0]: val[1]})
    return el


def _el_set_property(kind):
    def run(c, v, d, val):
        el = c.elem(kind)
        el.set_property(KW_OF[d], val)
        return el
    return run


def _el_set_properties(kind):
    def run(c, v, d, val):
        el = c.elem(kind)
        el.set_properties(**kw(d, val))
        return el
    return run


PROBES.update({
    "ModelElement.name.setter": Probe(["name"], EV, _assign("name")),
    "ModelElement.rename": Probe(["name"], EV, _rename),
    "ModelElement.labels.setter": Probe(["labels"], EV, _assign("labels")),
    "ModelElement.tags.setter": Probe(["tags"], EV, _assign("tags")),
    "ModelElement.boot_script.setter": Probe(["boot_script"], EV[:3], _assign("boot_script")),
    "ModelElement.mf_data.setter": Probe(["wjson:MeasurementData"], EV[:3], _assign("mf_data")),
    "ModelElement.user_data.setter": Probe(["wjson:UserData"], EV, _assign("user_data")),
    "ModelElement.layout_data.setter": Probe(["wjson:LayoutData"], EV[:3], _assign("layout_data")),
    "ModelElement.update_labels": Probe(["labelfield"], EV, _update_labels),
    "Interface.peer_labels.setter": Probe(["peer_labels"], [("Interface", "InterfaceSliver")], _assign("peer_labels")),
})
for _k, _cls in EV:
    _doms = ["name"] + ELEM_DOMS + (["peer_labels"] if _k == "Interface" else [])
    PROBES["%s.set_property" % _k] = Probe(_doms, [(_k, _cls)], _el_set_property(_k))
    PROBES["%s.set_properties" % _k] = Probe(_doms, [(_k, _cls)], _el_set_properties(_k))

# ---------------------------------------------------------------- F7: creating elements
# `name` arrives as the name parameter; the other domains as keyword arguments


def _nm(c, d, val, p="e"):
    return val if d == "name" else c.fresh(p)


def _extra(d, val):
    return {} if d == "name" else kw(d, val)


def _add_node(c, v, d, val):
    return c.t.add_node(name=_nm(c, d, val), site="S1", **_extra(d, val))


def _node_init(c, v, d, val):
    fu = c.fu
    from fim.user.model_element import ElementType
    from fim.user.node import Node
    return Node(name=_nm(c, d, val), topo=c.t, etype=ElementType.NEW, ntype=fu.NodeType.VM, site="S1", **_extra(d, val))


def _model_types(c):
    return {"gpu": c.fu.ComponentModelType.GPU_Tesla_T4, "nic": c.fu.ComponentModelType.SharedNIC_ConnectX_6,
            "snic": c.fu.ComponentModelType.SmartNIC_ConnectX_6}


def _add_component(c, v, d, val):
    return c.node().add_component(name=_nm(c, d, val), model_type=_model_types(c)[v], **_extra(d, val))


def _component_init(c, v, d, val):
    from fim.user.model_element import ElementType
    n = c.node()
    from fim.user.component import Component
    return Component(name=_nm(c, d, val), topo=c.t, etype=ElementType.NEW, comp_model=_model_types(c)[v], parent_node_id=n.node_id,
                          **_extra(d, val))


def _generate_component(c, v, d, val):
    from fim.slivers.component_catalog import ComponentCatalog
    return ComponentCatalog().generate_component(name=val, model_type=_model_types(c)[v], parent_name="n1")


def _add_storage(c, v, d, val):
    return c.node().add_storage(name=_nm(c, d, val), **_extra(d, val))


def _node_add_ns(c, v, d, val):
    return c.node().add_network_service(name=_nm(c, d, val), nstype=c.fu.ServiceType.OVS, **_extra(d, val))


def _add_ns(c, v, d, val):
    ifs = [] if v == "empty" else [c.iface(), c.iface()]
    return c.t.add_network_service(name=_nm(c, d, val), nstype=c.fu.ServiceType.L2Bridge, interfaces=ifs, **_extra(d, val))


def _ns_init(c, v, d, val):
    from fim.user.model_element import ElementType
    from fim.user.network_service import NetworkService
    return NetworkService(name=_nm(c, d, val), topo=c.t, etype=ElementType.NEW, nstype=c.fu.ServiceType.L2Bridge, **_extra(d, val))


def _ns_add_interface(c, v, d, val):
    sv = c.node().add_network_service(name=c.fresh("s"), nstype=c.fu.ServiceType.OVS)
    return sv.add_interface(name=_nm(c, d, val), itype=c.fu.InterfaceType.TrunkPort, **_extra(d, val))


def _iface_init(c, v, d, val):
    from fim.user.model_element import ElementType
    sv = c.node().add_network_service(name=c.fresh("s"), nstype=c.fu.ServiceType.OVS)
    from fim.user.interface import Interface
    return Interface(name=_nm(c, d, val), topo=c.t, etype=ElementType.NEW, parent_node_id=sv.node_id,
                          itype=c.fu.InterfaceType.TrunkPort, **_extra(d, val))


def _add_child(c, v, d, val):
    i = c.iface(smart=True)
    Lb = c.I.cl.Labels
    if d == "labels":             # a sub-interface has to carry a vlan
        if isinstance(val, Lb) and val.vlan is None:
            val = Lb.update(val, vlan="100")
        return i.add_child_interface(name=c.fresh("ch"), labels=val)
    return i.add_child_interface(name=_nm(c, d, val), labels=Lb(vlan="100"), **_extra(d, val))


def _add_link(c, v, d, val):
    a, b = c.nic(smart=True), c.nic(smart=True)
    return c.t.add_link(name=_nm(c, d, val), ltype=c.fu.LinkType.Patch, interfaces=[a.interface_list[0], b.interface_list[0]], **_extra(d, val))


def _link_init(c, v, d, val):
    from fim.user.model_element import ElementType
    a, b = c.nic(smart=True), c.nic(smart=True)
    from fim.user.link import Link
    return Link(name=_nm(c, d, val), topo=c.t, etype=ElementType.NEW, ltype=c.fu.LinkType.Patch,
                     interfaces=[a.interface_list[0], b.interface_list[0]], **_extra(d, val))


def _add_pm(c, v, d, val):
    to = c.iface(smart=True)
    return c.t.add_port_mirror_service(name=_nm(c, d, val), from_interface_name="p1", to_interface=to, **_extra(d, val))


def _pm_init(c, v, d, val):
    from fim.user.model_element import ElementType
    from fim.user.network_service import PortMirrorService
    to = c.iface(smart=True)
    return PortMirrorService(name=_nm(c, d, val), topo=c.t, etype=ElementType.NEW, from_interface_name="p1", to_interface=to, **_extra(d, val))


def _add_facility(c, v, d, val):
    """variants: node (name / kwargs go to the single interface), nslabels, iflist (interfaces=[(name, labels, capacities)])"""
    t = c.t
    if v == "nslabels":
        f = t.add_facility(name=c.fresh("f"), site="S2", nslabels=val)
        return list(f.network_services.values())[0]
    if v == "iflist":
        Lb = c.I.cl.Labels
        if d == "name":
            f = t.add_facility(name=c.fresh("f"), site="S2", interfaces=[(val, Lb(vlan="10"), None)])
        else:
            f = t.add_facility(name=c.fresh("f"), site="S2", interfaces=[("fi1", val, None)])
        return f.interface_list[0]
    if d == "name":
        return t.add_facility(name=val, site="S2")
    f = t.add_facility(name=c.fresh("f"), site="S2", **kw(d, val))
    return f.interface_list[0]


def _add_switch(c, v, d, val):
    t = c.t
    if v == "nslabels":
        s = t.add_switch(name=c.fresh("w"), site="S3", nports=1, nslabels=val)
        return list(s.network_services.values())[0]
    if v == "portlabels":
        s = t.add_switch(name=c.fresh("w"), site="S3", nports=2, portlabels=val)
        return s.interface_list[1]
    return t.add_switch(name=val, site="S3", nports=1)


def _peer(c, v, d, val):
    a = c.t.add_network_service(name=c.fresh("s"), nstype=c.fu.ServiceType.L3VPN, interfaces=[])
    b = c.t.add_network_service(name=c.fresh("s"), nstype=c.fu.ServiceType.L3VPN, interfaces=[])
    a.peer(b, **kw(d, val))
    return a.interface_list[0]


def _composite_init(c, v, d, val):
    """a handle on an existing node: whatever name it is given, the graph is not written"""
    n = c.node()
    before = c.I.raw_props(n)
    from fim.user.composite_node import CompositeNode
    h = CompositeNode(name=val, node_id=n.node_id, topo=c.t)
    if c.I.raw_props(n) != before:
        raise AssertionError("constructing a handle changed the stored element")
    return ("handle", h, n)


COMP_V = [("gpu", "ComponentSliver"), ("nic", "ComponentSliver"), ("snic", "ComponentSliver")]
ALLD = ["name"] + ELEM_DOMS
PROBES.update({
    "Topology.add_node": Probe(ALLD, [("", "NodeSliver")], _add_node),
    "Node.__init__": Probe(ALLD, [("", "NodeSliver")], _node_init),
    "Node.add_component": Probe(ALLD, COMP_V, _add_component),
    "Component.__init__": Probe(ALLD, COMP_V, _component_init),
    "ComponentCatalog.generate_component": Probe(["name"], COMP_V, _generate_component),
    "Node.add_storage": Probe(ALLD, [("", "ComponentSliver")], _add_storage),
    "Node.add_network_service": Probe(ALLD, [("", "NetworkServiceSliver")], _node_add_ns),
    "Topology.add_network_service": Probe(ALLD, [("empty", "NetworkServiceSliver"), ("two", "NetworkServiceSliver")], _add_ns),
    "NetworkService.__init__": Probe(ALLD, [("", "NetworkServiceSliver")], _ns_init),
    "NetworkService.add_interface": Probe(ALLD + ["peer_labels"], [("", "InterfaceSliver")], _ns_add_interface),
    "Interface.__init__": Probe(ALLD + ["peer_labels"], [("", "InterfaceSliver")], _iface_init),
    "Interface.add_child_interface": Probe(["name", "tags", "json:UserData", "labels"], [("", "InterfaceSliver")], _add_child),
    "Topology.add_link": Probe(ALLD, [("", "NetworkLinkSliver")], _add_link),
    "Link.__init__": Probe(ALLD, [("", "NetworkLinkSliver")], _link_init),
    "ExperimentTopology.add_port_mirror_service": Probe(ALLD, [("", "NetworkServiceSliver")], _add_pm),
    "PortMirrorService.__init__": Probe(ALLD, [("", "NetworkServiceSliver")], _pm_init),
    "Topology.add_facility": Probe(ALLD, [("node", "NodeSliver"), ("nslabels", None), ("iflist", "InterfaceSliver")], _add_facility),
    "Topology.add_switch": Probe(["name", "labels"], [("node", "NodeSliver"), ("nslabels", None), ("portlabels", None)], _add_switch),
    "NetworkService.peer": Probe(ELEM_DOMS + ["peer_labels"], [("", None)], _peer),
    "CompositeNode.__init__": Probe(["name"], [("", "NodeSliver")], _composite_init),
})

EXEMPT = {
    "ModelElement.__init__": "abstract constructor; reached through the constructors of Node / Component / Interface / NetworkService / Link, all probed",
}


def overridden(entry, dom, spec):
    """cases where the entry point documents that it replaces the given value"""
    return entry == "Interface.add_child_interface" and dom == "labels" and spec.get("f") == "local_name"   # takes the parent's local_name


# which (variant, domain) combinations an entry point's probe does not take
def applicable(entry, variant, dom):
    if entry == "Topology.add_facility":
        return {"node": dom != "labels" or True, "nslabels": dom == "labels", "iflist": dom in ("name", "labels")}[variant]
    if entry == "Topology.add_switch":
        return {"node": dom == "name", "nslabels": dom == "labels", "portlabels": dom == "labels"}[variant]
    return True


# ---------------------------------------------------------------- derived names (the known design decision)

def derived_ok(entry, variant, s):
    """names that the entry point derives from `s` and validates against another class's pattern"""
    ns = L.NAME_DOMAIN["NetworkServiceSliver"]
    itf = L.NAME_DOMAIN["InterfaceSliver"]
    if entry in ("Node.add_component", "Component.__init__", "ComponentCatalog.generate_component") and variant in ("nic", "snic"):
        parent = "n1"                      # C.node() names are n<k>: two characters for the first node of a fresh topology
        return ns(parent + "-" + s + "-l2ovs") and itf(s + "-p1") and itf(s + "-p2" if variant == "snic" else s + "-p1")
    if entry == "Topology.add_facility" and variant == "node":
        return ns(s + "-ns") and itf(s + "-int")
    if entry == "Topology.add_switch" and variant == "node":
        return ns(s + "-ns")
    if entry == "Topology.add_network_service" and variant == "two":
        return True
    return True
