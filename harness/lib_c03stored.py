"""C03 - the codec values where the model STORES them, and handles that outlive a phase change (mixed into props/c03.Oracle).

Two families that the value-level oracles (encode / decode / aliasing of one value object) cannot see:

 (1) `stored` - "every structured attribute value the model stores as text ... decodes from its own encoding to an equal value
     (a value with nothing set is encoded as empty text and read back as absent)" observed at the level where the model stores
     the text: a model element (node, component, interface, network service, link) of a topology.  Every write path of an
     element (set_property, set_properties with one / several keywords, attribute assignment, update_capacities / update_labels,
     unset_property, set_property(.., None)) goes through helpers OUTSIDE the codec modules (sliver property tables, the
     property-graph layer's *_sliver_to_graph_properties_dict / update_node_properties / *_from_graph_properties_dict).  The case
     is a HISTORY of writes to one attribute (values with nothing set, falsy-but-valid fields, None between full values);
     after every write the attribute is read back through every read path (get_property, attribute, get_sliver(), the raw stored
     text decoded by the class's own from_json, and after serialize() + load).  Expectation, order free and stated on the
     encodings only:   enc(read) == enc(last value written)   ('' - absent - when the value has nothing set or was unset),
     i.e. what is read depends on the LAST write only, never on what the attribute held before.
     Signatures: C03:<Class>:stored:<element>.<prop>:<read path>:<why>, why in
       stale-value (an earlier write shows), lost (absent although set), not-absent, differs, raises:<kind>.

 (2) `phase_mi` - "a finalized maintenance record cannot be altered" for handles taken BEFORE the record was finalized.
     While a record is being built get()/list_details()/iter() hand out the record's own entries (by reference: that is how it
     is edited in place), and the caller still holds the entry objects it gave to add() and the dict it gave to _set().  Every
     route into the finalized state (finalize(), NodeSliver.set_maintenance_info / set_property / set_properties, assignment to a
     topology node, from_json) must cut all of them: after the phase change every kept handle is scrambled in place and the
     record is observed again (encoding, entries, every reader, ==/decode of the first encoding).
     Signatures: C03:MaintenanceInfo:alias:pre-finalize-<handle>:<route>:value-changed.
"""
import copy
import json
from datetime import datetime


def _P():
    from props import c03
    return c03


# attribute of a model element -> codec class that is stored there
PROP_CLASS = {
    "capacities": "Capacities", "capacity_allocations": "Capacities", "capacity_hints": "CapacityHints",
    "labels": "Labels", "label_allocations": "Labels", "peer_labels": "Labels",
    "reservation_info": "ReservationInfo", "structural_info": "StructuralInfo", "location": "Location", "flags": "Flags",
    "tags": "Tags", "mf_data": "MeasurementData", "user_data": "UserData", "layout_data": "LayoutData",
    "gateway": "Gateway", "path_info": "PathInfo", "ero": "ERO", "maintenance_info": "MaintenanceInfo",
}
ELEMENTS = ["node", "component", "interface", "service", "link"]
READS = ["get_property", "attribute", "sliver", "stored-text", "reload"]


def build_topology():
    """a small experiment topology with one element of every kind: {kind: element}"""
    from fim.user.topology import ExperimentTopology
    from fim.user.component import ComponentType
    from fim.user.network_service import ServiceType
    t = ExperimentTopology()
    n1 = t.add_node(name="n1", site="RENC")
    n2 = t.add_node(name="n2", site="UKY")
    c1 = n1.add_component(name="nic1", ctype=ComponentType.SmartNIC, model="ConnectX-6")
    c2 = n2.add_component(name="nic1", ctype=ComponentType.SmartNIC, model="ConnectX-6")
    i1, i2 = sorted(c1.interface_list, key=lambda i: i.name)[0], sorted(c2.interface_list, key=lambda i: i.name)[0]
    s = t.add_network_service(name="s1", nstype=ServiceType.L2PTP, interfaces=[i1, i2])
    links = list(t.links.values())
    return t, {"node": n1, "component": c1, "interface": i1, "service": s, "link": links[0] if links else None}


_SHARED = []


def shared_topology():
    """one topology per process (building one per case is what costs); every case starts by clearing its attribute"""
    if not _SHARED:
        _SHARED.append(build_topology())
    return _SHARED[0]


def drop(t):
    try:
        t.graph_model.delete_graph()
    except Exception:
        pass


def find_again(t, kind):
    """the same element of a topology loaded from the serialized text"""
    if kind == "node":
        return t.nodes["n1"]
    if kind == "component":
        return t.nodes["n1"].components["nic1"]
    if kind == "interface":
        return sorted(t.nodes["n1"].components["nic1"].interface_list, key=lambda i: i.name)[0]
    if kind == "service":
        return t.network_services["s1"]
    return sorted(t.links.values(), key=lambda l: l.name)[0]


def props_of(el):
    try:
        return set(el.list_properties())
    except Exception:
        return set()


def value_build(M, cname, spec):
    """spec (JSON): None | kw-wire for a JSONField class / Gateway | [tag..] | JSON text | [ero, a2z, z2a] | [[name, entry]..]"""
    P = _P()
    cl, tg, jd, gw, pi, mm, tt = M
    if spec is None:
        return None
    if cname == "Tags":
        return tg.Tags(*spec)
    if cname in ("MeasurementData", "UserData", "LayoutData"):
        return getattr(jd, cname)(spec)
    if cname == "Gateway":
        return gw.Gateway(cl.Labels(**P.from_wire(spec)))
    if cname in ("PathInfo", "ERO"):
        x = (pi.ERO if cname == "ERO" else pi.PathInfo)()
        if spec:
            p = pi.Path()
            p.set(a2z=spec[0], z2a=spec[1])
            x.set(p)
        return x
    if cname == "MaintenanceInfo":
        m = mm.MaintenanceInfo()
        for nm, e in spec:
            m.add(nm, P.entry_build(mm, e))
        return m
    return getattr(cl, cname)(**P.from_wire(spec))


def enc(v):
    """the text the value is stored as ('' = absent)"""
    if v is None:
        return ""
    if hasattr(v, "json") and not hasattr(v, "to_json"):
        return json.dumps(json.loads(v.json), sort_keys=True)      # JSONData: the value is the parsed text
    if isinstance(v, (dict, list)):
        return json.dumps(v, sort_keys=True)                        # ... and elements hand out the parsed value
    if type(v).__name__ == "MaintenanceInfo" and not v._lock:
        v = v.copy()
        v.finalize()
    t = v.to_json()
    return "" if t is None else t


def value_specs(M, cname):
    """deterministic specs of a class: nothing set, one field, falsy-but-valid fields, several fields"""
    P = _P()
    cl = M[0]
    D = P.DATES
    if cname == "Tags":
        return [[], ["a"], ["a", "b-c", "0"]]
    if cname in ("MeasurementData", "UserData", "LayoutData"):
        return ["{}", '{"a": 1}', '{"b": [0, "", null], "a": {"k": false}}', "[]"]
    if cname == "Gateway":
        return [{"o": [["ipv4_subnet", "10.1.1.0/24"], ["ipv4", "10.1.1.1"]]}, {"o": [["ipv6_subnet", "fd00::/64"], ["ipv6", "fd00::1"]]},
                {"o": [["ipv4_subnet", "192.168.0.0/16"], ["ipv4", "192.168.0.1"], ["mac", "00:11:22:33:44:55"]]}]
    if cname in ("PathInfo", "ERO"):
        return [None, [["a", "b"], ["b", "a"]], [[], []], [["x"], ["y", "z"]]]
    if cname == "MaintenanceInfo":
        e1 = ["Maint", D[3].isoformat(), None]
        return [[], [["n1", e1]], [["RENC", ["Active", None, None]], ["", ["PreMaint", D[0].isoformat(), D[1].isoformat()]]]]
    C = getattr(cl, cname)
    ck = [kw for kw in P.corner_kwargs(cl, C)]
    names = list(C().__dict__)
    full = {}
    for kw in ck:
        for k, v in kw.items():
            if k not in full and v not in (0, "", [], False, 0.0):
                full[k] = v
    out = [{}]
    zero = [kw for kw in ck if kw and list(kw.values())[0] in (0, "", [], False)][:3]
    one = [kw for kw in ck if kw and list(kw.values())[0] not in (0, "", [], False)]
    out += one[:2] + zero + one[-1:]
    if len(full) > 1:
        out.append({k: full[k] for k in list(full)[:3]})
        out.append(full)
    seen, res = set(), []
    for kw in out:
        w = P.to_wire(kw)
        s = json.dumps(w, sort_keys=True)
        if s not in seen:
            seen.add(s)
            res.append(w)
    return res


HOW = ["set", "sets", "attr"]


def stored_battery(M, B, full=False):
    """histories of writes to one attribute of one element: full value, then nothing-set / falsy / None / other full value.
    full=False: the core of it (three histories per element and attribute) - what every fresh process runs."""
    t, els = build_topology()
    try:
        _stored_battery(M, B, els, full)
    finally:
        drop(t)


def _stored_battery(M, B, els, full):
    for kind in ELEMENTS:
        el = els.get(kind)
        if el is None:
            continue
        have = props_of(el)
        for prop, cname in PROP_CLASS.items():
            if prop not in have:
                continue
            specs = value_specs(M, cname)
            nonempty = [s for s in specs if enc_of(M, cname, s)]
            empty = [s for s in specs if not enc_of(M, cname, s)]
            hist = []
            a = nonempty[0] if nonempty else None
            b = nonempty[-1] if nonempty else None
            for i, how in enumerate(HOW):
                for e in empty[:2] + [None]:
                    if a is not None:
                        hist.append([[how, a], [HOW[(i + 1) % 3], e], ["set", b], [how, e]])   # value, nothing set, other value, nothing set
                    hist.append([[how, e], [how, e]])
            for s in specs:
                hist.append([["set", s]])
                if a is not None:
                    hist.append([["sets", a], ["attr", s], ["set", a]])
            if a is not None:
                hist.append([["set", a], ["unset"], ["set", b], ["set", None]])
            if cname == "Capacities" and prop == "capacities":
                hist += [[["set", {"o": [["core", 4]]}], ["update", {"core": 0}]], [["update", {"core": 0}], ["update", {"ram": 2}], ["update", {"ram": 0}]],
                         [["set", {"o": [["core", 4], ["ram", 8]]}], ["update", {"core": 0}], ["update", {"ram": 0}], ["update", {"disk": 1}]]]
            if cname == "Labels" and prop == "labels":
                hist += [[["set", {"o": [["vlan", "100"]]}], ["update", {"vlan": "7"}]], [["update", {"bdf": "0000:41:00.0"}], ["update", {"mac": "00:11:22:33:44:55"}]],
                         [["set", {"o": [["vlan_range", []]]}], ["update", {"vlan": "7"}], ["set", {"o": []}], ["update", {"vlan": "8"}]]]
            g = cname
            if not full:
                hist = hist[:2] + hist[-1:]
            for i, h in enumerate(hist):
                B.setdefault(g, []).append({"kind": "stored", "element": kind, "prop": prop, "class": cname, "steps": h, "reload": i % 8 == 0 and (full or kind == "node")})


_ENC = {}


def enc_of(M, cname, spec):
    k = (cname, json.dumps(spec, sort_keys=True))
    if k not in _ENC:
        try:
            _ENC[k] = enc(value_build(M, cname, spec))
        except Exception:
            _ENC[k] = "?"
    return _ENC[k]


def stored_random(M, rng, n):
    t, els = build_topology()
    out = []
    pairs = [(k, p, c) for k in ELEMENTS if els.get(k) is not None for p, c in PROP_CLASS.items() if p in props_of(els[k])]
    drop(t)
    P = _P()
    cl = M[0]
    for _ in range(max(n // 25, 20)):
        kind, prop, cname = rng.choice(pairs)
        specs = value_specs(M, cname)
        if hasattr(cl, cname) and rng.random() < 0.5:
            C = getattr(cl, cname)
            try:
                specs = specs + [P.to_wire(P.domain_kwargs(cl, C, rng)) for _ in range(3)]
            except Exception:
                pass
        steps = []
        for _ in range(rng.choice([2, 3, 4, 6])):
            r = rng.random()
            if r < 0.1:
                steps.append(["unset"])
            elif r < 0.2:
                steps.append([rng.choice(HOW), None])
            else:
                steps.append([rng.choice(HOW), rng.choice(specs)])
        out.append({"kind": "stored", "element": kind, "prop": prop, "class": cname, "steps": steps, "reload": rng.random() < 0.3})
    return out


def mi_phase_battery(M, B):
    P = _P()
    D = P.DATES
    e1 = ["Maint", D[3].isoformat(), None]
    e2 = ["PreMaint", D[0].isoformat(), D[1].isoformat()]
    for es in [[["n1", e1]], [["node1", e2], ["node2", ["Active", None, None]]], [["", e1], ["é", e2], ["ALL", ["Unknown", None, D[2].isoformat()]]]]:
        for route in MI_ROUTES:
            B.setdefault("MaintenanceInfo", []).append({"kind": "phase_mi", "entries": es, "route": route})


MI_ROUTES = ["finalize", "sliver-setter", "sliver-set_property", "sliver-set_properties", "node-attribute", "node-set_property", "set-dict"]


class StoredOracle:
    """mixin for props.c03.Oracle: self.M (modules), self.res, self.bad(sig, what, case, **kw)"""

    def stored(self, c):
        made = []
        try:
            self._stored(c, made)
        finally:
            for t in made:                   # every topology of the process lives in one graph store: give it back
                drop(t)

    def _stored(self, c, made):
        P = _P()
        M = self.M
        kind, prop, cname = c["element"], c["prop"], c["class"]
        where = "%s.%s" % (kind, prop)

        def bad(path, why, what, **kw):
            self.bad("%s:stored:%s:%s:%s" % (cname, where, path, why), what, c, **kw)
        try:
            t, els = shared_topology()
            el = els[kind]
            C = self.codec_class(cname)
            gname = t.graph_model.map_sliver_property_to_graph(prop)
            if t.graph_model.get_node_properties(node_id=el.node_id)[1].get(gname) is not None:
                el.unset_property(prop)          # the elements are shared by the cases of a process: start from 'absent'
        except Exception as e:
            bad("setup", "raises:" + P.kind(e), "cannot build the topology")
            return
        written = []          # encodings written so far
        pobj = getattr(type(el), prop, None)
        has_setter = isinstance(pobj, property) and pobj.fset is not None
        for si, st in enumerate(c["steps"]):
            op = st[0]
            if op == "attr" and not has_setter:
                op = "set"                    # no attribute of that name on this kind of element
            if op == "sets" and st[1] is None:
                op = "set"                    # set_properties(x=None) is documented as 'not given'
            if (op == "unset" or (op in ("set", "attr") and st[1] is None)) and (not written or written[-1] == ""):
                self.res.count("oracle:stored:skipped:unset-of-absent")      # unsetting what is not there is an error of the graph layer
                continue
            try:
                if op == "unset":
                    el.unset_property(prop)
                    want = ""
                elif op == "update":
                    cur = getattr(el, prop)
                    kw = st[1]
                    base = cur if cur is not None else C()
                    want = enc(C.update(copy.deepcopy(base), **kw)) if cur is not None else enc(C(**kw))
                    (el.update_capacities if prop == "capacities" else el.update_labels)(**kw)
                else:
                    v = value_build(M, cname, st[1])
                    want = enc(v)
                    if op == "set":
                        el.set_property(prop, v)
                    elif op == "sets":
                        el.set_properties(**{prop: v})
                    else:
                        setattr(el, prop, v)
            except Exception as e:
                bad("write-" + op, "raises:" + P.kind(e), "step %d: writing a valid value raises %s: %s" % (si, type(e).__name__, str(e)[:100]))
                return
            self.res.count("oracle:stored:%s:%s" % (op, "nothing-set" if want == "" else "value"))
            reads = {}
            try:
                reads["get_property"] = enc(el.get_property(prop))
                reads["attribute"] = enc(getattr(el, prop)) if hasattr(type(el), prop) or prop in ("capacities", "labels") else reads["get_property"]
                reads["sliver"] = enc(el.get_sliver().get_property(prop))
                raw = t.graph_model.get_node_properties(node_id=el.node_id)[1].get(gname)
                reads["stored-text"] = "" if raw is None else enc(C.from_json(raw)) if hasattr(C, "from_json") else enc(C(raw)) if raw != "" else ""
                if c.get("reload") and si == len(c["steps"]) - 1:
                    from fim.user.topology import ExperimentTopology
                    made.append(t)                  # the loaded copy has the graph id of the original: neither is used again
                    del _SHARED[:]
                    t2 = ExperimentTopology(graph_string=t.serialize())
                    reads["reload"] = enc(find_again(t2, kind).get_property(prop))
            except Exception as e:
                bad("read", "raises:" + P.kind(e), "step %d: reading the attribute back raises %s: %s" % (si, type(e).__name__, str(e)[:100]))
                return
            for path, got in reads.items():
                if got == want:
                    continue
                if got != "" and got in written and (want == "" or got != want):
                    why = "stale-value"
                    what = "an earlier value of the attribute is read back instead of the value written last"
                elif got == "":
                    why, what = "lost", "the value written is read back as absent"
                elif want == "":
                    why, what = "not-absent", "a value with nothing set (or an unset attribute) is not read back as absent"
                else:
                    why, what = "differs", "the value read back is not the value written"
                bad(path, why, "step %d (%s): %s" % (si, op, what), expected=want, observed=got)
                return
            written.append(want)

    def codec_class(self, cname):
        cl, tg, jd, gw, pi, mm, tt = self.M
        for m in (cl, tg, jd, gw, pi, mm):
            if hasattr(m, cname):
                return getattr(m, cname)
        raise KeyError(cname)

    # ------------------------------------------------------------------ handles that outlive finalize
    def alias_mi_phase(self, c):
        P = _P()
        mm = self.M[5]
        entries, route = [tuple(e) for e in c["entries"]], c["route"]
        S = list(mm.MaintenanceState)

        def scramble(e):
            e.state = S[(S.index(e.state) + 1) % len(S)] if e.state in S else S[0]
            e.deadline = None if e.deadline is not None else datetime(1999, 9, 9, 9, 9, 9)
            e.expected_end = datetime(2001, 1, 1) if e.expected_end is None else None

        def sig(handle, why="value-changed"):
            return "MaintenanceInfo:alias:pre-finalize-%s:%s:%s" % (handle, route, why)
        made = []
        try:
            built = [(nm, P.entry_build(mm, wv)) for nm, wv in entries]
            m = mm.MaintenanceInfo()
            given = None
            if route == "set-dict":
                given = {nm: e for nm, e in built}
                m._set(given)
            else:
                for nm, e in built:
                    m.add(nm, e)
            # handles of the record under construction
            handles = {"add-arg": [e for _, e in built]}
            for hname, take in (("get", lambda: [m.get(nm) for nm, _ in built]), ("list_details", lambda: [e for _, e in m.list_details()]),
                                ("iter", lambda: [e for _, e in m.iter()]), ("copy", lambda: [m.copy().get(nm) for nm, _ in built]),
                                ("nodes-values", lambda: list(m._nodes.values()))):
                try:
                    handles[hname] = take()
                except mm.MaintenanceModeException:
                    self.res.count("oracle:alias:MaintenanceInfo:pre-finalize-%s:refused" % hname)      # reader refuses an unfinalized record
            # the phase change
            holder = m
            if route in ("finalize", "set-dict"):
                m.finalize()
            elif route.startswith("sliver"):
                from fim.slivers.network_node import NodeSliver
                ns = NodeSliver()
                if route == "sliver-setter":
                    ns.set_maintenance_info(m)
                elif route == "sliver-set_property":
                    ns.set_property("maintenance_info", m)
                else:
                    ns.set_properties(maintenance_info=m)
                holder = ns.get_maintenance_info()
            else:
                t, els = build_topology()
                made.append(t)
                n = els["node"]
                if route == "node-attribute":
                    n.maintenance_info = m
                else:
                    n.set_property("maintenance_info", m)
                holder = None

            def obs():
                w = holder if holder is not None else n.maintenance_info
                return [w.to_json(), P.mi_wire(w), w.list_names(), [[k, P.entry_wire(e)] for k, e in w.list_details()],
                        [[k, P.entry_wire(e)] for k, e in w.iter()], [P.entry_wire(w.get(nm)) for nm, _ in built], str(w)]
            o0 = obs()
            if holder is not None and holder._lock is not True:
                self.bad(sig("state", "not-finalized"), "the record is not finalized after %s" % route, c)
            t0 = o0[0]
            for hname, hs in handles.items():
                for e in hs:
                    if e is not None:
                        scramble(e)
                now = obs()
                if now != o0:
                    self.bad(sig(hname), "an entry handle obtained from %s() while the record was being built still reaches the record after it was "
                             "finalized (%s): changing the handle changed the finalized record / its encoding" % (hname, route), c,
                             expected=P.srepr(o0), observed=P.srepr(now))
                    return
                self.res.count("oracle:alias:independent:MaintenanceInfo:pre-finalize-%s:%s" % (hname, route))
            if given is not None:
                given["zz"] = P.entry_build(mm, ["Active", None, None])
                given.pop(built[0][0], None)
                now = obs()
                if now != o0:
                    self.bad(sig("set-arg-dict"), "the dictionary given to _set() still reaches the finalized record", c, expected=P.srepr(o0), observed=P.srepr(now))
                    return
            y = mm.MaintenanceInfo.from_json(t0)
            if y is None or y.to_json() != obs()[0]:
                self.bad(sig("final", "encoding-changed"), "the finalized record no longer decodes from / encodes to its first encoding", c)
        except Exception as e:
            self.bad(sig("history", "raises:" + P.kind(e)), "handle history on a valid record raises %s: %s" % (type(e).__name__, str(e)[:100]), c)
        finally:
            for t in made:
                drop(t)

    def run_stored_case(self, c):
        k = c["kind"]
        if k == "stored":
            self.stored(c)
        elif k == "phase_mi":
            self.alias_mi_phase(c)
        else:
            return False
        return True


def stored_group(case):
    return case["class"] if case["kind"] == "stored" else "MaintenanceInfo"


def stored_nontrivial(c):
    if c["kind"] == "stored":
        return any(len(s) > 1 and s[1] not in (None, [], {}, "{}") for s in c["steps"])
    return bool(c["entries"])
