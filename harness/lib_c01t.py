"""C01, Topology level: sessions over Topology objects sharing one store.

A session is data: {"disjoint": bool, "ops": [...]} with
  {"op":"new",   "h", "kind": "exp"|"sub"|"adv", "content": None | {"kind":"topo","seed","flavour"} | {"kind":"raw","spec"}}
  {"op":"save",  "h", "slot", "fmt": "graphml"|"json", "via": "string"|"file", "path"?: k}     Topology.serialize
                                            (path k: the file name model-<k>.txt, written again by later saves with the same k)
  {"op":"edit",  "h", "seed", "how"?: "del-first"}                                      edit the held model (del-first: leave a gap
                                            in the internal numbering)
  {"op":"load",  "h", "slot", "via": "string"|"file", "newid": None|str, "damage": None|how}   Topology.load
  {"op":"ctor",  "h", "kind", "slot", "via"}                                            <Kind>Topology(graph_file= / graph_string=)
  {"op":"clone", "h", "newid", "abc": bool}                                             graph_model.clone_graph / ABCPropertyGraph.clone_graph
  {"op":"delete","h"}                                                                   graph_model.delete_graph
  {"op":"imp",   "slot", "entry", "gid", "damage"?: how}                                importer entry point on a saved text
                                            (damage: the text is edited by the harness so that the importer refuses it)
  {"op":"enum",  "slot", "out", "to": "file"|"string"}        ABCGraphImporter.enumerate_graph_nodes[_to_string] on a saved GraphML text
  {"op":"merge", "h", "other", "idx"}       graph_model.merge_nodes(<idx-th NodeID both models have>, other_graph=<model of other>)
                                            (shared store; the two models share NodeIDs after a load with new_graph_id)

`Runner` executes a session on the real code and hands every step to an observer (the oracle of
props/c01.py and the correspondence both use it)."""
import json
import os
import random
import uuid as _uuid

import lib_c01 as L

KINDS = ("exp", "sub", "adv")


def topo_class(kind):
    import fim.user.topology as T
    return {"exp": T.ExperimentTopology, "sub": T.SubstrateTopology, "adv": T.AdvertizedTopology}[kind]


def api_view(t, kind):
    """what the public topology API shows (names only); None when the API cannot walk the model"""
    if kind == "adv":
        return None
    try:
        out = {"nodes": {}, "links": sorted(t.links.keys()), "services": sorted(t.network_services.keys())}
        for name, n in t.nodes.items():
            out["nodes"][name] = {"components": sorted(n.components.keys()),
                                  "interfaces": sorted(i.name for i in n.interface_list),
                                  "services": sorted(n.network_services.keys())}
        return out
    except Exception:
        return None


class Slot:
    def __init__(self):
        self.text = None
        self.path = None
        self.fmt = None
        self.gid = None
        self.snap = None
        self.valid = None
        self.api = None
        self.kind = None
        self.content_kind = None
        self.producible = False


class Runner:
    """runs a session; `obs(ev)` is called after every op with ev = dict(op=…, i=index, …)"""

    def __init__(self, sess, quiet=False):
        self.sess = sess
        self.quiet = quiet            # correspondence runs: no validate_graph() calls between the ops
        self.im = L.Impl(disjoint=sess.get("disjoint", False))
        self.topos = {}
        self.kinds = {}
        self.contents = {}
        self.slots = {}
        self.dead = set()
        self.merged = False           # some merge_nodes succeeded: the store holds links between graphs

    def close(self):
        self.im.close()

    # ---- helpers
    def gid(self, h):
        return self.topos[h].graph_model.graph_id

    def snap(self, gid):
        return L.snapshot(self.im.st, gid)

    def live_ids(self):
        return {h: self.gid(h) for h in self.topos}

    def validates(self, gid):
        if self.quiet:
            return None
        try:
            self.im.graph(gid).validate_graph()
            return True
        except Exception:
            return False

    def _with_uuid_log(self, fn):
        """run fn recording the uuid4 values handed out meanwhile (the fresh model id of a constructor)"""
        log = []
        orig = _uuid.uuid4

        def rec():
            u = orig()
            log.append(str(u))
            return u
        _uuid.uuid4 = rec
        try:
            return fn(), log
        finally:
            _uuid.uuid4 = orig

    # ---- ops
    def run(self, obs):
        for i, op in enumerate(self.sess["ops"]):
            ev = {"i": i, "op": op["op"], "spec": op, "before_ids": self.live_ids()}
            if "slot" in op and op["op"] != "save" and (op["slot"] not in self.slots or self.slots[op["slot"]].text is None):
                continue                      # nothing was saved into that slot (the model had been deleted)
            if op.get("h") is not None and op["op"] not in ("new", "ctor") and op["h"] not in self.topos:
                continue                      # the constructor that should have made this topology raised
            getattr(self, "op_" + op["op"])(op, ev)
            ev["after_ids"] = self.live_ids()
            obs(ev)

    def op_new(self, op, ev):
        kind, c = op["kind"], op.get("content")
        if kind == "adv":
            t = topo_class("adv")()
        elif c and c["kind"] == "topo":
            t = L.gen_topology(random.Random("C01/topo/" + c["seed"]), c["flavour"], c.get("maxlen", 24), importer=self.im.imp)
        else:
            t = topo_class(kind)(importer=self.im.imp)
            if c and c["kind"] == "raw":
                L.build_raw(t.graph_model, c["spec"])
        self.topos[op["h"]] = t
        self.kinds[op["h"]] = kind
        self.contents[op["h"]] = c["kind"] if c else None

    def op_save(self, op, ev):
        from fim.graph.abc_property_graph import GraphFormat
        t = self.topos[op["h"]]
        fmt = GraphFormat.GRAPHML if op["fmt"] == "graphml" else GraphFormat.JSON_NODELINK
        s = Slot()
        s.fmt, s.gid, s.kind, s.content_kind = op["fmt"], self.gid(op["h"]), self.kinds[op["h"]], self.contents[op["h"]]
        s.snap = self.snap(s.gid)
        s.valid = self.validates(s.gid)
        s.producible = L.setter_producible(self.im, s.gid)
        # raw graphs are not API-built models; with links between graphs in the store the API of the held model also
        # walks into the other graph, which the saved text (rightly) does not contain
        s.api = api_view(t, s.kind) if (s.content_kind == "topo" and not self.merged) else None
        try:
            if op["via"] == "file":
                self.im.nfile += 1
                if op.get("path") is not None:
                    # a file name that is written again later in the session (with another model): earlier slots that
                    # were saved there keep their text and lose the path
                    s.path = os.path.join(self.im.tmp, "model-%s.txt" % op["path"])
                    for o in self.slots.values():
                        if o.path == s.path:
                            o.path = None
                else:
                    s.path = os.path.join(self.im.tmp, "t%d.txt" % self.im.nfile)
                r = t.serialize(file_name=s.path, fmt=fmt)
                ev["returned"] = r
                with open(s.path, "r") as f:       # the way ABCGraphImporter.import_graph_from_file reads it
                    s.text = f.read()
            else:
                s.text = t.serialize(fmt=fmt)
            ev["result"] = ["ok", None]
        except Exception as e:
            ev["result"] = ["err", L_err(e)]
            ev["exc"] = "%s: %s" % (type(e).__name__, str(e)[:300])
        ev["slot"] = s
        self.slots[op["slot"]] = s

    def op_edit(self, op, ev):
        h = op["h"]
        nids = L.node_ids(self.im, self.gid(h))
        if any(not isinstance(x, str) or not x for x in nids):
            nids = []       # the model came from a harness-damaged text (a node without NodeID): the editing calls do not apply
        ev["edits"] = L.mutate_graph(self.topos[h].graph_model, nids, op["seed"], how=op.get("how")) if nids else []

    def text_for(self, op):
        """(text, path) of a slot for the requested way in; optional harness-side damage of the text"""
        s = self.slots[op["slot"]]
        text = s.text
        if op.get("damage"):
            from props.c01 import edit_text
            text = edit_text(text, s.fmt, op["damage"], random.Random("C01/damage/%s" % op.get("slot")))
        path = None
        if op["via"] == "file":
            path = s.path if (s.path and not op.get("damage")) else self.im.write(text)
        return s, text, path

    def op_load(self, op, ev):
        h = op["h"]
        t = self.topos[h]
        s, text, path = self.text_for(op)
        ev.update(slot=s, text=text, held_before=self.gid(h), pre={g: self.snap(g) for g in set(self.live_ids().values()) | {op.get("newid") or s.gid}})
        ev["pre_valid"] = {g: self.validates(g) for g in set(self.live_ids().values()) if self.snap(g) is not None}
        try:
            if op["via"] == "file":
                t.load(file_name=path)
            elif op.get("newid"):
                t.load(graph_string=text, new_graph_id=op["newid"])
            else:
                t.load(graph_string=text)
            ev["result"] = ["ok", L.val(self.gid(h))]
        except Exception as e:
            ev["result"] = ["err", L_err(e)]
            ev["exc"] = "%s: %s" % (type(e).__name__, str(e)[:300])
        ev["held_after"] = self.gid(h)
        self.dead.discard(h)

    def op_ctor(self, op, ev):
        s, text, path = self.text_for(op)
        ev.update(slot=s, text=text, pre={g: self.snap(g) for g in set(self.live_ids().values()) | {s.gid}})
        ev["pre_valid"] = {g: self.validates(g) for g in set(self.live_ids().values()) if self.snap(g) is not None}
        cls = topo_class(op["kind"])
        kw = {} if op["kind"] == "adv" else {"importer": self.im.imp}
        if op["via"] == "file":
            kw["graph_file"] = path
        else:
            kw["graph_string"] = text
        try:
            t, log = self._with_uuid_log(lambda: cls(**kw))
            ev["fresh"] = log[0] if log else None
            self.topos[op["h"]] = t
            self.kinds[op["h"]] = op["kind"]
            self.contents[op["h"]] = s.content_kind
            ev["result"] = ["ok", L.val(self.gid(op["h"]))]
        except Exception as e:
            ev["result"] = ["err", L_err(e)]
            ev["exc"] = "%s: %s" % (type(e).__name__, str(e)[:300])

    def op_clone(self, op, ev):
        from fim.graph.abc_property_graph import ABCPropertyGraph
        h = op["h"]
        gm = self.topos[h].graph_model
        ev.update(src=self.gid(h), pre={g: self.snap(g) for g in set(self.live_ids().values()) | {op["newid"]}})
        try:
            if op.get("abc"):
                r = ABCPropertyGraph.clone_graph(gm, new_graph_id=op["newid"])
            else:
                r = gm.clone_graph(new_graph_id=op["newid"])
            ev["result"] = ["ok", L.val(r.graph_id)]
        except Exception as e:
            ev["result"] = ["err", L_err(e)]
            ev["exc"] = "%s: %s" % (type(e).__name__, str(e)[:300])

    def op_delete(self, op, ev):
        h = op["h"]
        ev.update(src=self.gid(h), pre={g: self.snap(g) for g in set(self.live_ids().values())})
        try:
            self.topos[h].graph_model.delete_graph()
            ev["result"] = ["ok", None]
        except Exception as e:
            ev["result"] = ["err", L_err(e)]
        self.dead.add(h)

    def op_merge(self, op, ev):
        h, o = op["h"], op["other"]
        ev.update(pre={g: self.snap(g) for g in set(self.live_ids().values())})
        ev["result"] = ["skip", None]
        if self.im.disjoint or o not in self.topos:
            return
        ga, gb = self.gid(h), self.gid(o)
        ev.update(src=ga, other=gb)
        common = sorted(set(map(str, L.node_ids(self.im, ga))) & set(map(str, L.node_ids(self.im, gb))))
        if ga == gb or not common:
            return
        nid = common[op["idx"] % len(common)]
        try:
            self.topos[h].graph_model.merge_nodes(node_id=nid, other_graph=self.topos[o].graph_model)
            ev["result"] = ["ok", nid]
            self.merged = True
        except Exception as e:
            ev["result"] = ["err", L_err(e)]
            ev["exc"] = "%s: %s" % (type(e).__name__, str(e)[:300])

    def op_enum(self, op, ev):
        """re-writes a saved GraphML text through read_graphml + generate_graphml (+ label markup for the file variant)"""
        from fim.graph.abc_property_graph import ABCGraphImporter
        s = self.slots[op["slot"]]
        ev.update(slot=s, text=s.text)
        if s.fmt != "graphml":
            ev["result"] = ["skip", None]
            return
        src = s.path or self.im.write(s.text)
        out = Slot()
        out.fmt, out.gid, out.snap, out.valid, out.api, out.kind, out.content_kind = s.fmt, s.gid, s.snap, s.valid, s.api, s.kind, s.content_kind
        try:
            if op["to"] == "file":
                self.im.nfile += 1
                out.path = os.path.join(self.im.tmp, "e%d.txt" % self.im.nfile)
                ABCGraphImporter.enumerate_graph_nodes(graph_file=src, new_graph_file=out.path)
                with open(out.path, "r") as f:
                    out.text = f.read()
            else:
                out.text = ABCGraphImporter.enumerate_graph_nodes_to_string(graph_file=src)
            ev["result"] = ["ok", None]
        except Exception as e:
            ev["result"] = ["err", L_err(e)]
            ev["exc"] = "%s: %s" % (type(e).__name__, str(e)[:300])
        ev["out"] = out
        self.slots[op["out"]] = out

    def op_imp(self, op, ev):
        s = self.slots[op["slot"]]
        text = s.text
        if op.get("damage"):
            from props.c01 import edit_text
            text = edit_text(text, s.fmt, op["damage"], random.Random("C01/damage/%s" % op.get("slot")))
        ev.update(slot=s, text=text, pre={g: self.snap(g) for g in set(self.live_ids().values()) | {op.get("gid") or s.gid}})
        entry = op["entry"]
        try:
            imp = self.im.imp
            path = (s.path if not op.get("damage") else None) or self.im.write(text)
            if entry == "file":
                g = imp.import_graph_from_file(graph_file=path, graph_id=op["gid"])
            elif entry == "file_direct":
                g = imp.import_graph_from_file_direct(graph_file=path)
            elif entry == "string":
                g = imp.import_graph_from_string(graph_string=text, graph_id=op["gid"])
            else:
                g = imp.import_graph_from_string_direct(graph_string=text)
            ev["result"] = ["ok", L.val(g.graph_id)]
        except Exception as e:
            ev["result"] = ["err", L_err(e)]
            ev["exc"] = "%s: %s" % (type(e).__name__, str(e)[:300])


def L_err(e):
    from core import err_kind
    return err_kind(e)


# --------------------------------------------------------------------------
# generators

def _content(rng, tag, raw_share=0.3, maxlen=24):
    if rng.random() < raw_share:
        return "exp", {"kind": "raw", "spec": L.gen_raw_spec(rng, maxn=5, maxe=6, maxp=4, maxlen=maxlen)}
    fl = rng.choice(["slice", "slice", "substrate"])
    return ("exp" if fl == "slice" else "sub"), {"kind": "topo", "seed": tag, "flavour": fl, "maxlen": maxlen}


def corner_sessions(seed):
    """deterministic shapes first: every store x format x way in, for
    same-object reload, checkpoint/restore, another object holding the same id, a fresh object,
    a topology holding another graph, a new graph id, the constructors, clone"""
    out = []
    k = 0
    for disj in (False, True):
        for fmt in ("graphml", "json"):
            for via in ("string", "file"):
                k += 1
                fl = "slice" if k % 2 else "substrate"
                kind = "exp" if fl == "slice" else "sub"
                c = {"kind": "topo", "seed": "corner/%s/%d" % (seed, k), "flavour": fl}
                c2 = {"kind": "topo", "seed": "corner2/%s/%d" % (seed, k), "flavour": "slice"}
                new = {"op": "new", "h": 0, "kind": kind, "content": c}
                save = {"op": "save", "h": 0, "slot": 0, "fmt": fmt, "via": via}
                out.append({"disjoint": disj, "tag": "same-object", "ops": [new, save, {"op": "load", "h": 0, "slot": 0, "via": via, "newid": None}]})
                out.append({"disjoint": disj, "tag": "checkpoint-restore", "ops": [
                    new, save, {"op": "edit", "h": 0, "seed": "c%d" % k}, {"op": "load", "h": 0, "slot": 0, "via": via, "newid": None}]})
                out.append({"disjoint": disj, "tag": "other-object-same-id", "ops": [
                    new, save, {"op": "ctor", "h": 1, "kind": kind, "slot": 0, "via": via},
                    {"op": "edit", "h": 0, "seed": "d%d" % k}, {"op": "load", "h": 1, "slot": 0, "via": "string" if via == "file" else "file", "newid": None},
                    {"op": "save", "h": 1, "slot": 1, "fmt": fmt, "via": "string"}, {"op": "load", "h": 0, "slot": 1, "via": "string", "newid": None}]})
                out.append({"disjoint": disj, "tag": "holding-another-graph", "ops": [
                    new, {"op": "new", "h": 1, "kind": "exp", "content": c2}, {"op": "new", "h": 2, "kind": "exp", "content": None},
                    save, {"op": "load", "h": 1, "slot": 0, "via": via, "newid": None},
                    {"op": "load", "h": 2, "slot": 0, "via": via, "newid": None}]})
                if via == "string":
                    out.append({"disjoint": disj, "tag": "new-graph-id", "ops": [
                        new, save, {"op": "load", "h": 0, "slot": 0, "via": "string", "newid": "fresh-id-%d" % k},
                        {"op": "save", "h": 0, "slot": 1, "fmt": fmt, "via": "string"},
                        {"op": "load", "h": 0, "slot": 1, "via": "string", "newid": None}]})
                    out.append({"disjoint": disj, "tag": "clone", "ops": [
                        new, {"op": "clone", "h": 0, "newid": "clone-%d" % k, "abc": False},
                        {"op": "clone", "h": 0, "newid": "abc-clone-%d" % k, "abc": True}, save,
                        {"op": "imp", "slot": 0, "entry": "file", "gid": "clone-%d" % k},
                        {"op": "delete", "h": 0}, {"op": "load", "h": 0, "slot": 0, "via": "string", "newid": None}]})
                if not disj:
                    # two models sharing their NodeIDs on one store, merge_nodes both ways, then the usual save / load
                    out.append({"disjoint": False, "tag": "merged", "ops": [
                        new, {"op": "save", "h": 0, "slot": 0, "fmt": fmt, "via": "string"},
                        {"op": "new", "h": 1, "kind": kind, "content": None},
                        {"op": "load", "h": 1, "slot": 0, "via": "string", "newid": "adm-%d" % k},
                        {"op": "merge", "h": 0, "other": 1, "idx": k}, {"op": "merge", "h": 1, "other": 0, "idx": k + 1},
                        {"op": "save", "h": 0, "slot": 1, "fmt": fmt, "via": via},
                        {"op": "new", "h": 2, "kind": kind, "content": None}, {"op": "load", "h": 2, "slot": 1, "via": via, "newid": None},
                        {"op": "save", "h": 1, "slot": 2, "fmt": fmt, "via": via}, {"op": "load", "h": 1, "slot": 2, "via": via, "newid": None},
                        {"op": "ctor", "h": 3, "kind": kind, "slot": 2, "via": via}]})
                # a model whose internal numbering has a gap is saved and comes back under the same id, numbered afresh: into the
                # same object, through another object (whatever remembers where a node was is wrong now)
                out.append({"disjoint": disj, "tag": "renumbered-copy", "ops": [
                    {"op": "new", "h": 0, "kind": "exp", "content": {"kind": "raw", "spec": L.gen_raw_spec(
                        random.Random("C01/corner-raw/%s/%d" % (seed, k)), maxn=6, maxe=6, maxp=3, nid_adversarial=False)}},
                    {"op": "edit", "h": 0, "seed": "g%d" % k, "how": "del-first"}, save,
                    {"op": "load", "h": 0, "slot": 0, "via": via, "newid": None},
                    {"op": "edit", "h": 0, "seed": "h%d" % k, "how": "del-first"}, {"op": "save", "h": 0, "slot": 1, "fmt": fmt, "via": via},
                    {"op": "ctor", "h": 1, "kind": "exp", "slot": 1, "via": via},
                    {"op": "imp", "slot": 1, "entry": "string", "gid": "renumbered-%d" % k},
                    {"op": "load", "h": 0, "slot": 0, "via": "string", "newid": None}]})
                # state that outlives a call. (1) one file name, two models: saved and loaded one after the other
                out.append({"disjoint": disj, "tag": "reused-file-name", "ops": [
                    new, {"op": "new", "h": 1, "kind": "exp", "content": c2}, {"op": "new", "h": 2, "kind": kind, "content": None},
                    {"op": "new", "h": 3, "kind": "exp", "content": None},
                    {"op": "save", "h": 0, "slot": 0, "fmt": fmt, "via": "file", "path": k},
                    {"op": "load", "h": 2, "slot": 0, "via": "file", "newid": None},
                    {"op": "save", "h": 1, "slot": 1, "fmt": fmt, "via": "file", "path": k},
                    {"op": "load", "h": 3, "slot": 1, "via": "file", "newid": None},
                    {"op": "edit", "h": 0, "seed": "r%d" % k}, {"op": "save", "h": 0, "slot": 2, "fmt": fmt, "via": "file", "path": k},
                    {"op": "imp", "slot": 2, "entry": "file_direct" if via == "file" else "file", "gid": "re-%d" % k},
                    {"op": "ctor", "h": 4, "kind": "exp", "slot": 1, "via": "file"}]})
                # (2) an import that is refused (at each stage at which the importer can refuse), then ordinary round trips
                out.append({"disjoint": disj, "tag": "after-refused-import", "ops": [
                    new, {"op": "new", "h": 1, "kind": "exp", "content": c2}, {"op": "new", "h": 2, "kind": "exp", "content": None},
                    save, {"op": "save", "h": 1, "slot": 1, "fmt": fmt, "via": via},
                    {"op": "imp", "slot": 0, "entry": via, "gid": "draft-%d" % k, "damage": "nonid-last+residue"},
                    {"op": "load", "h": 2, "slot": 1, "via": "string", "newid": "after-refusal-%d" % k},
                    {"op": "imp", "slot": 1, "entry": via + "_direct", "gid": "unused-%d" % k, "damage": "mixed+residue"},
                    {"op": "clone", "h": 1, "newid": "clone-after-refusal-%d" % k, "abc": via == "file"},
                    {"op": "load", "h": 2, "slot": 0, "via": via, "newid": None, "damage": "nogid+residue"},
                    {"op": "ctor", "h": 3, "kind": "exp", "slot": 1, "via": via},
                    {"op": "imp", "slot": 0, "entry": "string", "gid": "draft2-%d" % k, "damage": "emptynid+residue"},
                    {"op": "imp", "slot": 1, "entry": via, "gid": "copy-after-refusal-%d" % k}]})
                if fmt == "graphml":
                    out.append({"disjoint": disj, "tag": "enumerate", "ops": [
                        new, save, {"op": "enum", "slot": 0, "out": 1, "to": "file"}, {"op": "enum", "slot": 1, "out": 2, "to": "string"},
                        {"op": "load", "h": 0, "slot": 1, "via": via, "newid": None},
                        {"op": "new", "h": 1, "kind": kind, "content": None}, {"op": "load", "h": 1, "slot": 2, "via": "string", "newid": None}]})
                if not disj and fl == "substrate":
                    out.append({"disjoint": False, "tag": "advertized", "ops": [
                        new, save, {"op": "ctor", "h": 1, "kind": "adv", "slot": 0, "via": via},
                        {"op": "save", "h": 1, "slot": 1, "fmt": fmt, "via": via}, {"op": "load", "h": 1, "slot": 1, "via": via, "newid": None},
                        {"op": "new", "h": 2, "kind": "adv", "content": None}, {"op": "load", "h": 2, "slot": 0, "via": via, "newid": None}]})
    return out


def gen_session(rng, tag, thorough=False):
    disj = rng.random() < 0.4
    ops = []
    nh = rng.choice([1, 2, 2, 3])
    maxlen = 24 if not thorough else rng.choice([24, 60, 200])
    for h in range(nh):
        if h > 0 and rng.random() < 0.25:
            ops.append({"op": "new", "h": h, "kind": rng.choice(["exp", "sub"] + ([] if disj else ["adv"])), "content": None})
        else:
            kind, c = _content(rng, "%s/%d" % (tag, h), maxlen=maxlen)
            ops.append({"op": "new", "h": h, "kind": kind, "content": c})
    handles = list(range(nh))
    with_content = [o["h"] for o in ops if o.get("content")]
    slots = []
    dead = set()
    n = rng.randrange(3, 9)
    for step in range(n):
        savable = [h for h in with_content if h not in dead]
        r = rng.random()
        if (not slots or r < 0.2) and savable:
            s = len(slots)
            ops.append({"op": "save", "h": rng.choice(savable), "slot": s, "fmt": rng.choice(["graphml", "json"]),
                        "via": rng.choice(["string", "file"])})
            if ops[-1]["via"] == "file" and rng.random() < 0.6:
                ops[-1]["path"] = rng.randrange(2)          # file names are written again with whatever is saved next
            slots.append(s)
        elif not slots:
            break
        elif r < 0.55:
            h = rng.choice(handles)
            newid = None
            via = rng.choice(["string", "string", "file"])
            if via == "string" and rng.random() < (0.25 if disj else 0.4) and not _is_adv(ops, h):
                newid = rng.choice(["nid-%d" % rng.randrange(3), "nid-%s-%d" % (tag, step)])
            dmg = rng.choice(["mixed", "nogid", "nonid", "nonodes", "nonid-last+residue", "nonid+residue"]) if rng.random() < 0.12 else None
            ops.append({"op": "load", "h": h, "slot": rng.choice(slots), "via": via, "newid": newid, "damage": dmg})
            if dmg is None:
                dead.discard(h)
                if h not in with_content:
                    with_content.append(h)
        elif r < 0.68:
            h = len(handles)
            handles.append(h)
            ops.append({"op": "ctor", "h": h, "kind": rng.choice(["exp", "sub"] + ([] if disj else ["adv"])), "slot": rng.choice(slots),
                        "via": rng.choice(["string", "file"])})
            with_content.append(h)
        elif r < 0.76 and not disj and len(handles) >= 2:
            a, b = rng.sample(handles, 2)
            ops.append({"op": "merge", "h": a, "other": b, "idx": rng.randrange(1000)})
        elif r < 0.84 and savable:
            ops.append({"op": "edit", "h": rng.choice(savable), "seed": "%s/%d" % (tag, step)})
            if rng.random() < 0.35:
                ops[-1]["how"] = "del-first"
        elif r < 0.89 and savable:
            ops.append({"op": "clone", "h": rng.choice(savable), "newid": "cl-%s-%d" % (tag, step), "abc": rng.random() < 0.5})
        elif r < 0.92:
            o = len(slots)
            ops.append({"op": "enum", "slot": rng.choice(slots), "out": o, "to": rng.choice(["file", "string"])})
            slots.append(o)
        elif r < 0.97:
            ops.append({"op": "imp", "slot": rng.choice(slots), "entry": rng.choice(["file", "file_direct", "string", "string_direct"]),
                        "gid": "imp-%s-%d" % (tag, step)})
            if rng.random() < 0.4:
                ops[-1]["damage"] = rng.choice(["nonid-last", "nonid", "emptynid", "mixed", "nogid"]) + "+residue"
        elif savable:
            h = rng.choice(savable)
            ops.append({"op": "delete", "h": h})
            dead.add(h)
    return {"disjoint": disj, "tag": "random", "ops": ops}


def _is_adv(ops, h):
    k = None
    for o in ops:
        if o["op"] in ("new", "ctor") and o["h"] == h:
            k = o["kind"]
    return k == "adv"
