"""C10 - slice validation accepts a topology exactly when the constraint tables allow it;
connecting an interface refuses unsupported combinations at once.

A *case* is an abstract slice description (plain JSON).  `build()` turns it into a real topology through the
public API, `Topology.validate()` decides it, and
  * correspondence: the same abstract description is decided by the Lean model (`Drivers/C10.lean`), which
    runs on the table regenerated from the source (optionally with rows overridden - the harness patches
    the same rows into the live `ServiceConstraints` for that one call, so the "for every table" reading of
    the model is exercised, including `num_instances`, which the shipped table never limits);
  * oracle: `expected()` - a declarative decision procedure over the table PINNED below, written
    independently of the code's order of checks - says whether the slice is valid.
"""
import contextlib
import io
import itertools
import json
import multiprocessing
import os

from core import LeanDriver, err_kind, canon, Infra, Result
from gen import constraints

ID = "C10"
GENERATORS = [constraints.generate]
LEAN_MODULES = ["FimVerif.Proofs.C10", "FimVerif.Proofs.Lemmas.C10Dec", "FimVerif.Proofs.Lemmas.C10Perm", "FimVerif.Proofs.Lemmas.C10Hist"]
P = "FimVerif.C10."
THEOREMS = [P + t for t in (
    "validate_iff_spec", "site_recorded", "validate_touches_only_sites", "recordedSite_declared", "recordedSite_unlimited",
    "recordedSite_inferred", "recordedSite_multisite", "siteCount_spec", "validate_iff_specFull", "validate_iff_specFull_of",
    "nodes_ok_iff_full", "valid_accepted_of", "valid_accepted", "nodes_full_of_valid", "skipped_type_counterexample",
    "unseen_property_counterexample", "blank_value_counterexample", "falsy_node_value_counterexample",
    "gen_no_falsy_node_values", "gen_node_hollow_harmless", "gen_node_properties_seen", "gen_all_node_types_validated",
    "gen_presence_by_truthiness", "gen_iface_count_class", "gen_faithful",
    "guardrails_refuses_iff", "connect_iff", "guardrail_iff", "guardrail_sound", "gen_guardrails_everywhere",
    "svc_table_pinned", "node_table_pinned", "link_table_pinned", "guard_table_pinned", "no_limit_pinned", "tables_complete",
    "gen_service_properties_readable", "gen_node_required_readable", "gen_names_are_members", "gen_no_instance_limit",
    "gen_instances_void", "validate_rejects_with_topology_of", "validate_rejects_with_topology", "validate_iff_spec_gen", "validate_counts_by_identity",
    "gen_no_falsy_values", "gen_every_value_readable", "gen_hollow_harmless", "services_full_of_valid", "falsy_value_counterexample",
    "interface_order_irrelevant", "interface_order_irrelevant_gen", "validate_twice", "history_validate", "history_validate_twice", "verdict_of_eraseNames", "history_connect_disconnect",
    "history_connect_order", "history_rename", "validate_pins_multisite_counterexample", "failed_validate_leaves_site_counterexample")]
EXHAUSTIVE = True
TRUSTED_BASE = [
    "gen/constraints.py: dump of the three constraint tables (imported values), getter lists (introspection), shallow-sliver property lists "
    "(AST of the set_properties calls); everything else is OBSERVED on scratch topologies built through the API: the four presence tests "
    "(table row and sliver getter patched for one call), guardrail pairs over all type pairs and who runs the guardrails, node types that reach "
    "validate_constraints, node properties the check sees, topology classes with interface-count limits, value classes that can be falsy, "
    "every member of every enum-valued service property reads back from a fresh handle (svcValuesLost), connect_interface runs the guardrails "
    "on fresh objects and on objects used before (constructor with interfaces, earlier connect, earlier refused connect)",
    "Model/Validate.lean mirrors the order of checks of Topology.validate / validate_constraints / __validate_nstype_constraints / "
    "Node.validate_constraints / connect_interface by hand; checked differentially on every case below",
    "Model/ValidateHist.lean mirrors by hand what connect_interface, disconnect_interface, remove_node, remove_component, rename, the site setter, "
    "peer and unpeer do to the slice; checked differentially on every history: outcome of every call and the slice as it is afterwards, read "
    "back through the API",
    "abstraction of a slice (harness build() <-> request line): a node is (type, properties set, hollow values, blank values), a service is (type, "
    "site, properties, owner site, interfaces with peers); graph queries (get_owner_node, get_peers, network_services listing) are not modelled; "
    "on every fifth case and before every validate of a history the description is read back through the API (extract()) and must give the same "
    "verdict / equal the one derived from the calls",
    "instances-per-site pass: with more than one limited service type the code visits the types in set order; the model reports the crash "
    "branch first (exact for one limited type, which is all the edited-table stream generates; the shipped table limits none)",
]
ASSUMPTIONS = [
    "node names and the names of the topology's own (free-standing) services are unique - the API refuses a second one at creation (rename() does "
    "not check: a node renamed to the name of another node hides it from Topology.nodes, outside this property); services of different nodes may "
    "share a name and the derived names of service ports and interface names are NOT assumed unique",
    "owner nodes carry a site string (the Node constructor requires one); it may be empty",
    "histories read the slice back through fresh handles (a NetworkService handle caches its interface list); connects are made on fresh "
    "handles or, in the histories marked kept, on the objects add_network_service returned; what a fresh handle lists for a service must be "
    "the interfaces the calls connected, each once (a difference is reported as a disagreement, the verdict is judged all the same)",
]
RULE = ("grid A: 15 service types x 23 site placements of 0..4 interfaces over <=3 sites x declared site {none, first, other} x 12 interface-kind "
        "patterns (8 uniform + 4 mixed); grid B: service types x 5 placements x declared x {DedicatedPort, SharedPort} x every subset of the "
        "type's constrained properties; grid C: 6 node types x site {set, blank} x image {none, set, blank strings} x management_ip {none, set, zero "
        "address} x component, in experiment and substrate topologies, and every invalid node next to valid nodes of every other type; grid D: natural "
        "builds (NICs, add_facility, add_switch, port mirror, peer(), dangling and owner-less interfaces, substrate topologies); grid E: edited tables; "
        "grid F: service type x interface kind x constructor/connect_interface x fresh/connected, and the same connect made on an object "
        "used before (returned by the constructor with an interface given to it / connected another interface / had a connect refused / "
        "connected and disconnected / second object next to a kept one); grid G: an interface at another site connected and "
        "disconnected again before the final wiring; grid G2 (histories, every service type): validate-move-validate, grow after a validation, failed "
        "validation then repair, remove_node / remove_component of an owner between connect and validate, renames before and after the connect (also "
        "to coinciding derived names), node site changed before / between validations, all 6 orders of three connects over two services, peer / "
        "unpeer / disconnect on a peering port / disconnect called on the wrong service; random histories of 3..10 calls over 2..4 nodes and 1..2 "
        "services; grid H: every constrained object-valued property (ero) given as an object without content, every constrained string-valued "
        "property given as the empty string, every constrained property given as each of its other valid values (every member of the "
        "mirror-direction enum, listed from the enum; the strings '0' and 'None'), also through add_port_mirror_service and in the random "
        "histories; 40% of the random histories and the grow-after-validation histories make their connects on objects kept from creation. "
        "quick samples A and B (1100) and runs 250 random histories; thorough runs all of A and B and 4000 "
        "random histories. naming: half of A/B/D use node and interface names whose derived '<node>-<interface>' service-port names all coincide; "
        "interfaces are counted by identity in the request line (name carried as a label) and in the oracle. distinct by abstract configuration / history")

SITES = ["RENC", "UKY", "LBNL"]
KINDS = ["AccessPort", "TrunkPort", "DedicatedPort", "SharedPort", "vInt", "StitchPort", "FacilityPort", "SubInterface"]
MIXED = [("DedicatedPort", "SharedPort"), ("SharedPort", "DedicatedPort"), ("FacilityPort", "SubInterface"), ("SubInterface", "TrunkPort")]
SVC_PROPS = ["mirror_port", "mirror_vlan", "mirror_direction", "controller_url", "ero"]

# --------------------------------------------------------------------------
# The pinned table (the documented constraints this checker holds the code to).
# A change of the live table that is not made here too is reported (see search()).
NL = 0
_M3 = ["mirror_port", "mirror_vlan", "mirror_direction"]
_M4 = _M3 + ["controller_url"]


def _r(mn, mx, sites, req=(), forb=(), its=(), inst=NL):
    return {"min_interfaces": mn, "num_interfaces": mx, "num_sites": sites, "num_instances": inst,
            "required_properties": list(req), "forbidden_properties": list(forb), "required_interface_types": list(its)}


PINNED_SVC = {
    "P4": _r(1, NL, 1, forb=_M3),
    "OVS": _r(1, NL, 1, forb=_M3),
    "VLAN": _r(1, NL, 1, forb=_M4),
    "MPLS": _r(1, NL, 1, forb=_M4),
    "L2Path": _r(1, 2, 2, forb=_M4),
    "L2STS": _r(2, NL, 2, forb=_M4 + ["ero"]),
    "L2PTP": _r(2, 2, 2, forb=_M4, its=["DedicatedPort", "FacilityPort", "SubInterface"]),
    "L2Multisite": _r(1, NL, NL, forb=_M4),
    "L2Bridge": _r(1, NL, 1, forb=_M4),
    "FABNetv4": _r(1, NL, 1, forb=_M4),
    "FABNetv6": _r(1, NL, 1, forb=_M4),
    "PortMirror": _r(1, 1, 1, req=["mirror_port", "mirror_direction", "site"], forb=["controller_url"]),
    "L3VPN": _r(1, NL, NL, forb=_M4),
    "FABNetv4Ext": _r(1, NL, 1, forb=_M4),
    "FABNetv6Ext": _r(1, NL, 1, forb=_M4),
}
_F3 = ["attached_components_info", "image_type", "image_ref"]
PINNED_NODE = {
    "Server": {"required_properties": ["site"], "forbidden_properties": []},
    "VM": {"required_properties": ["site"], "forbidden_properties": []},
    "Container": {"required_properties": ["site"], "forbidden_properties": []},
    "Switch": {"required_properties": [], "forbidden_properties": _F3},
    "NAS": {"required_properties": [], "forbidden_properties": _F3},
    "Facility": {"required_properties": [], "forbidden_properties": _F3 + ["management_ip"]},
}
PINNED_GUARD = [("L2PTP", "SharedPort")]
SVC_TYPES = list(PINNED_SVC)
NODE_TYPES = list(PINNED_NODE)


def table_diff():
    """Rows of the live tables that differ from the pinned ones."""
    live = constraints.tables()
    out = []
    ls = {k: {f: v for f, v in r.items() if f != "layer"} for k, r in live["svc"]}
    for k in sorted(set(ls) | set(PINNED_SVC)):
        if ls.get(k) != PINNED_SVC.get(k):
            out.append({"table": "ServiceConstraints", "row": k, "pinned": PINNED_SVC.get(k), "live": ls.get(k)})
    ln = dict(live["node"])
    for k in sorted(set(ln) | set(PINNED_NODE)):
        if ln.get(k) != PINNED_NODE.get(k):
            out.append({"table": "NodeConstraints", "row": k, "pinned": PINNED_NODE.get(k), "live": ln.get(k)})
    return out


# --------------------------------------------------------------------------
# cases
#
# case = {"exp": bool, "ov": None | {"svc": {ty: row}}, "nodes": [node], "svcs": [svc]}
# node = {"ty", "site", "image": bool, "mgmt": bool, "gpu": bool, "groups": [group]}
# group = {"via": "generic"|"nic_shared"|"nic_smart"|"facility"|"switch", "sty": service type, "kinds": [kind]}
#         (a helper service owned by the node with these interfaces; SubInterface adds its DedicatedPort parent)
# svc = {"ty", "site": None|str, "props": [..], "how": "ctor"|"connect"|"mirror", "ifs": [[node, group, idx]],
#        "extra": [["direct", kind] | ["dangling"] | ["peer", other svc index] | ["two"]]}

def mknode(ty="VM", site="RENC", groups=None, image=False, mgmt=False, gpu=False):
    """image: False | True | "blank" (image_ref/image_type given as empty strings: not set, yet not None);
    mgmt: False | True | "zero" (the all-zero address: an object 'without content', set all the same)"""
    return {"ty": ty, "site": site, "image": image, "mgmt": mgmt, "gpu": gpu, "groups": groups or []}


def mksvc(ty, ifs, site=None, props=(), how="ctor", extra=()):
    return {"ty": ty, "site": site, "props": sorted(props), "how": how, "ifs": [list(x) for x in ifs], "extra": [list(x) for x in extra]}


def partitions(k, maxb=3):
    """restricted growth strings of length k with at most maxb blocks"""
    out = []

    def rec(pre, m):
        if len(pre) == k:
            out.append(list(pre))
            return
        for b in range(min(m + 1, maxb - 1) + 1):
            rec(pre + [b], max(m, b))
    if k == 0:
        return [[]]
    rec([0], 0)
    return out


PLACEMENTS = [p for k in range(5) for p in partitions(k)]
assert len(PLACEMENTS) == 23


def service_case(ty, placement, declared, kinds, props, layout=0, how="ctor", exp=True, ov=None, naming="plain"):
    """One free-standing service of type ty whose i-th interface has kind kinds[i] and sits in site placement[i]."""
    nodes, ifs = [], []
    by_site = {}
    for i, (b, kind) in enumerate(zip(placement, kinds)):
        site = SITES[b]
        if layout == 0 and site in by_site:
            ni = by_site[site]
        else:
            ni = len(nodes)
            nodes.append(mknode("VM", site, groups=[{"via": "generic", "sty": "OVS", "kinds": []}]))
            by_site[site] = ni
        g = nodes[ni]["groups"][0]
        g["kinds"].append(kind)
        ifs.append([ni, 0, len(g["kinds"]) - 1])
    site = None if declared == "none" else ((SITES[placement[0]] if placement else SITES[0]) if declared == "first" else "STAR")
    return {"exp": exp, "ov": ov, "naming": naming, "nodes": nodes, "svcs": [mksvc(ty, ifs, site=site, props=props, how=how)]}


HOLLOW_VARIANTS = {"ero": ["ero@graph", "ero@empty", "ero@nohops"]}
BLANKABLE = ["mirror_port", "mirror_vlan", "controller_url"]      # string-valued: can be given as the empty string


def pbase(p):
    return p.split("@")[0].split("#")[0]


_VARIANTS = {}


def value_variants(q):
    """other valid values of a constrained property ('name#value' in a case): every further member of an enum-valued property
    (listed from the enum itself, so that a rare member is not left out), strings that look like nothing ('0', 'None')"""
    if not _VARIANTS:
        from fim.slivers.network_service import MirrorDirection
        _VARIANTS.update({"mirror_direction": [m.name for m in MirrorDirection][1:], "mirror_port": ["0", "None"], "mirror_vlan": ["0"],
                          "controller_url": ["None"]})
    return _VARIANTS.get(q, [])


def abs_props(props):
    """(properties that are set, those of them whose value is an object without content, properties given as the empty string -
    not set)"""
    return (sorted({pbase(p) for p in props if not p.endswith("@blank")}),
            sorted({pbase(p) for p in props if "@" in p and not p.endswith("@blank")}),
            sorted({pbase(p) for p in props if p.endswith("@blank")}))


def constrained_props(ty):
    r = PINNED_SVC[ty]
    return [p for p in SVC_PROPS if p in r["required_properties"] or p in r["forbidden_properties"]]


def baseline_props(ty):
    return [p for p in PINNED_SVC[ty]["required_properties"] if p != "site"]


def kind_patterns(k):
    pats = [[K] * k for K in KINDS]
    for a, b in MIXED:
        pats.append(([a] + [b] * (k - 1)) if k else [])
    return pats


def grid_A():
    n = 0
    for ty in SVC_TYPES:
        for pl in PLACEMENTS:
            for declared in ("none", "first", "other"):
                for kp in kind_patterns(len(pl)):
                    n += 1
                    h = (n * 2654435761) >> 7
                    yield service_case(ty, pl, declared, kp, baseline_props(ty), layout=h & 1, naming=("plain", "collide")[(h >> 1) & 1])


def grid_B():
    n = 0
    for ty in SVC_TYPES:
        cp = constrained_props(ty)
        for pl in ([], [0], [0, 0], [0, 1], [0, 1, 2]):
            for declared in ("none", "first", "other"):
                for K in ("DedicatedPort", "SharedPort"):
                    for r in range(len(cp) + 1):
                        for sub in itertools.combinations(cp, r):
                            n += 1
                            h = (n * 2654435761) >> 7
                            yield service_case(ty, pl, declared, [K] * len(pl), sub, layout=h & 1,
                                               how="connect" if n % 3 == 0 else "ctor", naming=("plain", "collide")[(h >> 1) & 1])
                            # the same with every object-valued property given as an object without content
                            for q in sub:
                                for v in HOLLOW_VARIANTS.get(q, ()):
                                    if K == "DedicatedPort" or v.endswith("graph"):
                                        yield service_case(ty, pl, declared, [K] * len(pl), [v if x == q else x for x in sub], layout=h & 1,
                                                           how="connect" if n % 3 == 0 else "ctor", naming=("plain", "collide")[(h >> 1) & 1])


def grid_H():
    """always run: every service type x every constrained object-valued property given as an object without content
    (graph-reference ERO, ERO without payload, ERO whose path has no hops) - set, whatever its truthiness; and every
    constrained string-valued property given as the empty string - not set, whatever `is None` says"""
    for ty in SVC_TYPES:
        for q in constrained_props(ty):
            if q in BLANKABLE:
                props = [x for x in baseline_props(ty) if x != q] + [q + "@blank"]
                for pl, how in (([0, 1], "ctor"), ([0], "connect")):
                    yield service_case(ty, pl, "none", ["DedicatedPort"] * len(pl), props, how=how)
    # every other valid value of a constrained property (each member of an enum, strings that look like nothing): set
    for ty in SVC_TYPES:
        for q in constrained_props(ty):
            for v in value_variants(q):
                props = [x for x in baseline_props(ty) if x != q] + ["%s#%s" % (q, v)]
                for pl, how in (([0, 1], "ctor"), ([0], "connect")):
                    yield service_case(ty, pl, "none", ["DedicatedPort"] * len(pl), props, how=how)
    for ty in SVC_TYPES:
        for q in constrained_props(ty):
            for v in HOLLOW_VARIANTS.get(q, ()):
                props = [x for x in baseline_props(ty) if x != q] + [v]
                for pl, how in (([0, 1], "ctor"), ([0], "connect"), ([], "ctor")):
                    yield service_case(ty, pl, "none", ["DedicatedPort"] * len(pl), props, how=how)
                    yield service_case(ty, pl, "first", ["SharedPort"] * len(pl), props, how=how, naming="collide")


def grid_G():
    """always run: the verdict depends on the slice as it IS, not on how it got there - an interface at another site is
    connected and disconnected again before (how=connect) or after (how=ctor) the final interfaces are wired"""
    for ty in SVC_TYPES:
        for K in ("DedicatedPort", "SharedPort"):
            for pl in ([0, 1], [0, 1, 1], [0, 1, 2]):
                for how in ("connect", "ctor"):
                    c = service_case(ty, pl, "none", [K] * len(pl), baseline_props(ty), how=how)
                    s = c["svcs"][0]
                    s["churn"] = [x for x in s["ifs"] if x[0] == 0]
                    s["ifs"] = [x for x in s["ifs"] if x[0] != 0]
                    yield c


def grid_C():
    for ty in NODE_TYPES:
        for site in ("RENC", ""):
            for image in (False, True, "blank"):
                for mgmt in (False, True, "zero"):
                    for gpu in (False, True):
                        yield {"exp": True, "ov": None, "nodes": [mknode(ty, site, image=image, mgmt=mgmt, gpu=gpu)], "svcs": []}
                        if site and not gpu and (image is True) == (mgmt is True):
                            # the same node in a substrate topology, and next to a valid node of every other kind
                            yield {"exp": False, "ov": None, "nodes": [mknode(ty, site, image=image, mgmt=mgmt)], "svcs": []}
    for ty in NODE_TYPES:
        for bad in (dict(image=True), dict(mgmt=True), dict(gpu=True), dict(site="")):
            nodes = [mknode(t2, "UKY") for t2 in NODE_TYPES if t2 != ty]
            for pos in (0, len(nodes)):
                yield {"exp": True, "ov": None, "nodes": nodes[:pos] + [mknode(ty, **dict(dict(site="RENC"), **bad))] + nodes[pos:], "svcs": []}
    # a valid service next to an invalid node and the other way round
    for ty in NODE_TYPES:
        c = service_case("L2Bridge", [0, 0], "none", ["DedicatedPort", "SharedPort"], [])
        c["nodes"].append(mknode(ty, "UKY", image=True))
        yield c


def grid_D():
    """natural builds and the odd corners"""
    G = lambda via, sty, kinds: {"via": via, "sty": sty, "kinds": list(kinds)}
    # NIC components, a facility, a switch, connected by each service type
    for ty in SVC_TYPES:
        for variant in range(6):
            nodes = [mknode("VM", "RENC", groups=[G("nic_shared", "OVS", ["SharedPort"]), G("nic_smart", "OVS", ["DedicatedPort"] * 2)]),
                     mknode("VM", "UKY", groups=[G("nic_smart", "OVS", ["DedicatedPort"] * 2)]),
                     mknode("Facility", "RENC" if variant % 2 else "LBNL", groups=[G("facility", "VLAN", ["FacilityPort"])]),
                     mknode("Switch", "UKY", groups=[G("switch", "P4", ["DedicatedPort"] * 2)])]
            ifs = [[[0, 1, 0], [1, 0, 0]], [[0, 0, 0], [0, 1, 0]], [[0, 1, 0], [2, 0, 0]], [[1, 0, 1], [3, 0, 0]],
                   [[0, 1, 0]], [[0, 1, 0], [0, 1, 1], [1, 0, 0], [2, 0, 0]]][variant]
            for naming in ("plain", "collide"):
                yield {"exp": True, "ov": None, "naming": naming, "nodes": [dict(x, groups=[dict(g) for g in x["groups"]]) for x in nodes],
                       "svcs": [mksvc(ty, ifs, props=baseline_props(ty), how="connect" if variant == 1 else "ctor")]}
    # names that coincide after derivation: the service port of a connected interface is called '<node>-<interface>', the
    # interface of a NIC '<component>-p<k>': n1 + nic-aa-p1 and n1-nic + aa-p1 both give n1-nic-aa-p1; nic1 / nic10, n1 / n1-nic
    # are prefixes of one another. The verdict must count interfaces, not names.
    def named(name, site, cname, kinds=("DedicatedPort", "DedicatedPort")):
        n = mknode("VM", site, groups=[dict(G("nic_smart", "OVS", kinds), cname=cname)])
        n["name"] = name
        return n
    for ty in SVC_TYPES:
        for sites in (("RENC", "UKY", "UKY"), ("RENC", "RENC", "RENC")):
            nodes = lambda k: [named("n1", sites[0], "nic-aa"), named("n1-nic", sites[1], "aa"), named("n3", sites[2], "nic1"),
                               named("n3-nic1", sites[0], "0x"), named("n3-nic", sites[1], "10x")][:k]
            for vi, ifs in enumerate(([[0, 0, 0], [1, 0, 0]], [[0, 0, 0], [1, 0, 0], [2, 0, 0]], [[2, 0, 0], [1, 0, 0], [0, 0, 0]],
                                      [[0, 0, 0], [1, 0, 0], [0, 0, 1], [1, 0, 1]], [[0, 0, 0]], [[3, 0, 0], [4, 0, 0]])):
                for how in (("ctor", "connect") if vi < 2 else ("ctor",)):
                    yield {"exp": True, "ov": None, "nodes": nodes(1 + max(x[0] for x in ifs)), "svcs": [mksvc(ty, ifs, props=baseline_props(ty), how=how)]}
    # services of different nodes may have the same name (names are unique within a node only): every one of them is validated
    for exp in (True, False):
        for first_bad in (True, False):
            for third in (False, True):
                kinds = [[], ["TrunkPort"]] if first_bad else [["TrunkPort"], []]
                nodes = [mknode("VM", s_, groups=[dict(G("generic", "OVS", k), sname="ovs")]) for s_, k in zip(("RENC", "UKY"), kinds)]
                if third:
                    nodes.append(mknode("VM", "LBNL", groups=[dict(G("generic", "OVS", ["TrunkPort", "TrunkPort"]), sname="ovs")]))
                yield {"exp": exp, "ov": None, "nodes": nodes, "svcs": []}
    # port mirror through its own constructor
    for site in (None, "RENC", "UKY"):
        for kind in ("DedicatedPort", "SharedPort"):
            yield {"exp": True, "ov": None, "nodes": [mknode("VM", "RENC", groups=[G("generic", "OVS", [kind, kind])])],
                   "svcs": [mksvc("PortMirror", [[0, 0, 0]], site=site, props=["mirror_port", "mirror_direction"], how="mirror")]}
            for v in value_variants("mirror_direction"):
                yield {"exp": True, "ov": None, "nodes": [mknode("VM", "RENC", groups=[G("generic", "OVS", [kind, kind])])],
                       "svcs": [mksvc("PortMirror", [[0, 0, 0]], site=site, props=["mirror_port", "mirror_direction#" + v], how="mirror")]}
    # helper services of every type with 0..3 direct interfaces, in experiment and substrate topologies
    for exp in (True, False):
        for ty in SVC_TYPES:
            for k in range(4):
                for kind in ("TrunkPort", "DedicatedPort"):
                    yield {"exp": exp, "ov": None, "nodes": [mknode("Switch", "RENC", groups=[G("generic", ty, [kind] * k)])], "svcs": []}
    # peer(), dangling service port, service port with two peers, owner-less direct interface
    base = lambda: [mknode("VM", "RENC", groups=[G("generic", "OVS", ["DedicatedPort", "TrunkPort", "TrunkPort"])])]
    for ty in SVC_TYPES:
        yield {"exp": True, "ov": None, "nodes": base(), "svcs": [mksvc(ty, [[0, 0, 0]], props=baseline_props(ty), extra=[["peer", 1]]),
                                                               mksvc(ty, [], props=baseline_props(ty))]}
        yield {"exp": True, "ov": None, "nodes": base(), "svcs": [mksvc(ty, [[0, 0, 0]], props=baseline_props(ty), extra=[["dangling"]])]}
        yield {"exp": True, "ov": None, "nodes": base(), "svcs": [mksvc(ty, [[0, 0, 0]], props=baseline_props(ty), extra=[["direct", "TrunkPort"]])]}
        yield {"exp": True, "ov": None, "nodes": base(), "svcs": [mksvc(ty, [], props=baseline_props(ty), extra=[["two"]])]}
    # several services: first valid, second not (and reverse) - the inferred site of the first is written before the raise
    for ty in ("L2Bridge", "L2STS", "FABNetv4"):
        for first_ok in (True, False):
            nodes = [mknode("VM", "RENC", groups=[G("generic", "OVS", ["DedicatedPort"] * 3)]), mknode("VM", "UKY", groups=[G("generic", "OVS", ["DedicatedPort"] * 3)]),
                     mknode("VM", "LBNL", groups=[G("generic", "OVS", ["DedicatedPort"] * 3)])]
            good = mksvc("L2Bridge", [[0, 0, 0], [0, 0, 1]])
            bad = mksvc(ty, [[0, 0, 2], [1, 0, 0], [2, 0, 0]])
            yield {"exp": True, "ov": None, "nodes": nodes, "svcs": [good, bad] if first_ok else [bad, good]}


def grid_E(rng, n):
    """edited tables (correspondence only)"""
    for _ in range(n):
        ty = rng.choice(SVC_TYPES)
        row = dict(PINNED_SVC[ty])
        for f, vals in (("min_interfaces", [0, 1, 2, 3]), ("num_interfaces", [0, 1, 2, 3]), ("num_sites", [0, 1, 2, 3]), ("num_instances", [0, 1, 2])):
            if rng.random() < 0.5:
                row[f] = rng.choice(vals)
        if rng.random() < 0.3:
            row["required_properties"] = rng.sample(SVC_PROPS + ["site"], rng.randrange(0, 3))
        if rng.random() < 0.3:
            row["forbidden_properties"] = rng.sample(SVC_PROPS + ["site"], rng.randrange(0, 3))
        if rng.random() < 0.3:
            row["required_interface_types"] = rng.sample(KINDS + ["ServicePort"], rng.randrange(0, 3))
        ov = {"svc": {ty: row}}
        k = rng.randrange(0, 5)
        pl = rng.choice([p for p in PLACEMENTS if len(p) == k])
        c = service_case(ty, pl, rng.choice(["none", "none", "first", "other"]), [rng.choice(KINDS[:4])] * k,
                         rng.sample(SVC_PROPS, rng.randrange(0, 3)), layout=rng.randrange(2), how="connect", ov=ov)
        # more services of the same type, to reach the instances-per-site rule
        for j in range(rng.randrange(0, 3)):
            ni = len(c["nodes"])
            c["nodes"].append(mknode("VM", rng.choice(SITES), groups=[{"via": "generic", "sty": rng.choice([ty, "OVS"]), "kinds": ["DedicatedPort"] * rng.randrange(1, 3)}]))
            if rng.random() < 0.7:
                c["svcs"].append(mksvc(ty, [[ni, 0, 0]], site=rng.choice([None, None, rng.choice(SITES)]), how="connect"))
        yield c


KEPT_HOWS = ["kept-ctor", "kept-connect", "kept-refused", "kept-churn", "kept-second"]


def grid_F():
    for ty in SVC_TYPES:
        for kind in KINDS:
            for how in ("ctor", "connect"):
                for state in ("fresh", "connected"):
                    yield {"connect": True, "ty": ty, "kind": kind, "how": how, "state": state}
        yield {"connect": True, "ty": ty, "kind": "TrunkPort", "how": "connect", "state": "ownerless"}
    # the same call on a handle that has been used before (the object the constructor returned with an interface already
    # given to it; an object that connected another interface earlier; an object whose earlier connect was refused; an object
    # that connected and disconnected another interface; a second object of the same service made while the first is kept)
    for ty in SVC_TYPES:
        for kind in KINDS:
            for how in KEPT_HOWS:
                for state in ("fresh", "connected"):
                    yield {"connect": True, "ty": ty, "kind": kind, "how": how, "state": state}


# --------------------------------------------------------------------------
# building through the real API

def _imports():
    import fim.user.topology as ft
    from fim.slivers.network_node import NodeType
    from fim.slivers.network_service import ServiceType, MirrorDirection, NetworkServiceSliver, ServiceConstraintRecord
    from fim.slivers.interface_info import InterfaceType
    from fim.slivers.path_info import ERO, Path, PathRepresentationType
    from fim.slivers.capacities_labels import Labels
    from fim.user.component import ComponentModelType
    from fim.user.link import LinkType
    from fim.user.model_element import TopologyException
    return locals()


def prop_kwargs(F, props):
    kw = {}
    for p in props:
        if p == "mirror_port":
            kw[p] = "p1"
        elif p == "mirror_vlan":
            kw[p] = "100"
        elif p == "mirror_direction":
            kw[p] = F["MirrorDirection"].Both
        elif p == "controller_url":
            kw[p] = "http://ctl.example.org:6653"
        elif p == "ero":
            e = F["ERO"]()
            path = F["Path"]()
            path.set_symmetric(["10.1.1.1", "10.1.1.2"])
            e.set(payload=path)
            kw[p] = e
        elif p == "ero@graph":
            # an ERO given by reference to an external graph: set, but "without content" (no hop list)
            e = F["ERO"](F["PathRepresentationType"].Graph)
            e.set(payload="graph-7")
            kw["ero"] = e
        elif p == "ero@empty":
            kw["ero"] = F["ERO"]()
        elif p == "ero@nohops":
            e = F["ERO"]()
            e.set(payload=F["Path"]())
            kw["ero"] = e
        elif p.endswith("@blank") and pbase(p) in BLANKABLE:
            kw[pbase(p)] = ""
        elif p.startswith("mirror_direction#"):
            kw["mirror_direction"] = F["MirrorDirection"][p.split("#", 1)[1]]
        elif "#" in p and pbase(p) in BLANKABLE:
            kw[pbase(p)] = p.split("#", 1)[1]
        else:
            raise Infra("unknown service property %s" % p)
    return kw


class Built:
    pass


def _churn(F, b, svc, s):
    """connect and disconnect again the interfaces listed under 'churn' (history that must not matter)"""
    for x in s.get("churn", ()):
        i = b.iface[tuple(x)]
        try:
            svc.connect_interface(interface=i)
        except F["TopologyException"]:
            continue
        svc.disconnect_interface(interface=i)


def attach(F, t, svc, i):
    """connect_interface, or - when the guardrails refuse - the same wiring through add_interface + add_link;
    returns the name of the service port"""
    owner = t.get_owner_node(i)
    try:
        svc.connect_interface(interface=i)
        return "%s-%s" % (owner.name, i.name)
    except F["TopologyException"]:
        k = len(t.links)
        sp = svc.add_interface(name="%s-%s-h%d" % (owner.name, i.name, k), itype=F["InterfaceType"].ServicePort)
        t.add_link(name="%s-link" % sp.name, ltype=F["LinkType"].L2Path, interfaces=[i, sp])
        return sp.name


def node_name(case, ni):
    """plain: n0, n1, ..; collide: n1, n1-x, n1-x-x, .. (with iface_prefix every '<node>-<interface>' coincides)"""
    n = case["nodes"][ni]
    if n.get("name"):
        return n["name"]
    return "n%d" % ni if case.get("naming", "plain") == "plain" else "n1" + "-x" * ni


def iface_prefix(case, ni):
    if case.get("naming", "plain") == "plain" or case["nodes"][ni].get("name"):
        return ""
    return "x-" * (len(case["nodes"]) - 1 - ni)


def build(case, F):
    """-> Built with .topo, .iface[(n,g,i)], .svc_names (creation order), .abstract (name -> request service)"""
    exp = case["exp"]
    ft = F["ft"]
    IT, ST, NT = F["InterfaceType"], F["ServiceType"], F["NodeType"]
    t = ft.ExperimentTopology() if exp else ft.SubstrateTopology()
    b = Built()
    b.topo, b.iface, b.abstract, b.nodes_abs = t, {}, {}, []
    b.node, b.comp_name, b.owned_name, b.parent_iface = {}, {}, {}, {}      # handles and names, for the history cases
    b.key_of_id = {}      # graph id of a service -> its key in b.abstract (its name; name@node.group when the name is taken)
    ids = itertools.count()
    nid = lambda: None if exp else "id%d" % next(ids)
    for ni, n in enumerate(case["nodes"]):
        name = node_name(case, ni)
        pre = iface_prefix(case, ni)
        groups = n["groups"]
        if groups and groups[0]["via"] == "facility":
            node = t.add_facility(name=name, site=n["site"], node_id=nid(), nstype=ST[groups[0]["sty"]],
                                  interfaces=[(pre + "p%d" % i, None, None) for i in range(len(groups[0]["kinds"]))])
            node = t.facilities[name]
        elif groups and groups[0]["via"] == "switch":
            node = t.add_switch(name=name, site=n["site"], node_id=nid(), nstype=ST[groups[0]["sty"]], nports=len(groups[0]["kinds"]))
        else:
            node = t.add_node(name=name, site=n["site"], ntype=NT[n["ty"]], node_id=nid())
            if n["ty"] == "Facility":
                node = t.facilities[name]
        b.node[ni] = node
        has_comp = False
        for gi, g in enumerate(groups):
            via = g["via"]
            if via == "facility":
                sname = name + "-ns"
                ifs = [node.interfaces[pre + "p%d" % i] for i in range(len(g["kinds"]))]
                direct = ["FacilityPort"] * len(ifs)
                sid = node.network_services[sname].node_id
            elif via == "switch":
                sname = name + "-ns"
                ifs = [node.interfaces["p%d" % (i + 1)] for i in range(len(g["kinds"]))]
                direct = ["DedicatedPort"] * len(ifs)
                sid = node.network_services[sname].node_id
            elif via in ("nic_shared", "nic_smart"):
                cname = g.get("cname") or (pre + "nic%d" % gi)
                model = F["ComponentModelType"].SharedNIC_ConnectX_6 if via == "nic_shared" else F["ComponentModelType"].SmartNIC_ConnectX_6
                comp = node.add_component(name=cname, model_type=model)
                b.comp_name[(ni, gi)] = cname
                has_comp = True
                ifs = list(comp.interface_list)
                direct = [str(i.type) for i in ifs]
                sname = list(comp.network_services.keys())[0]
                sid = comp.network_services[sname].node_id
                if direct != g["kinds"]:
                    raise Infra("NIC %s has ports %s, case says %s" % (via, direct, g["kinds"]))
            else:
                sname = g.get("sname") or "%s-g%d" % (name, gi)      # "sname": a name another node's service may have too
                hs = node.add_network_service(name=sname, nstype=ST[g["sty"]], node_id=nid())
                sid = hs.node_id
                ifs, direct, dnames = [], [], []
                for ii, kind in enumerate(g["kinds"]):
                    if kind == "SubInterface":
                        par = hs.add_interface(name=pre + "p%d" % ii, itype=IT.DedicatedPort, labels=F["Labels"](local_name="p%d" % ii), node_id=nid())
                        ifs.append(par.add_child_interface(name=pre + "p%d.1" % ii, labels=F["Labels"](vlan=str(100 + ii)), node_id=nid()))
                        b.parent_iface[(ni, gi, ii)] = par
                        direct.append("DedicatedPort")
                        dnames.append(pre + "p%d" % ii)
                    else:
                        ifs.append(hs.add_interface(name=pre + "p%d" % ii, itype=IT[kind], node_id=nid()))
                        direct.append(kind)
                        dnames.append(pre + "p%d" % ii)
            if via != "generic":
                dnames = [x.name for x in ifs]
            b.owned_name[(ni, gi)] = sname
            for ii, x in enumerate(ifs):
                b.iface[(ni, gi, ii)] = x
            key = sname if sname not in b.abstract else "%s@%d.%d" % (sname, ni, gi)
            b.key_of_id[sid] = key
            b.abstract[key] = [g["sty"], None, [], n["site"], [["d", nm, k] for nm, k in zip(dnames, direct)]]
        if n["gpu"]:
            node.add_component(name="gpu1", model_type=F["ComponentModelType"].GPU_RTX6000)
            has_comp = True
        if n["image"] == "blank":
            node.set_properties(image_ref="", image_type="")
        elif n["image"]:
            node.set_properties(image_ref="default_rocky_8", image_type="qcow2")
        if n["mgmt"]:
            node.set_property("management_ip", "0.0.0.0" if n["mgmt"] == "zero" else "10.10.10.10")
        props = (["site"] if n["site"] else []) + (["image_ref", "image_type"] if n["image"] is True else []) + \
                (["management_ip"] if n["mgmt"] else []) + (["attached_components_info"] if has_comp else [])
        b.nodes_abs.append([n["ty"], props, ["management_ip"] if n["mgmt"] == "zero" else [],
                            ([] if n["site"] else ["site"]) + (["image_ref", "image_type"] if n["image"] == "blank" else [])])
    svcs = []
    for si, s in enumerate(case["svcs"]):
        name = "svc%d" % si
        ifs = [b.iface[tuple(x)] for x in s["ifs"]]
        kw = prop_kwargs(F, s["props"])
        pnames = None
        if s["how"] == "mirror":
            kw.pop("mirror_port", None)
            if kw.get("mirror_direction") is not None:
                kw["direction"] = kw["mirror_direction"]
            kw.pop("mirror_direction", None)
            if s["site"] is not None:
                kw["site"] = s["site"]
            svc = t.add_port_mirror_service(name=name, from_interface_name="p1", to_interface=ifs[0], **kw)
        elif s["how"] == "ctor":
            try:
                svc = t.add_network_service(name=name, nstype=ST[s["ty"]], interfaces=ifs, site=s["site"], **kw)
            except F["TopologyException"]:
                # refused by the guardrails: wire the interfaces by hand instead
                svc = t.add_network_service(name=name, nstype=ST[s["ty"]], site=s["site"], **kw)
                pnames = [attach(F, t, svc, i) for i in ifs]
        else:
            svc = t.add_network_service(name=name, nstype=ST[s["ty"]], site=s["site"], **kw)
            _churn(F, b, svc, s)
            pnames = [attach(F, t, svc, i) for i in ifs]
        if s["how"] != "connect":
            _churn(F, b, svc, s)
        svcs.append(svc)
        b.key_of_id[svc.node_id] = name
        aifs = []
        for xi, x in enumerate(s["ifs"]):
            n = case["nodes"][x[0]]
            pn = pnames[xi] if pnames else "%s-%s" % (node_name(case, x[0]), b.iface[tuple(x)].name)
            aifs.append(["p", pn, [[n["groups"][x[1]]["kinds"][x[2]], n["site"]]]])
        b.abstract[name] = [s["ty"], s["site"], abs_props(s["props"])[0], None, aifs, abs_props(s["props"])[1], abs_props(s["props"])[2]]
    for si, s in enumerate(case["svcs"]):
        svc, name = svcs[si], "svc%d" % si
        for xi, x in enumerate(s["extra"]):
            if x[0] == "direct":
                svc.add_interface(name="x%d" % xi, itype=IT[x[1]])
                b.abstract[name][4].append(["d", "x%d" % xi, x[1]])
            elif x[0] == "dangling":
                svc.add_interface(name="x%d" % xi, itype=IT.ServicePort)
                b.abstract[name][4].append(["p", "x%d" % xi, None])
            elif x[0] == "peer":
                svc.peer(svcs[x[1]])
                b.abstract[name][4].append(["p", "%s-svc%d" % (name, x[1]), [["ServicePort", None]]])
                b.abstract["svc%d" % x[1]][4].append(["p", "svc%d-%s" % (x[1], name), [["ServicePort", None]]])
            elif x[0] == "two":
                sp = svc.add_interface(name="x%d" % xi, itype=IT.ServicePort)
                t.add_link(name="l%d-%d" % (si, xi), ltype=F["LinkType"].L2Path,
                           interfaces=[sp, b.iface[(0, 0, 1)], b.iface[(0, 0, 2)]])
                b.abstract[name][4].append(["p", "x%d" % xi, [["TrunkPort", case["nodes"][0]["site"]], ["TrunkPort", case["nodes"][0]["site"]]]])
    b.svcs = svcs
    return b


@contextlib.contextmanager
def patched_table(F, ov):
    S = F["NetworkServiceSliver"]
    saved = {}
    try:
        for ty, row in ((ov or {}).get("svc") or {}).items():
            k = F["ServiceType"][ty]
            saved[k] = S.ServiceConstraints[k]
            old = saved[k]
            S.ServiceConstraints[k] = F["ServiceConstraintRecord"](
                layer=old.layer, desc=old.desc, min_interfaces=row["min_interfaces"], num_interfaces=row["num_interfaces"],
                num_sites=row["num_sites"], num_instances=row["num_instances"], required_properties=list(row["required_properties"]),
                forbidden_properties=list(row["forbidden_properties"]),
                required_interface_types=[F["InterfaceType"][x] for x in row["required_interface_types"]])
        yield
    finally:
        for k, v in saved.items():
            S.ServiceConstraints[k] = v


_F = None


def run_case(case):
    """Build, validate, describe. Runs in a worker process."""
    global _F
    if _F is None:
        _F = _imports()
    F = _F
    if case.get("connect"):
        return run_connect(case, F)
    if case.get("hist"):
        return run_history(case, F)
    out = {}
    sink = io.StringIO()
    b = None
    try:
        with contextlib.redirect_stdout(sink):
            try:
                b = build(case, F)
            except Infra:
                raise
            except Exception as e:
                return {"build_err": "%s: %s" % (type(e).__name__, str(e)[:200])}
            t = b.topo
            # every service of the graph, by id (the name-keyed network_services view shows one service per name); one handle each
            ids = list(t.graph_model.get_all_network_service_nodes())
            order = [b.key_of_id.get(sid, "?" + sid) for sid in ids]
            listed = {k: t._get_ns_by_id(sid) for k, sid in zip(order, ids)}
            if sorted(order) != sorted(b.abstract):
                return {"build_err": "services differ: api %s harness %s" % (order, sorted(b.abstract))}
            # sanity of the builder itself: the kinds the API lists for each service are the ones described
            for name in order:
                api = [str(i.type) for i in listed[name].interface_list]
                mine = [x[2] if x[0] == "d" else "ServicePort" for x in b.abstract[name][4]]
                if sorted(api) != sorted(mine):
                    # a fresh handle does not list the interfaces the calls connected (e.g. two of them taken for one because
                    # their derived names coincide): the verdict is still taken and judged; the listing itself is reported as a
                    # disagreement between the implementation and the description of the calls
                    out.setdefault("listing", []).append({"service": name, "api lists": sorted(api), "calls connected": sorted(mine)})
            if case.get("xcheck"):
                mine = [b.abstract[n] for n in order]
                api = extract(t, order, F, listed)
                srt = lambda d: [x[:4] + [sorted(x[4], key=canon)] + [list(x[5]) if len(x) > 5 else []] + [list(x[6]) if len(x) > 6 else []] for x in d]   # the API lists interfaces in its own order
                if canon(srt(api)) != canon(srt(mine)):
                    # the slice the API reports is not the slice the calls describe (e.g. a site recorded at connect time):
                    # a disagreement between implementation and model of the building calls, not a harness failure
                    out["xdiff"] = {"api": json.loads(canon(srt(api))), "calls": json.loads(canon(srt(mine)))}
                out["xchecked"] = True
            node_sites_before = sorted((k, v.site) for k, v in list(t.nodes.items()) + list((t.facilities or {}).items()))
            with patched_table(F, case.get("ov")):
                try:
                    t.validate()
                    status = "ok"
                except Exception as e:
                    status = err_kind(e)
                    out["msg"] = str(e)[:160]
            services = {k: t._get_ns_by_id(sid) for k, sid in zip(order, ids)}
            out["status"] = status
            out["order"] = order
            out["sites"] = [services[n].site for n in order]
            out["types_after"] = [str(services[n].type) for n in order]
            out["node_sites_same"] = node_sites_before == sorted(
                (k, v.site) for k, v in list(t.nodes.items()) + list((t.facilities or {}).items()))
            out["request"] = ["validate", lean_ov(case.get("ov")), bool(case["exp"]), b.nodes_abs, [b.abstract[n] for n in order]]
            return out
    finally:
        if b is not None:
            try:
                b.topo.graph_model.delete_graph()
            except Exception:
                pass


def extract(t, order, F, listed=None):
    """The request-line description of the services, read back through the public API only
    (used on a sample of the cases to check the harness's own abstraction)."""
    out = []
    for name in order:
        s = (listed or t.network_services)[name]
        owner = t.get_owner_node(s)
        ifs = []
        for si in s.interface_list:
            if str(si.type) != "ServicePort":
                ifs.append(["d", si.name, str(si.type)])
                continue
            peers = si.get_peers()
            if peers is None:
                ifs.append(["p", si.name, None])
            else:
                ps = []
                for p in peers:
                    try:
                        o = t.get_owner_node(p)
                    except Exception:
                        o = None
                    ps.append([str(p.type), o.site if o is not None else None])
                ifs.append(["p", si.name, ps])
        # "set" = given a value: a non-empty string or any object, whatever that object's truthiness
        vals = {p: s.get_property(p) for p in SVC_PROPS}
        props = sorted(p for p, v in vals.items() if v is not None and not (isinstance(v, str) and v == ""))
        hollow = sorted(p for p in props if _is_hollow(vals[p]))
        blank = sorted(p for p, v in vals.items() if isinstance(v, str) and v == "")
        out.append([str(s.type), s.site, props, owner.site if owner is not None else None, ifs, hollow, blank])
    return out


def _is_hollow(v):
    """an object-valued property without content: an ERO/PathInfo that refers to a graph, has no payload or no hops"""
    if hasattr(v, "payload") and hasattr(v, "type"):
        pl = v.payload
        return str(v.type) == "Graph" or pl is None or not getattr(pl, "a2z", None)
    return False


def run_connect(case, F):
    ft = F["ft"]
    IT, ST = F["InterfaceType"], F["ServiceType"]
    t = ft.ExperimentTopology()
    try:
        n = t.add_node(name="n0", site="RENC")
        hs = n.add_network_service(name="n0-g0", nstype=ST.OVS)
        kind = case["kind"]
        if kind == "SubInterface":
            par = hs.add_interface(name="p0", itype=IT.DedicatedPort, labels=F["Labels"](local_name="p0"))
            i = par.add_child_interface(name="p0.1", labels=F["Labels"](vlan="100"))
        else:
            i = hs.add_interface(name="p0", itype=IT[kind])
        if case["state"] == "connected":
            t.add_network_service(name="other", nstype=ST.L2Bridge).connect_interface(interface=i)
        if case["state"] == "ownerless":
            i = t.add_network_service(name="loose", nstype=ST.L2Bridge).add_interface(name="x0", itype=IT[kind])
        kw = prop_kwargs(F, baseline_props(case["ty"]))
        before = len(t.network_services)
        try:
            if case["how"] == "ctor":
                t.add_network_service(name="svc0", nstype=ST[case["ty"]], interfaces=[i], **kw)
            elif case["how"] in KEPT_HOWS:
                # an interface every service type supports, on another node, for the earlier use of the handle
                q = t.add_node(name="n1", site="RENC").add_network_service(name="n1-g0", nstype=ST.OVS).add_interface(name="q0", itype=IT.DedicatedPort)
                how = case["how"]
                if how == "kept-ctor":
                    s = t.add_network_service(name="svc0", nstype=ST[case["ty"]], interfaces=[q], **kw)
                else:
                    s = t.add_network_service(name="svc0", nstype=ST[case["ty"]], **kw)
                    if how == "kept-connect":
                        s.connect_interface(interface=q)
                    elif how == "kept-refused":
                        t.add_network_service(name="taken", nstype=ST.L2Bridge).connect_interface(interface=q)
                        try:
                            s.connect_interface(interface=q)
                            return {"build_err": "connect of an interface that is taken was not refused"}
                        except F["TopologyException"]:
                            pass
                    elif how == "kept-churn":
                        s.connect_interface(interface=q)
                        s.disconnect_interface(interface=q)
                    elif how == "kept-second":
                        s.connect_interface(interface=q)
                        s = t.network_services["svc0"]
                s.connect_interface(interface=i)
            else:
                s = t.add_network_service(name="svc0", nstype=ST[case["ty"]], **kw)
                s.connect_interface(interface=i)
            status = "ok"
        except Exception as e:
            status = err_kind(e)
        peers = i.get_peers()
        return {"status": status, "attached": bool(peers) and case["state"] != "connected",
                "request": ["connect", case["how"] == "ctor", case["ty"], kind, case["state"] != "ownerless", case["state"] == "connected"]}
    finally:
        t.graph_model.delete_graph()


def lean_ov(ov):
    if not ov:
        return None
    return {"svc": {ty: [r["min_interfaces"], r["num_interfaces"], r["num_sites"], r["num_instances"], r["required_properties"],
                         r["forbidden_properties"], r["required_interface_types"]] for ty, r in ov["svc"].items()}}


def run_cases(cases, procs):
    if procs <= 1 or len(cases) < 40:
        return [run_case(c) for c in cases]
    ctx = multiprocessing.get_context("fork")
    with ctx.Pool(procs) as pool:
        return pool.map(run_case, cases, chunksize=max(1, min(50, len(cases) // (procs * 4))))


# --------------------------------------------------------------------------
# the oracle: is this slice valid according to the pinned table?

def node_reasons(ty, has):
    """why a node of this type with these properties set is invalid"""
    out = []
    row = PINNED_NODE[ty]
    for p in row["required_properties"]:
        if p not in has:
            out.append(("node-required", "%s:%s" % (ty, p)))
    for p in row["forbidden_properties"]:
        if p in has:
            out.append(("facility-node-forbidden" if ty == "Facility" else "node-forbidden:" + p, "%s:%s" % (ty, p)))
    return out


def svc_reasons(exp, name, ty, declared, props, ifs, port_errors=0):
    """One service against its pinned row. ifs = [(kind, site of the owner node | None)] - the node-side interface each of its
    interfaces stands for; port_errors = number of service ports without exactly one peer.
    -> (reasons, the site inferred from the interfaces when none is declared and it is unambiguous)"""
    reasons = [("service-port-peers", name)] * port_errors
    row = PINNED_SVC[ty]
    k = len(ifs)
    if exp:
        if row["min_interfaces"] != NL and k < row["min_interfaces"]:
            reasons.append(("min-interfaces", name))
        if row["num_interfaces"] != NL and k > row["num_interfaces"]:
            reasons.append(("max-interfaces", name))
    inferred = None
    if row["num_sites"] != NL:
        if any(site is None for _, site in ifs):
            reasons.append(("interface-without-owner", name))
        sites = {site for _, site in ifs if site is not None}
        if len(sites) > row["num_sites"]:
            reasons.append(("max-sites", name))
        if declared and ifs and any(site != declared for _, site in ifs if site is not None):
            reasons.append(("declared-site-mismatch" if len(sites) == 1 else "declared-site-multisite", name))
        if not declared and len(sites) == 1 and not any(site is None for _, site in ifs):
            inferred = next(iter(sites))
    has = set(props)
    if declared or inferred:
        has.add("site")
    for p in row["required_properties"]:
        if p not in has:
            reasons.append(("service-required:" + p, name))
    for p in row["forbidden_properties"]:
        if p in has:
            reasons.append(("service-forbidden:" + p, name))
    if row["required_interface_types"]:
        if any(kind not in row["required_interface_types"] for kind, _ in ifs):
            reasons.append(("interface-type", name))
    return reasons, inferred


def pinned_site(x, ty, reading):
    """The site an earlier validation left on a service (description field "pinned" = {"site", "ok"}), under two readings:
    'state' - it is part of the slice as it is, like a declared site; 'property' - only what the property says a validation
    records counts: the site inferred by a *successful* validation of a *single-site* service type."""
    pin = x.get("pinned")
    if not pin:
        return None
    if reading == "state" or (pin["ok"] and PINNED_SVC[ty]["num_sites"] == 1):
        return pin["site"]
    return None


def expected(case, reading="state", inferred_out=None):
    """-> (reasons, sites) : reasons = list of (class, detail) why the slice is invalid ([] = valid);
    sites = {service name: site that must be recorded after a successful validation}.
    inferred_out (a dict) receives, for every service, the site a validation infers (what the code writes down)."""
    reasons = []
    must_site = {}
    exp = case["exp"]
    for ni, n in enumerate(case["nodes"]):
        if n.get("removed"):
            continue
        has = set()
        if n["site"]:
            has.add("site")
        if n["image"] is True:
            has |= {"image_ref", "image_type"}
        if n["mgmt"]:
            has.add("management_ip")
        if n["gpu"] or any(g["via"].startswith("nic") and not g.get("removed") for g in n["groups"]):
            has.add("attached_components_info")
        reasons += node_reasons(n["ty"], has)
    # every service: (name, type, declared, props, [(kind, site or None if owner-less)], extra)
    services = []
    for ni, n in enumerate(case["nodes"]):
        if n.get("removed"):
            continue
        for gi, g in enumerate(n["groups"]):
            if g.get("removed"):
                continue
            kinds = ["DedicatedPort" if (k == "SubInterface" and g["via"] == "generic") else k for k in g["kinds"]]
            services.append(("n%d.g%d" % (ni, gi), g["sty"], pinned_site(g, g["sty"], reading), set(), [(k, n["site"]) for k in kinds], []))
    for si, s in enumerate(case["svcs"]):
        ifs = []
        for x in s["ifs"]:
            n = case["nodes"][x[0]]
            ifs.append((n["groups"][x[1]]["kinds"][x[2]], n["site"]))
        services.append(("svc%d" % si, s["ty"], s["site"] or pinned_site(s, s["ty"], reading), set(abs_props(s["props"])[0]), ifs, s["extra"]))
    peered = {}
    for si, s in enumerate(case["svcs"]):
        for x in s["extra"]:
            if x[0] == "peer":
                peered.setdefault(x[1], []).append(si)
    for idx, (name, ty, declared, props, ifs, extra) in enumerate(services):
        ifs = list(ifs)
        si = int(name[3:]) if name.startswith("svc") else None
        port_errors = 0
        for x in list(extra) + [["peer", None]] * len(peered.get(si, [])):
            if x[0] == "direct":
                ifs.append((x[1], None))           # an interface nobody owns
            elif x[0] == "peer":
                ifs.append(("ServicePort", None))
            elif x[0] in ("dangling", "two"):
                port_errors += 1
        r, inferred = svc_reasons(exp, name, ty, declared, props, ifs, port_errors)
        reasons += r
        if inferred is not None:
            if PINNED_SVC[ty]["num_sites"] == 1 and name.startswith("svc"):
                must_site[name] = inferred
            if inferred_out is not None:
                inferred_out[name] = inferred
    return reasons, must_site


def expected_abstract(exp, nodes_abs, svcs_abs):
    """The same decision on the slice *as it is*, read back through the API in the form of a validate request:
    nodes [[type, [set properties], ..]], services [[type, site, [set properties], owner site, [interface..], ..]].
    -> reasons"""
    reasons = []
    for n in nodes_abs:
        reasons += node_reasons(n[0], set(n[1]))
    for k, x in enumerate(svcs_abs):
        ty, site, props, owner, aifs = x[0], x[1], x[2], x[3], x[4]
        ifs, port_errors = [], 0
        for i in aifs:
            if i[0] == "d":
                ifs.append((i[2], owner))
            elif i[2] is None or len(i[2]) != 1:
                port_errors += 1
            else:
                ifs.append((i[2][0][0], i[2][0][1]))
        r, _ = svc_reasons(exp, "service%d" % k, ty, site, set(props), ifs, port_errors)
        reasons += r
    return reasons


def judge(case, out, res):
    """compare the implementation's verdict on one case with the oracle"""
    if "status" not in out:
        return
    reasons, must_site = expected(case)
    status = out["status"]
    cls = sorted({r[0] for r in reasons})
    if status == "ok" and reasons:
        snames = [g.get("sname") for n in case["nodes"] for g in n["groups"] if g.get("sname")]
        dup = "same-named-service:" if len(set(snames)) < len(snames) else ""      # services of different nodes with one name
        for c in cls:
            res.violation("C10:validate:accepts-invalid:" + dup + c, "validate() accepts a slice that violates the constraint table (%s)" % c,
                          case, expected={"verdict": "reject", "reasons": reasons}, observed={"verdict": "accept"})
    elif status != "ok" and not reasons:
        res.violation("C10:validate:rejects-valid:" + status, "validate() rejects a slice the constraint table allows",
                      case, expected={"verdict": "accept"}, observed={"verdict": status, "message": out.get("msg")})
    elif status not in ("ok", "topology"):
        main = "interface-without-owner" if "interface-without-owner" in cls else "+".join(cls)
        res.violation("C10:validate:crash:%s:%s" % (status, main), "validate() fails with %s instead of rejecting with TopologyException" % status,
                      case, expected={"verdict": "reject (TopologyException)", "reasons": reasons}, observed={"verdict": status, "message": out.get("msg")})
    if status == "ok":
        got = dict(zip(out["order"], out["sites"]))
        for name, site in must_site.items():
            if got.get(name) != site:
                res.violation("C10:site-recorded:missing", "successful validation did not record the inferred site on a single-site service",
                              case, expected={name: site}, observed={name: got.get(name)})
        for si, s in enumerate(case["svcs"]):
            if s["site"] and got.get("svc%d" % si) != s["site"]:
                res.violation("C10:site-recorded:declared-overwritten", "validation changed a declared site", case,
                              expected={"svc%d" % si: s["site"]}, observed={"svc%d" % si: got.get("svc%d" % si)})
        if not out.get("node_sites_same", True):
            res.violation("C10:site-recorded:node-site-changed", "validation changed a node's site", case)
    res.count("oracle:" + ("valid" if not reasons else "invalid"))
    for c in cls:
        res.count("reason:" + c)


def judge_connect(case, out, res):
    unsupported = (case["ty"], case["kind"]) in PINNED_GUARD
    must_refuse = unsupported or case["state"] in ("connected", "ownerless")
    if must_refuse and out["status"] == "ok":
        sig = "C10:connect:accepts-unsupported:%s:%s:%s" % (case["how"], case["ty"], case["kind"]) if unsupported else \
            "C10:connect:accepts:%s:%s" % (case["how"], case["state"])
        res.violation(sig, "attaching an interface the service type cannot support is not refused at once", case,
                      expected={"verdict": "refuse"}, observed={"verdict": "connected"})
    elif not must_refuse and out["status"] != "ok":
        res.violation("C10:connect:refuses-supported:%s:%s:%s" % (case["how"], case["ty"], case["kind"]),
                      "attaching a supported interface is refused", case, expected={"verdict": "connect"}, observed={"verdict": out["status"]})
    elif must_refuse and out["status"] != "topology":
        res.violation("C10:connect:crash:%s" % out["status"], "attach fails with %s instead of TopologyException" % out["status"], case)
    res.count("connect:" + ("refuse" if must_refuse else "allow"))


# --------------------------------------------------------------------------
# histories: the verdict must depend on the slice as it is, not on the calls that made it
#
# hist case = {"hist": True, "exp": True, "naming", "nodes": [node], "svcs": [{"ty","site","props"}], "ops": [op]}
# op = ["connect", si, [n,g,i]] | ["disconnect", si, [n,g,i]] (the call is made on service si, whichever service the
#      interface is connected to) | ["remove_node", ni] | ["remove_comp", ni, gi] | ["rename_node", ni, name] |
#      ["rename_iface", [n,g,i], name] | ["set_site", ni, site] | ["peer", si, sj] | ["unpeer", si, sj] |
#      ["disconnect_port", si, sj] | ["validate"]
# Services start without interfaces; nodes have generic / NIC groups only. The last op is a validate.

def hist_case(nodes, svcs, ops, naming="plain", exp=True, kept=False):
    for ni, n in enumerate(nodes):
        for g in n["groups"]:
            if g["via"] != "generic":
                g["cname"] = "c%d" % ni       # distinct component (hence service) names whatever the node naming
    c = {"hist": True, "exp": exp, "ov": None, "naming": naming, "nodes": nodes,
         "svcs": [{"ty": ty, "site": site, "props": sorted(props)} for ty, site, props in svcs], "ops": [list(o) for o in ops]}
    if kept:
        c["kept"] = True      # connects are made on the objects add_network_service returned, kept for the whole history
    return c


def _vm(site, kinds=("DedicatedPort", "DedicatedPort"), nic=None, **kw):
    groups = [{"via": "generic", "sty": "OVS", "kinds": list(kinds)}]
    if nic:
        groups.append({"via": nic, "sty": "OVS", "kinds": ["SharedPort"] if nic == "nic_shared" else ["DedicatedPort"] * 2})
    return mknode("VM", site, groups=groups, **kw)


HIST_TYPES = ["L2Bridge", "L2STS", "L2PTP", "L2Path", "FABNetv4", "L3VPN", "PortMirror", "L2Multisite"]


def grid_G2():
    """always run: deterministic histories"""
    V = ["validate"]
    three = lambda: [_vm("RENC"), _vm("UKY"), _vm("RENC", nic="nic_smart")]
    for ty in SVC_TYPES:
        bp = baseline_props(ty)
        # validate, move to another site / within the site, validate again
        for target in ([1, 0, 0], [2, 0, 0]):
            yield hist_case(three(), [(ty, None, bp)], [["connect", 0, [0, 0, 0]], V, ["disconnect", 0, [0, 0, 0]], ["connect", 0, target], V])
        # grow after a validation: second interface in the same site / in another site
        for target in ([2, 0, 0], [1, 0, 0]):
            yield hist_case(three(), [(ty, None, bp)], [["connect", 0, [0, 0, 0]], V, ["connect", 0, target], V])
            yield hist_case(three(), [(ty, None, bp)], [["connect", 0, [0, 0, 0]], V, ["connect", 0, target], V], kept=True)
        # one kept object: a supported interface, then one of a kind the type may not support, then one that is taken
        yield hist_case([_vm("RENC"), _vm("UKY", kinds=("SharedPort", "SharedPort")), _vm("RENC")], [(ty, None, bp), ("L2Bridge", None, [])],
                        [["connect", 0, [0, 0, 0]], ["connect", 0, [1, 0, 0]], ["connect", 1, [2, 0, 0]], ["connect", 0, [2, 0, 0]], V], kept=True)
        # a failed validation (another service spans too many sites) comes first, then that service is repaired and this one moved
        yield hist_case(three(), [(ty, None, bp), ("L2Bridge", None, [])],
                        [["connect", 0, [0, 0, 0]], ["connect", 1, [0, 0, 1]], ["connect", 1, [1, 0, 1]], V,
                         ["disconnect", 1, [1, 0, 1]], ["disconnect", 0, [0, 0, 0]], ["connect", 0, [1, 0, 0]], V])
        # the owner of an interface goes away between connect and validate: node, component
        for gone in (["remove_node", 1], ["remove_node", 0]):
            yield hist_case(three(), [(ty, None, bp)], [["connect", 0, [0, 0, 0]], ["connect", 0, [1, 0, 0]], ["connect", 0, [2, 0, 0]], gone, V])
        yield hist_case(three(), [(ty, None, bp)], [["connect", 0, [0, 0, 0]], ["connect", 0, [2, 1, 0]], ["connect", 0, [2, 1, 1]], ["remove_comp", 2, 1], V])
        yield hist_case(three(), [(ty, None, bp)], [["connect", 0, [2, 1, 0]], ["connect", 0, [1, 0, 0]], V, ["remove_comp", 2, 1], V])
        # names are labels: renamed before the connect, after it, so that the derived names coincide
        for ops in ([["rename_node", 0, "n1"], ["rename_node", 1, "n1-x"], ["rename_iface", [0, 0, 0], "x-p0"], ["rename_iface", [1, 0, 0], "p0"],
                     ["connect", 0, [0, 0, 0]], ["connect", 0, [1, 0, 0]], V],
                    [["connect", 0, [0, 0, 0]], ["connect", 0, [1, 0, 0]], ["rename_node", 0, "zz"], ["rename_iface", [1, 0, 0], "qq"], V],
                    [["connect", 0, [0, 0, 0]], ["rename_node", 0, "n1"], ["rename_iface", [0, 0, 0], "p0"], ["connect", 0, [1, 0, 0]], V, ["rename_node", 1, "ww"], V]):
            yield hist_case(three(), [(ty, None, bp)], ops)
        # the node moves to another site: before the first validation, between two validations
        yield hist_case(three(), [(ty, None, bp)], [["connect", 0, [0, 0, 0]], ["connect", 0, [2, 0, 0]], ["set_site", 2, "UKY"], V])
        yield hist_case(three(), [(ty, None, bp)], [["connect", 0, [0, 0, 0]], ["connect", 0, [2, 0, 0]], V, ["set_site", 2, "UKY"], V])
        # every order of the same three connections over two services
        conns = [["connect", 0, [0, 0, 0]], ["connect", 0, [1, 0, 0]], ["connect", 1, [2, 0, 0]]]
        for perm in itertools.permutations(conns):
            yield hist_case(three(), [(ty, None, bp), (ty, None, bp)], list(perm) + [V])
    for ty in HIST_TYPES:
        bp = baseline_props(ty)
        # peered services: peer, unpeer, disconnect called on the peering port, disconnect called on the wrong service
        two = [(ty, None, bp), (ty, None, bp)]
        wired = [["connect", 0, [0, 0, 0]], ["connect", 1, [1, 0, 0]]]
        yield hist_case(three(), two, wired + [["peer", 0, 1], V])
        yield hist_case(three(), two, wired + [["peer", 0, 1], ["unpeer", 0, 1], V])
        yield hist_case(three(), two, wired + [["peer", 0, 1], V, ["unpeer", 1, 0], V])
        yield hist_case(three(), two, wired + [["peer", 0, 1], ["disconnect_port", 0, 1], V])
        yield hist_case(three(), two, wired + [["peer", 0, 1], ["peer", 0, 1], V])
        yield hist_case(three(), two, wired + [["disconnect", 1, [0, 0, 0]], V])
        yield hist_case(three(), two, wired + [["connect", 1, [0, 0, 0]], ["disconnect", 0, [1, 0, 0]], V, ["connect", 0, [1, 0, 0]], V])


def random_histories(rng, n):
    for _ in range(n):
        nodes = [_vm(rng.choice(SITES[:2]), kinds=[rng.choice(["DedicatedPort", "SharedPort", "DedicatedPort"])] * 2,
                     nic=rng.choice([None, None, "nic_smart", "nic_shared"])) for _ in range(rng.randrange(2, 5))]
        tys = [rng.choice(SVC_TYPES) for _ in range(rng.randrange(1, 3))]
        svcs = [(ty, rng.choice([None, None, None, "RENC"]),
                 [(p + "#" + rng.choice(value_variants(p))) if value_variants(p) and rng.random() < 0.5 else p for p in baseline_props(ty)]) for ty in tys]
        keys = [[ni, gi, ii] for ni, nd in enumerate(nodes) for gi, g in enumerate(nd["groups"]) for ii in range(len(g["kinds"]))]
        ops, names = [], itertools.count()
        for _ in range(rng.randrange(3, 11)):
            r = rng.random()
            if r < 0.42:
                ops.append(["connect", rng.randrange(len(svcs)), rng.choice(keys)])
            elif r < 0.56:
                ops.append(["disconnect", rng.randrange(len(svcs)), rng.choice(keys)])
            elif r < 0.68:
                ops.append(["validate"])
            elif r < 0.74:
                ops.append(["remove_node", rng.randrange(len(nodes))])
            elif r < 0.80:
                nics = [(ni, gi) for ni, nd in enumerate(nodes) for gi, g in enumerate(nd["groups"]) if g["via"] != "generic"]
                if nics:
                    ops.append(["remove_comp"] + list(rng.choice(nics)))
            elif r < 0.86:
                ops.append(["set_site", rng.randrange(len(nodes)), rng.choice(SITES)])
            elif r < 0.92:
                ops.append(["rename_node", rng.randrange(len(nodes)), "rn%d" % next(names)])
            elif r < 0.96:
                ops.append(["rename_iface", rng.choice(keys), "ri%d" % next(names)])
            elif len(svcs) > 1:
                ops.append([rng.choice(["peer", "unpeer", "peer"]), 0, 1])
        yield hist_case(nodes, svcs, ops + [["validate"]], naming=rng.choice(["plain", "collide"]), kept=rng.random() < 0.4)


def hist_ids(case):
    """stable numbers for the model: interface ids (a SubInterface also has a parent port), component ids"""
    ids, parents, k = {}, {}, 0
    for ni, n in enumerate(case["nodes"]):
        for gi, g in enumerate(n["groups"]):
            for ii, kind in enumerate(g["kinds"]):
                if kind == "SubInterface" and g["via"] == "generic":
                    parents[(ni, gi, ii)] = k
                    k += 1
                ids[(ni, gi, ii)] = k
                k += 1
    return ids, parents


def hist_request(case, b):
    ids, parents = hist_ids(case)
    nodes, ifaces, owned = [], [], []
    for ni, n in enumerate(case["nodes"]):
        comps = [100 * ni + gi for gi, g in enumerate(n["groups"]) if g["via"] != "generic"] + ([100 * ni + 99] if n["gpu"] else [])
        props = (["image_ref", "image_type"] if n["image"] is True else []) + (["management_ip"] if n["mgmt"] else [])
        nodes.append([ni, node_name(case, ni), n["ty"], n["site"], props, ["management_ip"] if n["mgmt"] == "zero" else [],
                      ["image_ref", "image_type"] if n["image"] == "blank" else [], comps])
        for gi, g in enumerate(n["groups"]):
            comp = None if g["via"] == "generic" else 100 * ni + gi
            direct = []
            for ii, kind in enumerate(g["kinds"]):
                x = b.iface[(ni, gi, ii)]
                if (ni, gi, ii) in parents:
                    ifaces.append([parents[(ni, gi, ii)], b.parent_iface[(ni, gi, ii)].name, "DedicatedPort", ni, comp])
                    direct.append(parents[(ni, gi, ii)])
                else:
                    direct.append(ids[(ni, gi, ii)])
                ifaces.append([ids[(ni, gi, ii)], x.name, kind, ni, comp])
            owned.append([b.owned_name[(ni, gi)], g["sty"], ni, comp, direct])
    svcs = [["svc%d" % si, x["ty"], x["site"]] + list(abs_props(x["props"])) for si, x in enumerate(case["svcs"])]
    ops = []
    for o in case["ops"]:
        k = o[0]
        if k == "connect":
            ops.append(["connect", "svc%d" % o[1], ids[tuple(o[2])]])
        elif k == "disconnect":
            ops.append(["disconnect", ids[tuple(o[2])]])
        elif k == "remove_node":
            ops.append(["removeNode", o[1]])
        elif k == "remove_comp":
            ops.append(["removeComp", o[1], 100 * o[1] + o[2]])
        elif k == "rename_node":
            ops.append(["renameNode", o[1], o[2]])
        elif k == "rename_iface":
            ops.append(["renameIface", ids[tuple(o[1])], o[2]])
        elif k == "set_site":
            ops.append(["setSite", o[1], o[2]])
        elif k in ("peer", "unpeer"):
            ops.append([k, "svc%d" % o[1], "svc%d" % o[2]])
        elif k == "disconnect_port":
            ops.append(["disconnectPort", "svc%d" % o[1], "svc%d" % o[2]])
        else:
            ops.append(["validate"])
    return ["history", None, bool(case["exp"]), nodes, ifaces, owned, svcs, ops]


def extract_nodes(t):
    """the nodes of the slice as it is: [type, [set properties], [hollow], [blank]]"""
    out = []
    for n in list(t.nodes.values()) + list((t.facilities or {}).values()):
        props, hollow, blank = [], [], []
        for p in ("site", "image_ref", "image_type", "management_ip"):
            v = n.get_property(p)
            if v is None:
                continue
            if isinstance(v, str) and v == "":
                blank.append(p)
                continue
            props.append(p)
            if p == "management_ip" and int(v) == 0:
                hollow.append(p)
        if len(n.components) > 0:
            props.append("attached_components_info")
        out.append([str(n.type), props, hollow, blank])
    return out


def run_history(case, F):
    base = {"exp": case["exp"], "ov": None, "naming": case.get("naming", "plain"), "nodes": case["nodes"],
            "svcs": [mksvc(x["ty"], [], site=x["site"], props=x["props"], how="connect") for x in case["svcs"]]}
    b = None
    sink = io.StringIO()
    try:
        with contextlib.redirect_stdout(sink):
            try:
                b = build(base, F)
            except Infra:
                raise
            except Exception as e:
                return {"build_err": "%s: %s" % (type(e).__name__, str(e)[:200])}
            return _run_history(case, F, b)
    finally:
        if b is not None:
            try:
                b.topo.graph_model.delete_graph()
            except Exception:
                pass


def _run_history(case, F, b):
    t = b.topo
    request = hist_request(case, b)        # before the calls: a rename changes the names the handles carry
    TE = F["TopologyException"]
    name_of = {ni: node_name(case, ni) for ni in range(len(case["nodes"]))}
    svc = lambda si: t.network_services["svc%d" % si]

    def facing_port(si, sj):
        theirs = {x.node_id for x in svc(sj).interface_list}
        for own in svc(si).interface_list:
            if str(own.type) == "ServicePort":
                for p in own.get_peers(itype=F["InterfaceType"].ServicePort) or []:
                    if p.node_id in theirs:
                        return own
        return None
    statuses, snaps = [], []
    for o in case["ops"]:
        k = o[0]
        try:
            if k == "validate":
                listed = t.network_services
                order = list(listed.keys())
                before = {"nodes": extract_nodes(t), "svcs": dict(zip(order, extract(t, order, F, listed)))}
                try:
                    t.validate()
                    st = "ok"
                except Exception as e:
                    st = err_kind(e)
                after = t.network_services
                snaps.append({"before": before, "status": st, "sites": {n: after[n].site for n in after.keys()}})
                statuses.append(st)
                continue
            if k == "connect":
                (b.svcs[o[1]] if case.get("kept") else svc(o[1])).connect_interface(interface=b.iface[tuple(o[2])])
            elif k == "disconnect":
                svc(o[1]).disconnect_interface(interface=b.iface[tuple(o[2])])
            elif k == "remove_node":
                t.remove_node(name=name_of[o[1]])
            elif k == "remove_comp":
                t.nodes[name_of[o[1]]].remove_component(name=b.comp_name[(o[1], o[2])])
            elif k == "rename_node":
                t.nodes[name_of[o[1]]].rename(o[2])
                name_of[o[1]] = o[2]
            elif k == "rename_iface":
                b.iface[tuple(o[1])].rename(o[2])
            elif k == "set_site":
                t.nodes[name_of[o[1]]].site = o[2]
            elif k == "peer":
                svc(o[1]).peer(svc(o[2]))
            elif k == "unpeer":
                svc(o[1]).unpeer(svc(o[2]))
            elif k == "disconnect_port":
                sp = facing_port(o[1], o[2])
                if sp is None:
                    raise KeyError("no facing port")
                svc(o[1]).disconnect_interface(interface=sp)
            statuses.append("ok")
        except Exception as e:
            statuses.append(err_kind(e))
    listed = t.network_services
    order = list(listed.keys())
    final = {"nodes": extract_nodes(t), "svcs": dict(zip(order, extract(t, order, F, listed)))}
    return {"hist": True, "statuses": statuses, "snaps": snaps, "final": final, "request": request,
            "owned": {"n%d.g%d" % k: v for k, v in b.owned_name.items()}}


def hist_describe(case):
    """The description-level book-keeping of a history: what each call means for the slice (independent of the model).
    Yields, for every validate, the description at that moment; the caller records the verdict and the sites."""
    st = {"exp": case["exp"], "nodes": json.loads(json.dumps(case["nodes"])),
          "svcs": [mksvc(x["ty"], [], site=x["site"], props=x["props"], how="connect") for x in case["svcs"]], "opaque": None}
    return st


def hist_apply(st, o, refused):
    """apply one non-validate call to the description; `refused`: the implementation raised"""
    k = o[0]
    if refused:
        return
    alive = lambda key: not st["nodes"][key[0]].get("removed") and not st["nodes"][key[0]]["groups"][key[1]].get("removed")
    if k == "connect":
        st["svcs"][o[1]]["ifs"].append(list(o[2]))
    elif k == "disconnect":
        for si, x in enumerate(st["svcs"]):
            if list(o[2]) in x["ifs"]:
                x["ifs"].remove(list(o[2]))
                if si != o[1]:
                    st["opaque"] = st["opaque"] or "disconnect called on a service the interface is not connected to"
    elif k == "remove_node":
        st["nodes"][o[1]]["removed"] = True
        for x in st["svcs"]:
            x["ifs"] = [i for i in x["ifs"] if i[0] != o[1]]
    elif k == "remove_comp":
        st["nodes"][o[1]]["groups"][o[2]]["removed"] = True
        for x in st["svcs"]:
            x["ifs"] = [i for i in x["ifs"] if not (i[0] == o[1] and i[1] == o[2])]
    elif k == "set_site":
        st["nodes"][o[1]]["site"] = o[2]
    elif k == "peer":
        st["svcs"][o[1]]["extra"].append(["peer", o[2]])
    elif k == "unpeer":
        for a, bb in ((o[1], o[2]), (o[2], o[1])):
            if ["peer", bb] in st["svcs"][a]["extra"]:
                st["svcs"][a]["extra"].remove(["peer", bb])
                break
    elif k == "disconnect_port":
        st["opaque"] = st["opaque"] or "disconnect called on a peering service port"


def hist_must_refuse(st, o):
    """must the call be refused at once? (None: the description does not say)"""
    k = o[0]
    gone = lambda ni: st["nodes"][ni].get("removed")
    if k == "connect":
        key = list(o[2])
        n = st["nodes"][key[0]]
        if gone(key[0]) or n["groups"][key[1]].get("removed"):
            return None
        kind = n["groups"][key[1]]["kinds"][key[2]]
        return (st["svcs"][o[1]]["ty"], kind) in PINNED_GUARD or any(key in x["ifs"] for x in st["svcs"])
    if k == "remove_node":
        return bool(gone(o[1]))
    return None


def judge_history(case, out, res):
    """(1) as it is: every validate's verdict is the oracle's verdict on the slice read back through the API just before it;
    (2) as described: ... and on the slice the calls describe; (3) what a validation leaves behind is only what the property
    says it records."""
    st = hist_describe(case)
    vi = 0
    for o, status in zip(case["ops"], out["statuses"]):
        if o[0] != "validate":
            must = hist_must_refuse(st, o) if not st["opaque"] else None
            if o[0] == "connect" and must is not None:
                if must and status == "ok":
                    res.violation("C10:history:connect:accepts-unsupported", "a connect that must be refused at once succeeds", case,
                                  expected={"call": o, "verdict": "refuse"}, observed={"verdict": "connected"})
                elif not must and status != "ok":
                    res.violation("C10:history:connect:refuses-supported:" + status, "a supported connect is refused", case,
                                  expected={"call": o, "verdict": "connect"}, observed={"verdict": status})
            hist_apply(st, o, status != "ok")
            continue
        snap = out["snaps"][vi]
        vi += 1
        status = snap["status"]
        # (1) the slice as it is
        order = list(snap["before"]["svcs"].keys())
        r_asis = expected_abstract(case["exp"], snap["before"]["nodes"], [snap["before"]["svcs"][n] for n in order])
        cls = sorted({r[0] for r in r_asis})
        if status == "ok" and r_asis:
            for c in cls:
                res.violation("C10:history:accepts-invalid:" + c, "validate() accepts a slice that, as it is, violates the constraint table (%s)" % c,
                              case, expected={"verdict": "reject", "reasons": r_asis, "validate#": vi}, observed={"verdict": "accept"})
        elif status != "ok" and not r_asis:
            res.violation("C10:history:rejects-valid:" + status, "validate() rejects a slice that, as it is, the constraint table allows",
                          case, expected={"verdict": "accept", "validate#": vi}, observed={"verdict": status})
        elif status not in ("ok", "topology"):
            res.violation("C10:history:crash:%s" % status, "validate() fails with %s instead of rejecting with TopologyException" % status, case)
        res.count("history:as-is:" + ("valid" if not r_asis else "invalid"))
        # (2) the slice as described by the calls
        if not st["opaque"]:
            inferred = {}
            r_state, must_site = expected(st, "state", inferred)
            r_prop, _ = expected(st, "property")
            if bool(r_state) != bool(r_asis):
                res.violation("C10:history:slice-differs:" + "+".join(sorted({r[0] for r in (r_state or r_asis)})),
                              "the slice the API reports is not the slice the calls describe", case,
                              expected={"described": r_state or "valid", "validate#": vi}, observed={"as it is": r_asis or "valid"})
            elif status != "ok" and r_state and not r_prop:
                # rejected only because of a site an earlier validation left behind although the property does not say it records it
                why = set()
                for x in list(st["svcs"]) + [g for n in st["nodes"] for g in n["groups"]]:
                    pin = x.get("pinned")
                    ty = x.get("ty") or x.get("sty")
                    if pin and not x.get("site") and not (pin["ok"] and PINNED_SVC[ty]["num_sites"] == 1):
                        why.add("failed-validate" if not pin["ok"] else "multi-site-type")
                for w in sorted(why):
                    res.violation("C10:history:site-pinned:" + w, "validate() rejects a slice only because of a site an earlier validate() wrote on a "
                                  "service although the property does not say it records one there", case,
                                  expected={"verdict": "accept", "validate#": vi}, observed={"verdict": status, "reasons": r_state})
            res.count("history:described:" + ("valid" if not r_state else "invalid"))
            # what the validation wrote down
            names = {"svc%d" % si: x for si, x in enumerate(st["svcs"])}
            for ni, n in enumerate(st["nodes"]):
                for gi, g in enumerate(n["groups"]):
                    names["n%d.g%d" % (ni, gi)] = g
            if status == "ok":
                for name, site in must_site.items():
                    if snap["sites"].get(name) != site:
                        res.violation("C10:site-recorded:missing", "successful validation did not record the inferred site on a single-site service",
                                      case, expected={name: site}, observed={name: snap["sites"].get(name)})
            for si, x in enumerate(st["svcs"]):
                got = snap["sites"].get("svc%d" % si)
                was = x["site"] or (x.get("pinned") or {}).get("site")
                if got != was:
                    if was or got != inferred.get("svc%d" % si):
                        res.violation("C10:history:site-changed", "validate() changed the site of a service to something other than the inferred site",
                                      case, expected={"svc%d" % si: [was, inferred.get("svc%d" % si)]}, observed={"svc%d" % si: got})
                    else:
                        x["pinned"] = {"site": got, "ok": status == "ok"}
            # services of nodes and components: the code writes the inferred site there as well
            for name, x in names.items():
                api = out["owned"].get(name)
                if name.startswith("n") and api in snap["sites"]:
                    got, was = snap["sites"][api], (x.get("pinned") or {}).get("site")
                    if got != was:
                        if was or got != inferred.get(name):
                            res.violation("C10:history:site-changed", "validate() changed the site of a service to something other than the inferred site",
                                          case, expected={api: [was, inferred.get(name)]}, observed={api: got})
                        else:
                            x["pinned"] = {"site": got, "ok": status == "ok"}
    res.count("history:ops:%d" % min(len(case["ops"]), 12))


# --------------------------------------------------------------------------
# pipeline entry points

_CACHE = {}


def case_list(ctx, tag):
    global EXHAUSTIVE
    EXHAUSTIVE = bool(ctx.thorough)      # the grids are enumerated completely only in the thorough tier
    """corner cases first (C, D, F), then the A/B grids (all in thorough, a seeded sample in quick), then edited tables"""
    rng = ctx.sub_rng("cases")
    fixed = corpus_cases() + list(grid_C()) + list(grid_D()) + list(grid_F()) + list(grid_H()) + list(grid_G()) + list(grid_G2()) + \
        list(random_histories(ctx.sub_rng("histories"), ctx.scale(250, 4000)))
    ab = list(grid_A()) + list(grid_B())
    if not ctx.thorough:
        ab = rng.sample(ab, 1100)
    e = list(grid_E(ctx.sub_rng("tables"), ctx.scale(250, 3000)))
    allc = fixed + ab + e
    for i, c in enumerate(allc):
        if i % 5 == 0 and not c.get("connect") and not c.get("hist"):
            c["xcheck"] = True
    return allc


def corpus_cases():
    d = os.path.join(os.path.dirname(os.path.dirname(os.path.dirname(os.path.abspath(__file__)))), "corpus", "C10")
    out = []
    if os.path.isdir(d):
        for fn in sorted(os.listdir(d)):
            if fn.endswith(".json"):
                with open(os.path.join(d, fn)) as f:
                    out.append(json.load(f)["case"])
    return out


def evaluated(ctx):
    key = (ctx.seed, ctx.tier)
    if key not in _CACHE and key in _ASYNC:
        cases, pool, job = _ASYNC.pop(key)
        try:
            _CACHE[key] = (cases, job.get())
        finally:
            pool.terminate()
    if key not in _CACHE:
        cases = case_list(ctx, "main")
        outs = run_cases(cases, ctx.scale(6, 8))
        _CACHE[key] = (cases, outs)
    return _CACHE[key]


_ASYNC = {}


def _prefetch():
    """Building and validating the slices through the real API touches neither lean/.lake nor Generated/: start it when the
    pipeline imports this module, so that it runs while the pipeline waits for the Lean lock, builds and audits. The tier and
    the seed are read from the frame of core.run_property (nothing is started for a replay or outside the pipeline)."""
    import sys
    f = sys._getframe()
    while f is not None and f.f_code.co_name != "run_property":
        f = f.f_back
    if f is None or f.f_locals.get("replay") or f.f_locals.get("prop") != ID:
        return
    try:
        import core
        ctx = core.Ctx(ID, f.f_locals["tier"], f.f_locals["seed"])
        cases = case_list(ctx, "main")
        pool = multiprocessing.get_context("fork").Pool(ctx.scale(6, 8))
        job = pool.map_async(run_case, cases, chunksize=max(1, min(50, len(cases) // (ctx.scale(6, 8) * 4))))
        _ASYNC[(ctx.seed, ctx.tier)] = (cases, pool, job)
    except Exception:
        _ASYNC.clear()


def correspondence(ctx, res):
    cases, outs = evaluated(ctx)
    reqs, idx = [], []
    for i, (c, o) in enumerate(zip(cases, outs)):
        if "request" in o:
            reqs.append(o["request"])
            idx.append(i)
        else:
            res.count("build-failed")
            ctx.notes.append("build failed: %s" % o.get("build_err")) if len(ctx.notes) < 5 else None
    for c, o in zip(cases, outs):
        if o.get("xdiff"):
            res.disagreements.append({"case": c, "impl": {"slice reported by the API": o["xdiff"]["api"]},
                                      "model": {"slice described by the calls": o["xdiff"]["calls"]}})
        if o.get("listing"):
            res.count("listing-differs")
            res.disagreements.append({"case": c, "impl": {"interfaces a fresh handle of the service lists": o["listing"]},
                                      "model": "every interface the calls connected, once"})
    if sum(1 for o in outs if "request" not in o) > len(outs) // 50:
        raise Infra("too many cases could not be built: %s" % [o.get("build_err") for o in outs if "request" not in o][:3])
    model = LeanDriver("C10").run([json.dumps(r) for r in reqs])
    for r, i, m in zip(reqs, idx, model):
        o = outs[i]
        res.evaluations += 1
        if r[0] == "history":
            corr_history(cases[i], r, o, json.loads(m), res)
            continue
        impl = [o["status"]] if r[0] == "connect" else [o["status"], o["sites"]]
        res.count("op:" + r[0])
        res.count("verdict:" + o["status"])
        res.nontrivial.add(canon(r))
        if o.get("xchecked"):
            res.count("abstraction-cross-checked")
        mj = json.loads(m)
        spec = mj[2:]
        mj = mj[:2] if r[0] == "validate" else mj
        if mj != impl:
            res.disagreements.append({"case": cases[i], "request": r, "impl": impl, "model": mj})
        elif r[0] == "validate" and spec[0] != (mj[0] == "ok"):
            # run-time instance of theorem validate_iff_spec
            res.disagreements.append({"case": cases[i], "request": r, "impl": "model verdict %s" % mj[0], "model": "decide SpecOK = %s" % spec[0]})
        elif r[0] == "validate" and not cases[i].get("ov") and spec[1] != (not expected(cases[i])[0]):
            # the Lean specification SpecFull and the harness's independent oracle must mean the same thing
            res.disagreements.append({"case": cases[i], "request": r, "impl": "python oracle: %s" % (expected(cases[i])[0] or "valid"),
                                      "model": "decide SpecFull = %s" % spec[1]})
            res.count("spec-vs-oracle-differs")
        elif r[0] == "validate":
            res.sample({"request": r, "impl": impl, "model": json.loads(m)}) if (len(r[4]) and res.evaluations % 997 == 0) else None
            res.count("spec-vs-oracle-agree") if not cases[i].get("ov") else None
    if reqs:
        res.sample({"request": reqs[-1], "impl": outs[idx[-1]].get("status", outs[idx[-1]].get("statuses")), "model": json.loads(model[-1])})


def canon_state(nodes, svcs):
    """the slice as it is, order-free: nodes as a sorted list, the interfaces of every service sorted"""
    return json.loads(canon({"nodes": sorted(nodes, key=canon),
                             "svcs": {k: list(v[:4]) + [sorted(v[4], key=canon)] + [sorted(v[5]), sorted(v[6])] for k, v in svcs.items()}}))


def corr_history(case, r, o, mj, res):
    """model of the calls (Model/ValidateHist.lean) against the implementation: the outcome of every call, the slice as it is
    after the history (read back through the API), and Lean's SpecFull on it against the Python oracle"""
    st = lambda x: x if x in ("ok", "topology") else "error"
    res.count("op:history")
    for op in case["ops"]:
        res.count("call:" + op[0])
    if not isinstance(mj, list) or len(mj) != 4 or mj[0] == "err":
        res.disagreements.append({"case": case, "request": r, "impl": o["statuses"], "model": mj})
        return
    impl = {"statuses": [st(x) for x in o["statuses"]], "slice": canon_state(o["final"]["nodes"], o["final"]["svcs"])}
    model = {"statuses": [st(x) for x in mj[0]], "slice": canon_state(mj[1], {k: v for k, v in mj[2]})}
    if impl != model:
        res.disagreements.append({"case": case, "request": r, "impl": impl, "model": model})
        return
    order = list(o["final"]["svcs"].keys())
    want = not expected_abstract(case["exp"], o["final"]["nodes"], [o["final"]["svcs"][n] for n in order])
    if mj[3] != want:
        res.disagreements.append({"case": case, "request": r, "impl": "python oracle on the final slice: %s" % ("valid" if want else "invalid"),
                                  "model": "decide SpecFull = %s" % mj[3]})
        res.count("spec-vs-oracle-differs")
    else:
        res.count("spec-vs-oracle-agree")
    for x in o["statuses"]:
        res.count("call-outcome:" + st(x))


def oracle(ctx, res, pairs=None):
    cases, outs = pairs or evaluated(ctx)
    diff = table_diff() if pairs is None else []
    if diff:
        # the live table is not the pinned one: look at slices around the differing rows right away
        ctx.notes.append("live constraint table differs from the pinned one: %s" % json.dumps(diff)[:1500])
        extra = cases_for_diff(diff)
        cases, outs = list(cases) + extra, list(outs) + run_cases(extra, 8)
    _oracle(ctx, res, cases, outs)
    for v in res.violations:
        if diff:
            v["expected"] = dict(v.get("expected") or {}, differing_rows=diff)


def _oracle(ctx, res, cases, outs):
    for c, o in zip(cases, outs):
        if "status" not in o and "statuses" not in o:
            continue
        if c.get("connect"):
            res.evaluations += 1
            res.nontrivial.add(canon(c))
            judge_connect(c, o, res)
            continue
        if c.get("hist"):
            if "statuses" in o:
                res.evaluations += 1
                res.nontrivial.add(canon(c))
                judge_history(c, o, res)
            continue
        if c.get("ov"):
            continue           # edited tables: correspondence only (the oracle speaks about the pinned table)
        res.evaluations += 1
        res.nontrivial.add(canon(c))
        judge(c, o, res)
    res.sample({"oracle": "declarative decision over the pinned table", "cases": res.evaluations})


def cases_for_diff(diff):
    """slices around the rows that differ between the live and the pinned table"""
    out = []
    for d in diff:
        if d["table"] == "ServiceConstraints" and d["row"] in PINNED_SVC:
            ty = d["row"]
            cp = sorted(set(constrained_props(ty)) | {p for p in ((d["live"] or {}).get("required_properties", []) + (d["live"] or {}).get("forbidden_properties", [])) if p in SVC_PROPS})
            for pl in PLACEMENTS:
                for kp in kind_patterns(len(pl)):
                    out.append(service_case(ty, pl, "none", kp, baseline_props(ty)))
            for pl in ([0], [0, 0], [0, 1]):
                for r in range(len(cp) + 1):
                    for sub in itertools.combinations(cp, r):
                        out.append(service_case(ty, pl, "none", ["DedicatedPort"] * len(pl), sub, how="connect"))
        elif d["table"] == "NodeConstraints":
            out.extend(c for c in grid_C() if c["nodes"][-1]["ty"] == d["row"] or c["nodes"][0]["ty"] == d["row"])
    return out


def search(ctx, res, broken):
    cases = list(grid_C()) + list(grid_D()) + list(grid_F()) + list(grid_H()) + list(grid_G()) + list(grid_A()) + list(grid_B())
    if not ctx.thorough:
        rng = ctx.sub_rng("search")
        cases = cases[:1200] + rng.sample(cases[1200:], 6000)
    outs = run_cases(cases, 8)
    oracle(ctx, res, (cases, outs))
    diff = table_diff()
    if diff:
        ctx.notes.append("live constraint table differs from the pinned one: %s" % json.dumps(diff)[:1500])
        for v in res.violations:
            v["expected"] = dict(v.get("expected") or {}, differing_rows=diff)


def replay(ctx, payload):
    c = payload["case"]
    o = run_case(c)
    r = Result()
    if c.get("connect"):
        judge_connect(c, o, r)
    elif c.get("hist"):
        if "statuses" in o:
            judge_history(c, o, r)
    else:
        judge(c, o, r)
    print("   implementation:", {k: o.get(k) for k in ("status", "statuses", "sites", "msg", "build_err")})
    if (payload.get("expected") or {}).get("differing_rows"):
        print("   differing rows (pinned vs live at the time):", json.dumps(payload["expected"]["differing_rows"]))
        print("   differing rows now:", json.dumps(table_diff()))
    for v in r.violations:
        print("  ", v["signature"], v["what"])
    return any(v["signature"] == payload.get("signature") for v in r.violations) or (bool(r.violations) and not payload.get("signature"))


_prefetch()
