"""C20 - store lock discipline and identifier allocation under concurrent use.

Every case (sequential history or threaded schedule) carries `logger`: whether the store singleton is created with a logger
(`NetworkXGraphImporter[Disjoint](logger=logging.getLogger(...))`, the first importer of the process decides) or without one (the
default).  What a store method does may depend on it (`if self.log is not None:` branches, e.g. the warning on the per-graph
store's "graph id already present" early return); every generated case is run in both configurations, and which lines of the
`self.log`-conditioned branches of the store classes were executed is recorded in the evidence."""
import ast
import glob
import json
import os

from core import LeanDriver, canon, CORPUS_DIR, Result
from gen import lockcfg, importids
import lib_sched as L

ID = "C20"
GENERATORS = [lockcfg.generate, importids.generate]
LEAN_MODULES = ["FimVerif.Proofs.C20"]
P = "FimVerif.C20."
THEOREMS = [P + t for t in (
    "balanced_sound", "released_exactly_once", "never_released_unheld",
    "methods_balanced", "others_lock_neutral", "store_methods_release_exactly_once", "store_methods_release_exactly_once_inst",
    "disciplined_sound", "methods_disciplined", "helpers_disciplined", "store_method_paths_accepted",
    "accepts_append",
    "mutual_exclusion", "unique_ids", "no_node_lost", "each_graph_exact", "each_graph_exact_with_deletes", "ledger_after_delete",
    "lock_free_at_end", "no_deadlock",
    "no_release_error", "store_never_replaced", "singleton_guard_stable", "store_threads_safe",
    "atoms_accepted", "store_threads_safe_atomwise",
    "weak_guard_counterexample", "unlocked_alloc_counterexample", "double_release_counterexample", "split_increment_counterexample",
    "reinit_counterexample", "idless_imports_get_fresh_ids", "idless_imports_are_graphs_of_their_own")]
TRUSTED_BASE = [
    "gen/lockcfg.py: AST -> Stmt translation of both storage classes after normalisation N1-N5 (with-statement = acquire/try/"
    "finally/release, re-raise-only handlers dropped, calls of methods of the same class expanded in place, locals renamed by what "
    "they hold, aliases of the store entry resolved, conditions classified by what they read); the ACCESS table (which normalised "
    "statement is which access to start_id / graph_node_ids / graphs) and its no-raise whitelist W1-W6: GraphID equality search over "
    "the store, Graph.remove_nodes_from / Graph.clear / dict.clear, storing an object under an id that was already looked up, integer "
    "increment/assignment of an id counter, the insertion step of Graph.add_node, filling a fresh per-graph store entry from the views "
    "of the freshly relabelled temp_graph.  The ACCESS rows are tested against behaviour on every run: the micro-instructions each "
    "call performs are observed by probes on the store's shared state and must form a path of the generated skeleton",
    "singleton protocol: the translator recognises the shells' creation idiom (guard `not X.storage_instance` / `is None`, "
    "no other assignment to storage_instance, __len__/__bool__ on the store classes); a method that re-runs __init__ or assigns "
    "self.lock is translated (micro `reinit`) and rejected by the discipline monitor; the model starts with the store in existence "
    "(first creation by two threads at once, with no store yet, is not part of the quantifier); what happens after a replacement is "
    "modelled only as a new generation number and a free lock",
    "threading.Lock modelled as: acquire blocks while held, release by any thread frees it, release of a free lock is an error",
    "atomicity: one atom = one attribute load/store or one dictionary primitive (lookup, insertion or deletion of one key, clear) of "
    "CPython under the GIL (Proofs/Lemmas/C20Fine.lean `FineM` says which atoms each micro-instruction consists of; the theorems hold "
    "with a thread switch between any two atoms).  NOT modelled: the free-threaded build (no GIL), and what a reader sees that scans "
    "a dictionary while another thread inserts (reads have no effect in the model; the oracle explores such scans, see the known "
    "finding); the property-graph layer's unlocked structural edits (add_link, delete_node through get_graph())",
    "store configuration: a store singleton is created without or with a logger (first importer of the process); branches on "
    "`self.log` are ordinary symbolic branches of the generated skeletons (both arms are paths: methods_balanced covers them), and every "
    "concrete case is run in both configurations; which arms of the `self.log`-conditioned branches were executed is recorded in the "
    "evidence (`log-branch:*`); calls into the logging framework are not traced (no preemption inside logging)",
    "harness/lib_sched.py: sys.settrace line scheduler (thread switches between source lines of the store classes and between the "
    "elements of an unlocked scan of a node dictionary), instrumented lock substituted for storage.lock, probes substituted for the "
    "store's graphs / start_id / graph_node_ids, folding of the observed atoms of one line into micro-instructions (Recorder.fold)",
    "graph ids the LIBRARY allocates (import_graph_from_string / import_graph_from_file without graph_id): the model's graphs are "
    "indices; an id-less import operation has an index of its own and the library-generated id is mapped to the index of the "
    "operation that first handed it to the store (lib_sched.note_alias / space_of) - so the model's `each graph` is the "
    "implementation's only if every such import gets an id of its own (Model/ImportEntry.lean `Fresh`, "
    "idless_imports_are_graphs_of_their_own).  That is not proved of uuid4: it is probed (gen/importids.py: every id-less entry "
    "point twice on both importers, two paths and one rewritten path; theorem idless_imports_get_fresh_ids) and checked by the "
    "oracle on every id-less import of every case (C20:<flavour>:<kind>:graph-id-not-fresh; graphs identified by the handle the "
    "import returned).  The importer methods themselves are not traced (no preemption between reading a document and the store "
    "call; they touch no shared state before it)",
    "symbol instantiation: a generated skeleton uses symbolic counter/graph/size codes; Lock.instStmt instantiates them with the "
    "operation's graph index and node count.  The lock theorems are proved for every instantiation (balanced_inst); the discipline "
    "monitor is proved on the symbolic skeletons and checked (`accepts`) on every observed concrete program",
]
ASSUMPTIONS = ["the logger a store singleton is created with is a logging.Logger (or None); what its handlers do is outside the model "
               "(the harness uses a handler that swallows the records)",
               "imported graphs are networkx graphs whose node/edge views are well-formed",
               "no KeyboardInterrupt / MemoryError / SystemExit inside a store method",
               "CPython with the GIL"]
RULE = ("every case twice: store singleton created without and with a logger; sequential: histories of 4-12 store calls on 1-3 graph ids incl. failing imports, calls with an unhashable graph id, duplicate "
        "ids, delete-then-reimport, del_all_graphs, imports through the importer's document entry points (import_graph_from_string / "
        "import_graph_from_file, GraphML / JSON, one work file per thread rewritten before each load) with a graph id and WITHOUT one "
        "(each id-less import is a graph of its own, identified by the returned handle; every such id must be new), non-trivial = at least one failing call or one call on an already-present id; "
        "threaded: 2-3 threads x 1-4 operations (imports, node creation through the API, deletes of one / all graphs, reads, failing "
        "calls), every line of the store and every element of an unlocked node scan a preemption point, non-trivial = at least one "
        "preemption; distinct by canonical (flavour, ops, decisions)")

_REP = None


def rep():
    """where the store classes are and which methods take the lock: read off the current source without interpreting
    statements, so it does not depend on the translator having recognised the source (WAVE3 addendum)"""
    global _REP
    if _REP is None:
        _REP = lockcfg.layout()
    return _REP


# ---------------------------------------------------------------------------------------------
# case generation

UNH_KINDS = ["get_graph_unh", "extract_graph_unh", "del_graph_unh", "add_blank_unh"]     # failing calls: unhashable graph id
# the importer's document entry points (lib_sched.run_import): import_graph_from_string / import_graph_from_file on GraphML or
# JSON text, WITHOUT a graph id (the library allocates one; the operation's graph index is unique in its case and stands for
# whatever id comes back) and with one
IMP_KINDS = list(L.IMPORT_KINDS)
SEQ_KINDS = ["add_graph", "add_graph", "add_graph_bad", "add_graph_direct", "del_graph", "extract_graph", "get_graph",
             "add_blank", "add_node", "del_all_graphs"] * 2 + UNH_KINDS + IMP_KINDS + list(L.IDLESS_KINDS)
THR_KINDS = ["add_graph", "add_blank", "add_node", "add_blank", "add_graph_direct", "del_graph", "extract_graph", "get_graph",
             "add_graph_bad", "del_all_graphs"] * 3 + UNH_KINDS + IMP_KINDS * 2 + list(L.IDLESS_KINDS) * 2
SIZED = ("add_graph", "imp_")      # kinds whose third field is a node count
EXPECT_ERR = {"add_graph_bad": "import", "get_graph_unh": "type", "extract_graph_unh": "type", "del_graph_unh": "type",
              "add_blank_unh": "type"}

SEQ_CORNERS = [
    [["add_graph", 1, 2], ["add_graph", 1, 2]],                                      # duplicate id
    [["add_graph", 1, 3], ["del_graph", 1, 0], ["add_graph", 1, 2], ["add_blank", 1, 1]],   # delete then re-import
    [["add_graph_bad", 1, 2], ["add_graph", 1, 2], ["add_graph_bad", 1, 3], ["add_blank", 1, 1]],  # failing imports
    [["get_graph", 2, 0], ["add_graph", 2, 1], ["extract_graph", 2, 0], ["extract_graph", 3, 0]],
    [["add_graph_direct", 1, 2], ["add_graph_direct", 1, 3], ["add_graph", 1, 1], ["del_all_graphs", 1, 0], ["add_node", 1, 1]],
    [["add_node", 1, 1], ["add_node", 1, 1], ["add_blank", 2, 1], ["del_graph", 1, 0], ["add_blank", 1, 1]],
    [["add_graph", 1, 0], ["add_graph", 1, 1], ["add_graph_bad", 2, 1], ["del_graph", 3, 0]],
    [["add_graph", 1, 2], ["get_graph_unh", 1, 1], ["add_blank", 1, 1], ["extract_graph_unh", 1, 1], ["get_graph", 1, 0],
     ["del_graph_unh", 1, 1], ["add_blank_unh", 1, 1], ["del_graph", 1, 0]],                  # failing calls must give the lock back
    # every import entry point twice without a graph id (each call is a graph of its own), then with one
    [["imp_file", 11, 3], ["imp_file", 12, 4], ["imp_string", 13, 2], ["imp_string", 14, 3], ["imp_file", 15, 1],
     ["imp_file_id", 1, 2], ["imp_string_id", 1, 3], ["imp_string_id", 2, 1], ["imp_file", 16, 2], ["add_blank", 1, 1]],
    [["add_graph", 1, 2], ["imp_string", 11, 2], ["imp_file", 12, 2], ["del_graph", 1, 0], ["imp_file", 13, 1], ["imp_file_id", 1, 1]],
]


def both_configs(cases):
    """every case with a store singleton created without and with a logger (a case that already says which keeps its own)"""
    out = []
    for c in cases:
        if "logger" in c:
            out.append(c)
        else:
            out.append(dict(c, logger=False))
            out.append(dict(c, logger=True))
    return out


def logger_of(case):
    return L.store_logger() if case.get("logger") else None


COVER = {False: set(), True: set()}     # source lines of the store files executed under each configuration


def log_branches():
    """the branches of the store classes conditioned on `self.log`: [(flavour, method, first line of the arm, lines of the arm)]"""
    out = []
    for fl, rg in rep()["ranges"].items():
        path = os.path.realpath(os.path.join(L.REPO, rg["file"]))
        with open(path) as f:
            tree = ast.parse(f.read())
        for n in ast.walk(tree):
            if not isinstance(n, ast.If) or not (rg["first"] <= n.lineno <= rg["last"]):
                continue
            if not any(isinstance(x, ast.Attribute) and x.attr == "log" and isinstance(x.value, ast.Name) and x.value.id == "self"
                       for x in ast.walk(n.test)):
                continue
            meth = next((m for m, (a, b) in rg["methods"].items() if a <= n.lineno <= b), "?")
            for arm in (n.body, n.orelse):
                lines = sorted({x.lineno for st in arm for x in ast.walk(st) if hasattr(x, "lineno")})
                if lines:
                    out.append((fl, meth, lines[0], [(path, ln) for ln in lines]))
    return out


def count_log_branches(res):
    """which arms of the `self.log`-conditioned branches the cases of this run reached (in either configuration)"""
    for fl, meth, first, lines in log_branches():
        hit = [cfg for cfg in (False, True) if any(x in COVER[cfg] for x in lines)]
        res.count("log-branch:%s.%s:line%d:%s" % (fl, meth, first, "reached-" + "+".join("logger" if c else "no-logger" for c in hit)
                                                   if hit else "NOT-REACHED"))


def gen_seq(rng, n):
    cases = []
    for fl in ("shared", "disjoint"):
        for ops in SEQ_CORNERS:
            cases.append({"kind": "seq", "flavour": fl, "ops": ops})
    while len(cases) < n:
        ops = []
        for _ in range(rng.randrange(4, 13)):
            k = rng.choice(SEQ_KINDS)
            ops.append([k, rng.randrange(1, 4), rng.randrange(1, 4) if k.startswith(SIZED) else 1])
            if k in L.IDLESS_KINDS:
                ops[-1][1] = 10 + len(ops)
        cases.append({"kind": "seq", "flavour": rng.choice(("shared", "disjoint")), "ops": ops})
    return cases


THR_CORNERS = [
    ([], [[["add_blank", 1, 1], ["add_blank", 1, 1]], [["add_blank", 1, 1], ["add_blank", 1, 1]]]),
    ([["add_graph", 1, 2]], [[["add_node", 1, 1]], [["add_node", 1, 1]], [["add_blank", 1, 1]]]),
    ([], [[["add_graph", 1, 2], ["add_blank", 1, 1]], [["add_graph", 2, 3], ["add_blank", 2, 1]]]),
    ([["add_graph", 1, 2]], [[["add_graph", 1, 3]], [["add_blank", 1, 1], ["add_graph", 1, 1]]]),
    ([["add_graph", 1, 2]], [[["del_graph", 1, 0], ["add_graph", 1, 2]], [["add_blank", 1, 1], ["extract_graph", 1, 0]]]),
    ([], [[["add_graph_bad", 1, 2], ["add_blank", 1, 1]], [["add_graph", 1, 1], ["add_blank", 2, 1]]]),
    # deletions concurrent with imports and node creation (2 and 3 threads)
    ([["add_graph", 1, 2]], [[["del_all_graphs", 1, 0], ["add_graph", 2, 2]], [["add_graph", 1, 3], ["add_blank", 1, 1]], [["add_blank", 2, 1]]]),
    ([["add_graph", 1, 2], ["add_graph", 2, 1]], [[["del_graph", 1, 0], ["add_graph_direct", 1, 2]], [["add_blank", 1, 1], ["add_blank", 2, 1]]]),
    ([["add_graph", 1, 1]], [[["del_all_graphs", 1, 0]], [["add_blank", 1, 1], ["extract_graph", 1, 0]], [["add_graph", 2, 2], ["del_graph", 2, 0]]]),
    # failing calls (unhashable id) next to working ones: the lock must come back
    ([["add_graph", 1, 2]], [[["get_graph_unh", 1, 1], ["add_blank", 1, 1]], [["extract_graph_unh", 1, 1], ["add_blank", 1, 1]]]),
    # threads importing documents without naming a graph id (file and string entry points), next to imports that name one
    ([], [[["imp_file", 11, 3], ["imp_string", 12, 1]], [["imp_file", 21, 4], ["imp_string_id", 1, 2]]]),
    ([["imp_string", 31, 2]], [[["imp_string", 11, 2], ["add_blank", 1, 1]], [["imp_file", 21, 2]], [["imp_file_id", 1, 3]]]),
]


# two threads, each importing one file without a graph id
IDLESS_CORNER = ([], [[["imp_file", 11, 3]], [["imp_file", 21, 4]]])


# two threads importing under an id that is already present (the per-graph store's early return, with its warning)
DUP_CORNER = ([["add_graph", 1, 2]], [[["add_graph", 1, 3]], [["add_graph", 1, 1], ["add_blank", 1, 1]]])


def gen_thr_case(rng):
    nthreads = 2 if rng.random() < 0.7 else 3
    setup = [["add_graph", 1, rng.randrange(1, 3)]] if rng.random() < 0.5 else []
    threads = []
    for _ in range(nthreads):
        ops = []
        for _ in range(rng.randrange(1, 4 if nthreads == 3 else 5)):
            k = rng.choice(THR_KINDS)
            ops.append([k, rng.randrange(1, 3), rng.randrange(1, 4) if k.startswith(SIZED) else 1])
            if k in L.IDLESS_KINDS:
                ops[-1][1] = 10 * (len(threads) + 1) + len(ops)
        threads.append(ops)
    return setup, threads


# ---------------------------------------------------------------------------------------------
# running cases on the implementation

def run_seq(case):
    """-> (per-op results, calls with their traces, snapshot, recorder)"""
    rec = L.Recorder(rep())
    imp, lock = L.fresh_store(case["flavour"], rec, logger_of(case))
    results = []
    rec.start(0)
    try:
        for j, op in enumerate(case["ops"]):
            results.append(L.run_op(imp, rec, op, str(j)))
            if L.identity(rec):
                break
            if lock.held:          # a leaked lock would hang every later call: free it so the history can continue
                lock.held = False
                lock.owner = None
    finally:
        rec.stop()
    COVER[bool(case.get("logger"))] |= rec.lines
    graphs = sorted({op[1] for op in case["ops"]})
    return results, rec, L.snapshot(case["flavour"], imp, lock, graphs), imp


def call_views(rec):
    """per outermost store call: symbolic trace, concrete events, lock observation"""
    out = []
    for c in rec.calls:
        ev = [e for e in rec.events[c["start"]:c.get("end", len(rec.events))] if e[0] == c["tid"]]
        sym = [e[1] for e in ev]
        nacq = sum(1 for m in sym if m == ["acq"])
        out.append({"method": c["method"], "tid": c["tid"], "outcome": c["outcome"], "trace": sym, "ctx": list(c.get("ctx", (1, 0))),
                    "acq": nacq, "rel_events": sum(1 for m in sym if m == ["rel"]), "held_after": c.get("held_after", False)})
    return out


def impl_lock_view(v):
    """what the instrumented lock saw during the call, in the vocabulary of Lock.lockRun"""
    if v["outcome"] in ("relerr", "deadlock"):
        return "err"
    return [bool(v["held_after"]), v["rel_events"]]


def path_request(v):
    o = "done" if v["outcome"] == "done" else "exc"
    return json.dumps(["path", v["method"], v["ctx"][0], v["ctx"][1], v["trace"], o])


def sched_request(r, nthreads):
    """Lean request replaying the observed interleaving: programs = observed micro sequences per thread"""
    n = nthreads + 1                      # thread `nthreads` = sequential setup
    progs = [[] for _ in range(n)]
    sched = []
    for tid, conc in r["events"]:
        progs[tid].append(conc)
        sched.append(tid)
    flavour_ctr = [0] if r["flavour"] == "shared" else r["graphs"]
    return json.dumps(["sched", progs, sched, flavour_ctr])


def impl_sched_view(r):
    s = r["snapshot"]
    return {"lock": s["lock"], "relErr": s["relErr"], "gen": s["gen"], "ctr": s["ctr"], "nodes": s["nodes"],
            "finished": not r["stuck"], "skipped": 0}


def run_thr(case):
    r = L.run_threads(rep(), case["flavour"], case["threads"], L.decide_from(case.get("decisions", []), None), case.get("setup", ()),
                      logger_of(case))
    r["flavour"] = case["flavour"]
    COVER[bool(case.get("logger"))] |= r["rec"].lines
    return r


# ---------------------------------------------------------------------------------------------
# the property itself, on the implementation (independent of the Lean model)

def spec_serial(flavour, ordered_ops):
    """tiny sequential specification: NodeIDs per graph after running the calls one after another"""
    graphs = {}
    for (kind, g, k, uniq) in ordered_ops:
        cur = graphs.setdefault(g, set())
        ids = {"%s-n%d" % (L.gid(g), i) for i in range(k)}
        if kind in ("add_graph", "add_graph_direct") + L.IMPORT_KINDS:
            if flavour == "disjoint" and kind != "add_graph_direct" and cur:
                continue                                   # documented: an id that is present is skipped
            graphs[g] = set(ids)
        elif kind == "add_graph_bad":
            if flavour == "shared":
                graphs[g] = set()                          # the old graph is deleted before the import fails (C09's business)
        elif kind == "del_graph":
            graphs[g] = set()
        elif kind == "del_all_graphs":
            for x in graphs:
                graphs[x] = set()
        elif kind == "add_blank":
            cur.add("blank-%s" % uniq)
        elif kind == "add_node":
            cur.add("api-%s" % uniq)
    return {g: v for g, v in graphs.items()}


def store_nodeids(flavour, imp):
    st = imp.storage.storage_instance
    out = {}
    if flavour == "shared":
        for n, d in st.graphs.nodes(data=True):
            if isinstance(d.get("GraphID"), str):            # (a node created under an unhashable id belongs to no graph id)
                out.setdefault(d.get("GraphID"), []).append(d.get("NodeID"))
    else:
        for name, G in st.graphs.items():
            for n, d in G.nodes(data=True):
                if isinstance(d.get("GraphID", name), str):
                    out.setdefault(d.get("GraphID", name), []).append(d.get("NodeID"))
    return out


REBUILDERS = {"add_graph", "add_graph_direct", "add_graph_bad", "del_graph", "del_all_graphs", "imp_string_id", "imp_file_id"}
MUTATORS = {"add_graph", "add_graph_direct", "del_graph", "del_all_graphs", "add_blank_node_to_graph"}


def check_calls(case, views, results, res, payload):
    """lock discipline per call"""
    kinds = rep()["methods"]
    for v in views:
        res.evaluations += 1
        locking = kinds.get(v["method"]) == "locking"
        want = 1 if locking else 0
        why = None
        if v["outcome"] == "relerr":
            why = "release-of-unlocked-lock"
        elif v["outcome"] == "deadlock":
            why = "acquire-never-returns"
        elif v["outcome"] == "unfinished":
            why = "blocked-forever-on-the-lock"
        elif v["held_after"] and v["acq"] > 0:
            why = "lock-left-held"
        elif v["rel_events"] != want or v["acq"] != want:
            why = "released-%d-times" % v["rel_events"]
        if why:
            path = "exception-path" if v["outcome"] != "done" else "return-path"
            res.violation("C20:%s:%s:%s" % (v["method"], why, path),
                          "%s: %s on the %s (trace %s)" % (v["method"], why, path, v["trace"]), payload,
                          expected="lock acquired once, released once, free afterwards", observed=v["trace"])


def check_results(case, ops_results, res, payload):
    """no call fails because of what other threads do: an operation that succeeds when the calls run one after another must
    not raise (lock errors and self-deadlocks are check_calls' business)"""
    fl = case["flavour"]
    # a node created through the API and deleted by another thread before its properties are set makes the second step fail:
    # that is what deleting concurrently means, not a lost node
    rebuilds = sum(1 for ops in case.get("threads", []) if any(o[0] in REBUILDERS for o in ops))
    for op, r in ops_results:
        res.evaluations += 1
        if r[0] != "err" or r[1] == "deadlock" or EXPECT_ERR.get(op[0]) is not None:
            continue
        msg = r[2] if len(r) > 2 else ""
        if "release unlocked lock" in msg:
            continue
        scan = "changed size during iteration" in msg or "keys changed during iteration" in msg
        if not scan and rebuilds and op[0] == "add_node" and r[1] == "key":
            continue
        why = "scan-disturbed-by-concurrent-insert" if scan else "unexpected-" + r[1]
        res.violation("C20:%s:%s:%s" % (fl, op[0], why),
                      "%s store: %s fails with %s (%s); the same call succeeds when the operations run one after another" % (
                          fl, op[0], r[1], msg), payload, expected="ok", observed=r)


def imported_ids(ops_results):
    """[(kind, graph index, graph id of the returned handle)] of the importer entry point calls that returned"""
    return [(op[0], op[1], r[1]) for op, r in ops_results if op[0] in L.IMPORT_KINDS and r[0] == "ok"]


def check_fresh(case, imported, res, payload):
    """identifier allocation for imported graphs: an import that names no graph id gets an id of its own - not one another
    import of the history got, not one a caller chose; an import that names one comes back as that graph"""
    fl = case["flavour"]
    given = {}
    for kind, g, rid in imported:
        res.evaluations += 1
        if kind not in L.IDLESS_KINDS:
            if rid != L.gid(g):
                res.violation("C20:%s:%s:handle-for-another-graph" % (fl, kind), "%s store: %s with graph_id %s returned a handle for "
                              "graph %s" % (fl, kind, L.gid(g), rid), payload, expected=L.gid(g), observed=rid)
            continue
        if not isinstance(rid, str) or not rid or rid in given or L.space_of(rid) != g:
            other = given.get(rid, L.space_of(rid) if isinstance(rid, str) else None)
            res.violation("C20:%s:%s:graph-id-not-fresh" % (fl, kind),
                          "%s store: %s without a graph id was given graph id %r, which %s" % (
                              fl, kind, rid, "is no id" if not isinstance(rid, str) or not rid else
                              "the import of graph %s already has: two imports, one graph" % other), payload,
                          expected="a graph id of its own for every import that names none", observed=rid)
        given.setdefault(rid, g)


def check_final(case, r, results, imp, res, payload, ordered_ops, blank_ids, imported=()):
    fl = case["flavour"]
    ident = r["identity"] if r is not None else L.identity(L._REC)
    if ident:
        res.violation("C20:%s:%s" % (fl, ident),
                      "%s store: %s while operations were in flight - clients now see a different store / lock than the one "
                      "earlier operations used (graphs imported into the old one are gone)" % (fl, ident), payload,
                      expected="one store object and one lock object for the lifetime of the process")
        return
    if r is not None and r["stuck"]:
        res.violation("C20:%s:threads-blocked-forever" % fl, "threads %s never finished (lock never released)" % r["stuck"], payload)
        return
    check_fresh(case, imported, res, payload)
    spec = spec_serial(fl, ordered_ops)
    got = store_nodeids(fl, imp)
    # a graph is identified by the handle its import returned (an id-less import: whatever id the library chose)
    names = {g: rid for kind, g, rid in imported if kind in L.IDLESS_KINDS and isinstance(rid, str)}
    for g in sorted(set(spec) | {L.space_of(x) for x in got if x and L.space_of(x)}):
        want = sorted(spec.get(g, set()))
        have = sorted(str(x) for x in got.get(names.get(g, L.key_of(g)), []))
        if want != have:
            lost = sorted(set(want) - set(have))
            extra = sorted(set(have) - set(want))
            sig = "C20:%s:%s" % (fl, "node-lost" if lost else "graph-has-foreign-or-stale-nodes")
            res.violation(sig, "graph %d ends with %s, expected exactly %s (serial order of lock acquisition)" % (g, have, want),
                          payload, expected=want, observed=have)
    # identifiers handed out by add_blank_node_to_graph are pairwise distinct within their id space (the per-graph
    # store restarts a graph's ids when the graph is rebuilt, so this is only compared in histories without rebuilds)
    if any(k not in ("add_blank", "add_node") for (k, g, n, u) in ordered_ops):
        return
    seen = {}
    for space, i in blank_ids:
        if (space, i) in seen:
            res.violation("C20:%s:identifier-handed-out-twice" % fl, "internal id %s handed out twice" % (i,), payload, observed=blank_ids)
        seen[(space, i)] = True


def ordered_ops_of(rec, ops_by_uniq):
    """operations in the order in which their mutating store call acquired the lock"""
    order = []
    for c in rec.calls:
        if c["method"].split(".")[1] in MUTATORS and c["outcome"] in ("done", "exc") and c["op"] in ops_by_uniq:
            op = ops_by_uniq[c["op"]]
            # the moment the call took the lock (a call may start, then wait for the lock)
            at = next((i for i in range(c["start"], c.get("end", len(rec.events)))
                       if rec.events[i][0] == c["tid"] and rec.events[i][1] == ["acq"]), c["start"])
            order.append((at, op[0], op[1], op[2], c["op"]))
    order.sort()
    return [(k, g, n, u) for _, k, g, n, u in order]


def eval_seq(case, res):
    results, rec, snap, imp = run_seq(case)
    views = call_views(rec)
    payload = case
    check_calls(case, views, results, res, payload)
    check_results(case, list(zip(case["ops"], results)), res, payload)
    ordered = ordered_ops_of(rec, {str(j): op for j, op in enumerate(case["ops"])})
    blank = [(op[1] if case["flavour"] == "disjoint" else 0, r[1]) for op, r in zip(case["ops"], results) if op[0] == "add_blank" and r[0] == "ok"]
    # ids of deleted graphs may be reused in the per-graph store after the graph was rebuilt: only compare ids of live nodes
    live = []
    st = imp.storage.storage_instance
    for space, i in blank:
        G = st.graphs if case["flavour"] == "shared" else st.graphs.get(L.gid(space))
        if G is not None and i in G.nodes:
            live.append((space, i))
    check_final(case, None, results, imp, res, payload, ordered, live, imported_ids(zip(case["ops"], results)))
    return results, rec, snap, views


def eval_thr(case, res):
    r = run_thr(case)
    n = len(case["threads"])
    rec = r["rec"]
    views = call_views(rec)
    payload = dict(case, decisions=[d[1] for d in r["log"]])
    check_calls(case, views, r["results"], res, payload)
    check_results(case, [(op, rr) for ops, rs in zip(case["threads"], r["results"]) for op, rr in zip(ops, rs)], res, payload)
    by_uniq = {"%d-%d" % (t, j): op for t, ops in enumerate(case["threads"]) for j, op in enumerate(ops)}
    by_uniq.update({"s%d" % j: op for j, op in enumerate(case.get("setup", ()))})
    ordered = ordered_ops_of(rec, by_uniq)
    blank = []
    st = r["imp"].storage.storage_instance
    for t, ops in enumerate(case["threads"]):
        for op, rr in zip(ops, r["results"][t]):
            if op[0] == "add_blank" and rr[0] == "ok":
                space = op[1] if case["flavour"] == "disjoint" else 0
                G = st.graphs if case["flavour"] == "shared" else st.graphs.get(L.gid(space))
                if G is not None and rr[1] in G.nodes:
                    blank.append((space, rr[1]))
    pairs = list(zip(case.get("setup", ()), r.get("setup_results", ()))) + \
        [(op, rr) for ops, rs in zip(case["threads"], r["results"]) for op, rr in zip(ops, rs)]
    check_final(case, r, r["results"], r["imp"], res, payload, ordered, blank, imported_ids(pairs))
    return r, views, payload


# ---------------------------------------------------------------------------------------------

def corpus_cases():
    out = []
    for fn in sorted(glob.glob(os.path.join(CORPUS_DIR, "C20", "*.json"))):
        with open(fn) as f:
            out.append(json.load(f)["case"])
    return out


def locked_preemption(log, events):
    return L.preemptions(log) > 0


def correspondence(ctx, res):
    drv = LeanDriver("C20")
    rng = ctx.sub_rng("corr")
    reqs, impl, cases = [], [], []
    sink = Result()      # property violations are the oracle's business, not the correspondence's
    # (i) sequential histories: every call's observed trace is a path of its skeleton; lock model = real lock
    seq_cases = [c for c in corpus_cases() if c["kind"] == "seq"] + gen_seq(rng, ctx.scale(120, 750))
    for case in both_configs(seq_cases):
        res.count("store-created-%s-logger" % ("with" if case["logger"] else "without"))
        results, rec, snap, views = eval_seq(case, sink)
        for v in views:
            reqs.append(path_request(v))
            impl.append({"path": True, "lock": impl_lock_view(v)})
            cases.append({"case": case, "call": v["method"]})
            res.count("call:" + v["method"])
            res.count("outcome:" + v["outcome"])
        if any(r[0] == "err" for r in results):
            res.nontrivial.add(canon(case))
        for r in results:
            if r[0] == "err":
                res.count("err:" + r[1])
    # (ii) threaded schedules replayed on the interleaving model
    thr_cases = [c for c in corpus_cases() if c["kind"] == "thr"]
    for fl in ("shared", "disjoint"):
        for setup, threads in THR_CORNERS:
            thr_cases.append({"kind": "thr", "flavour": fl, "setup": setup, "threads": threads, "decisions": []})
    nrand = ctx.scale(260, 2000)
    for i in range(nrand):
        setup, threads = gen_thr_case(rng)
        dec = [rng.randrange(len(threads)) for _ in range(rng.randrange(20, 200))]
        thr_cases.append({"kind": "thr", "flavour": rng.choice(("shared", "disjoint")), "setup": setup, "threads": threads, "decisions": dec})
    for case in both_configs(thr_cases):
        res.count("store-created-%s-logger" % ("with" if case["logger"] else "without"))
        r, views, payload = eval_thr(case, sink)
        reqs.append(sched_request(r, len(case["threads"])))
        impl.append(impl_sched_view(r))
        cases.append({"case": payload})
        res.count("sched:%s:%dthreads" % (case["flavour"], len(case["threads"])))
        res.count("preemptions", L.preemptions(r["log"]))
        if L.preemptions(r["log"]) > 0:
            res.nontrivial.add(canon(payload))
        for v in views:
            reqs.append(path_request(v))
            impl.append({"path": True, "lock": impl_lock_view(v)})
            cases.append({"case": payload, "call": v["method"]})
    # (iii) exhaustive exploration up to the preemption bound on small programs
    bound = ctx.scale(1, 2)
    budget = ctx.scale(150, 2500)
    for fl, lg in (("shared", False), ("disjoint", True), ("disjoint", False), ("shared", True)):
        for setup, threads in THR_CORNERS[:ctx.scale(2, 5)] + [IDLESS_CORNER, DUP_CORNER]:
            if lg != ((setup, threads) == DUP_CORNER):
                continue                    # exhaustive exploration with a logger: the corner that reaches a logger-conditioned branch
            def visit(r, fl=fl, setup=setup, threads=threads, lg=lg):
                r["flavour"] = fl
                COVER[lg] |= r["rec"].lines
                reqs.append(sched_request(r, len(threads)))
                impl.append(impl_sched_view(r))
                cases.append({"case": {"kind": "thr", "flavour": fl, "setup": setup, "threads": threads, "logger": lg,
                                       "decisions": [d[1] for d in r["log"]]}})
                res.count("explored:%s:%s" % (fl, "logger" if lg else "no-logger"))
            runs, done = L.explore(rep(), fl, threads, bound, budget, setup, visit, L.store_logger() if lg else None)
            res.count("explore-exhausted" if done else "explore-budget-hit")
    # (iv) every public method the two store classes have today is in the model's tables, with the same locking kind (a method
    #      added to a store shows up in the regenerated tables by itself; when the translator fell back to the tables of the
    #      unchanged tree this is where a new method is noticed)
    reqs.append(json.dumps(["methods"]))
    impl.append(None)
    cases.append({"case": {"kind": "method-tables"}})
    model = drv.run(reqs)
    mt = json.loads(model.pop())
    reqs.pop(), impl.pop(), cases.pop()
    res.evaluations += 1
    if mt[0] != "ok":
        res.disagreements.append({"case": {"kind": "method-tables"}, "impl": "method tables", "model": mt})
    else:
        tables = {"locking": set(mt[1]["locking"]), "lockfree": set(mt[1]["lockfree"]), "helper": set(mt[1]["helpers"])}
        for name, kind in sorted(rep()["methods"].items()):
            res.count("method-kind:" + kind)
            if name not in tables.get(kind, ()):
                res.disagreements.append({"case": {"kind": "method-tables", "method": name}, "impl": kind,
                                          "model": next((k for k, v in tables.items() if name in v), "absent from the model")})
    nacc = 0
    for rq, i, m, c in zip(reqs, impl, model, cases):
        res.evaluations += 1
        mj = json.loads(m)
        if mj[0] != "ok":
            res.disagreements.append({"case": c, "impl": i, "model": mj})
            continue
        if mj[1]["cmp"] != i:
            res.disagreements.append({"case": c, "impl": i, "model": mj[1]["cmp"]})
        acc = mj[1]["info"]["accepts"]
        for a in (acc if isinstance(acc, list) else [acc]):
            res.count("hypothesis-accepts:%s" % a)
        if not all(acc if isinstance(acc, list) else [acc]):
            # an observed (instantiated) program is outside the hypothesis of the interleaving theorems
            res.disagreements.append({"case": c, "impl": "observed program", "model": "not accepted by the discipline monitor"})
    if reqs:
        res.sample({"request": json.loads(reqs[0]), "impl": impl[0], "model": json.loads(model[0])})
        res.sample({"request": json.loads(reqs[-1]), "impl": impl[-1], "model": json.loads(model[-1])})


def oracle(ctx, res, scale=1):
    rng = ctx.sub_rng("oracle")
    for case in both_configs(corpus_cases()):
        (eval_seq if case["kind"] == "seq" else eval_thr)(case, res)
        res.count("corpus")
    for case in both_configs(gen_seq(rng, ctx.scale(200, 1250) * scale)):
        results, rec, snap, views = eval_seq(case, res)
        if any(r[0] == "err" for r in results):
            res.nontrivial.add(canon(case))
        res.count("seq:%s:%s" % (case["flavour"], "logger" if case["logger"] else "no-logger"))
    for fl in ("shared", "disjoint"):
        for setup, threads in THR_CORNERS + [DUP_CORNER]:
            for s in range(ctx.scale(5, 20)):
                dec = [rng.randrange(len(threads)) for _ in range(150)]
                for case in both_configs([{"kind": "thr", "flavour": fl, "setup": setup, "threads": threads, "decisions": dec}]):
                    eval_thr(case, res)
    for i in range(ctx.scale(300, 2000) * scale):
        setup, threads = gen_thr_case(rng)
        dec = [rng.randrange(len(threads)) for _ in range(rng.randrange(20, 200))]
        base = {"kind": "thr", "flavour": rng.choice(("shared", "disjoint")), "setup": setup, "threads": threads, "decisions": dec}
        for case in both_configs([base]):
            r, views, payload = eval_thr(case, res)
            res.count("thr:%s:%d:%s" % (case["flavour"], len(threads), "logger" if case["logger"] else "no-logger"))
            if L.preemptions(r["log"]) > 0:
                res.nontrivial.add(canon(payload))
    # exhaustive within the preemption bound
    bound = ctx.scale(1, 2)
    for fl, lg in (("shared", False), ("disjoint", False), ("disjoint", True), ("shared", True)):
        for setup, threads in THR_CORNERS[:ctx.scale(3, 6)] + [IDLESS_CORNER, DUP_CORNER]:
            if lg != ((setup, threads) == DUP_CORNER):
                continue                    # exhaustive exploration with a logger: the corner that reaches a logger-conditioned branch
            # explore needs the property evaluated per run: re-run each explored schedule through eval_thr
            decisions = []
            L.explore(rep(), fl, threads, bound, ctx.scale(120, 2500), setup, lambda r: decisions.append([d[1] for d in r["log"]]),
                      L.store_logger() if lg else None)
            for dec in decisions:
                eval_thr({"kind": "thr", "flavour": fl, "setup": setup, "threads": threads, "decisions": dec, "logger": lg}, res)
                res.count("explored:%s:%s" % (fl, "logger" if lg else "no-logger"))
    count_log_branches(res)
    res.sample({"oracle": "per call: lock acquired once / released once / free afterwards; after join: per-graph NodeID sets equal the "
                          "serial specification in lock-acquisition order; ids handed out by add_blank_node_to_graph distinct"})


def search(ctx, res, broken):
    oracle(ctx, res, scale=4)


def replay(ctx, payload):
    r = Result()
    case = payload["case"]
    (eval_seq if case["kind"] == "seq" else eval_thr)(case, r)
    for v in r.violations:
        print("  ", v["signature"], v["what"])
    return bool(r.violations)
