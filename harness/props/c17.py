"""C17 - sliver comparison reports exactly the differences between two slivers.

Cases are
  (kind, tree, script): a sliver tree given as a plain spec, built with the real sliver classes, deep-copied, and the
      hierarchical edit script applied to the copy with the real add_/remove_/set_ methods;
  (kind, pair): two independently built slivers over the same name pools (same name with another type, None against empty
      *Info, renamed children - what an edit script on a copy cannot produce);
  (topo, init, ops[, view]): an ExperimentTopology built and edited through the user API - incl. REMOVING an element and ADDING it
      again under its old name (fresh node_id; component, node-level service, sub-interface, port of a bridge), with and without
      property changes - and a library-built deep sliver taken before and after the edits: the node (build_deep_node_sliver), the
      service of one of its SmartNICs, one of its ports, a topology-level L2Bridge (`view`; all three diff methods).
  Both sides of a pair carry node_ids: none / independent on either side / equal under equal paths with some children re-created.
  User data values are texts or Python objects ({"py": literal}: int / float / bool keys, tuples) - every construction path of
  JSONData; (value, lit, cls): one value built through every path (object, its JSON text, rewritten text, string-keyed object,
  deepcopy, pickle), all pairs must be equal and hash alike.
The three real `diff` methods are run old->new and new->old.

translator: gen/diffcfg.py -> Generated/DiffCfg.lean (what prop_diff compares, which child dictionaries every diff compares and
  how, the kinds it descends below, the final test, the fields of the result, the flag values, the value classes' __eq__ idioms;
  _dict_diff / _dict_common run on opaque values: selection by dictionary key alone -> `dictKeyOnly`).
correspondence: structural specs of both real slivers (read back from the objects, property values canonicalised without
  going through the code's __eq__) -> the table-driven Lean model (`nodeDiffC` ... of `Model/Diff.lean` on the generated table);
  the Lean edit-script semantics against the real mutators; the value classes' own ==/!= against `Model/DiffVal.lean` (and
  against the canonical strings of this harness); *Info.add_/remove_ histories against `dictRun`.
oracle: what the edit script says must be reported / what the two specs say (never looks at the model); the guard "every
  SmartNIC has a network service" on everything the component catalog and the topology API produce.
Nothing here reads the extractor's report: the table is asked from the driver (`["cfg"]`), i.e. from the Generated file the
theorems were checked against in this run (the baseline one after a translator fallback).
"""
import ast as _ast
import copy
import itertools
import json
import os
import pickle

from core import LeanDriver, err_kind, canon, CORPUS_DIR
from gen import diffcfg

ID = "C17"
GENERATORS = [diffcfg.generate]
LEAN_MODULES = ["FimVerif.Proofs.C17"]
P = "FimVerif.C17."
THEOREMS = [P + t for t in (
    "iface_diff_self_none", "svc_diff_self_none", "node_diff_self_none", "node_diff_raises_iff",
    "iface_added_removed_dual", "svc_added_removed_dual", "node_added_removed_dual",
    "prop_diff_spec", "iface_diff_spec", "iface_flag_spec", "svc_diff_spec", "comp_flag_spec", "node_diff_spec",
    "iface_diff_none_iff", "svc_diff_none_iff", "node_diff_none_iff",
    "props_edit_exact", "dict_edit_exact", "iface_diff_exact", "svc_diff_exact", "node_diff_exact",
    # the extracted table (gen/diffcfg.py -> Generated/DiffCfg.lean) and the table-driven model the driver runs
    "table_good", "flag_values_decodable", "table_model_eq", "generated_model_eq", "generated_node_diff_self_none",
    "generated_node_diff_exact",
    # modified sets agree in both directions
    "prop_diff_symm", "iface_modified_symm", "svc_modified_symm", "node_modified_symm", "svc_modified_symm_edit",
    "node_modified_symm_edit", "svc_modified_symm_counterexample",
    # blind spots of NodeSliver.diff, exactly
    "node_diff_complete_service_subtree_counterexample", "node_diff_complete_non_smartnic_counterexample",
    "node_diff_complete_partial",
    # corner cases and hypotheses
    "first_sub_interface_flagged", "rename_reported_as_remove_and_add", "none_info_is_empty_info",
    "dict_keys_unique_invariant", "pair_ok_of_ok", "node_diff_kind_collision_counterexample",
    # _dict_diff / _dict_common go by key alone: nothing stored under a key decides, no child drops out (C17-r4-1)
    "dict_select_by_key_only", "dict_partition_by_key",
    # the value classes' own equality (Labels / Capacities / JSONData.__eq__ as written)
    "fields_eq_is_dict_equality", "fields_eq_refl", "field_value_change_is_reported", "user_data_eq_equivalence", "user_data_member_order_irrelevant",
    "user_data_types_distinct", "prop_diff_on_values", "prop_diff_on_values_self")]
TRUSTED_BASE = [
    "gen/diffcfg.py: a symbolic evaluator of the restricted Python the three diff methods, prop_diff and the value classes' __eq__ "
    "are written in (every presence combination of the *Info objects, one symbolic pass through the loop over common children); its "
    "summary must fit the table type `Cfg` exactly or it is an ExtractionError. `Proofs/C17.table_good` checks the extracted table, "
    "`table_model_eq` that the table-driven model is the model of the theorems; the evaluator itself is trusted and checked "
    "differentially (every extracted fact changes the outcome of generated cases: all component / interface kinds, each property, "
    "each term of the final test alone, None/empty/filled *Info on either side, kind collisions, class mismatches)",
    "the control flow the table does not express is mirrored by hand in Model/Diff.lean: the loop over common children, the "
    "first-service indexing of the SmartNIC descent and its AttributeError/IndexError, the shape of the sub-interface test; checked "
    "differentially on generated sliver pairs",
    "Model/DiffVal.lean mirrors Labels.__eq__/Capacities.__eq__ (loop over self.__dict__ with the extracted default for a missing "
    "field) and JSONData.__eq__ (same class, canonical text; a decoded JSON value with number tokens as Python prints them stands "
    "for its canonical text - json.dumps(sort_keys=True) is assumed injective on key-sorted values); checked against the real "
    "==/!= on pool and random values incl. instances lacking a field and, for every field the Labels class defines, a value against "
    "its relatives (case, blanks, leading zeros, equivalent address spellings, prefix, list order; `field_value_change_is_reported`); the canonical strings the harness sends for property values "
    "are checked against the real == on the same values in every run",
    "the edit-script semantics of the theorems (Lemmas/C17Script.lean: applyNode/applySvc/applyIface, expNode/expSvc/expIface) are "
    "hand-written; checked differentially: `apply` against the real add_*/remove_*/set_* calls on a deep copy, `expect` against "
    "what the real diff returns for that copy",
    "_dict_diff / _dict_common are primitives of the symbolic evaluator; that they select by dictionary key alone (never by what is "
    "stored under the key: node_id, the slivers' weak __eq__) is established by running the two functions on opaque values that record "
    "any look at them (`dictKeyOnly`, part of `Cfg.Good`); `dict_partition_by_key` / `dict_select_by_key_only` are proved of the model's "
    "key-only selection; the model's slivers carry no node_id (the wire form drops it) - pairs with independent / re-created node_ids "
    "and library-built remove + re-add histories are compared differentially",
    "JSONData's constructor (encoding of a Python object: non-string keys -> strings, tuples -> arrays) is not modelled: the model "
    "starts from the stored text; instances of one value built through every construction path are compared pairwise with the real == "
    "/ != / hash (oracle) and against the model (`veq`, `canon` of object-built instances)",
    "Python dict/set semantics (keys unique, set of slivers keyed by (resource_name, node_id)) modelled by name-keyed lists; "
    "`dict_keys_unique_invariant` proves the Nodup-names hypothesis for every add_/remove_ history (`dictRun`, checked against the "
    "real InterfaceInfo); output order is not compared (sets / arbitrary set iteration order)",
]
ASSUMPTIONS = [
    "every *Info dictionary is keyed by the resource_name of the sliver it holds (extracted: key of add_* = key of the lookup; "
    "checked on every add_/remove_ history)",
    "a component carries at most one network service (as the FIM API builds it); the code only ever looks at the first one on each side",
    "sub-interfaces exist only under DedicatedPort interfaces (Interface.add_child_interface asserts this) and are leaves",
    "both slivers are of the same class (anything else is refused by the isinstance assertion - extracted and checked) and `other` is "
    "not None (diff(None) returns None); pickles of older Labels/Capacities versions (instances lacking a field) are outside the "
    "quantifier of the sliver theorems (the value-equality model covers them)",
    "every SmartNIC carries a network service (`Node.Ok`; otherwise the method raises: node_diff_raises_iff) - checked on every SmartNIC "
    "of the component catalog and every deep sliver the topology stream builds",
    "symmetry of the modified part needs both sides to agree on which components are SmartNICs / which ports are dedicated "
    "(`KindsAgree`; counterexample proved; a kind collision under the same name can even raise: known finding)",
]
RULE = ("node / service / interface sliver trees (<=4 components of every ComponentType, <=3 node-level services, <=4 interfaces of every "
        "InterfaceType per service, <=3 sub-interfaces per dedicated port; label/capacity/user-data values from a small pool with "
        "equal-valued but differently written user data, plus for EVERY field of the Labels class a base value and its relatives under "
        "the usual normalisations - letter case, blanks, leading zeros, another spelling of the same address, a prefix, list order / "
        "multiplicity, one-element list vs string - as far as the constructor accepts them; an edit replaces the old labels by a relative "
        "of them in a quarter of the label edits; child names related by case / blank / leading zero), deep-copied, hierarchical edit scripts of 0..8 non-conflicting edits "
        "(add/remove component, node-level service, interface, sub-interface; set labels/capacities/user data at every level, sometimes "
        "to the old value; equal-valued user data set on both sides); independently generated pairs over shared name pools (kind "
        "collisions, None / empty / filled *Info on either side, renames); topologies edited through the user API (add/remove "
        "component incl. re-adding a removed name as another model, node-level services, first/second/last sub-interface, property "
        "changes; remove + add again under the old name at every level, with / without property changes; views: node, SmartNIC service, "
        "port, topology-level bridge with ports disconnected / re-connected) with deep slivers before/after; node_ids on both sides of "
        "pairs (none / independent / re-created children); user data from texts and from Python objects (int/float/bool keys, tuples) "
        "through every construction path; plus a malformed stream (SmartNIC without services, sub-interfaces under non-dedicated "
        "ports); value pairs (Labels/Capacities/UserData from pools, random JSON with shuffled members and bool/int/float look-alikes, "
        "instances lacking a field); add_/remove_ histories on an InterfaceInfo. non-trivial = at least one edit / a pair / a topology / "
        "two different values; distinct by canonical request")

FLAG_NAMES = ["LABELS", "CAPACITIES", "USER_DATA", "SUB_INTERFACES"]


# ---------------------------------------------------------------------------------------------
# value pools.  A property value in a spec is None or ["L"|"C"|"U", payload].


LABEL_POOL = [None, {"vlan": "100"}, {"vlan": "101"}, {"ipv4": "192.168.1.1"}, {"ipv4": "192.168.1.2"},
              {"vlan": "100", "local_name": "p1"}, {"mac": "00:11:22:33:44:55"}, {"vlan_range": ["1-10", "20-30"]}, {}]
CAP_POOL = [None, {"bw": 10}, {"bw": 100}, {"core": 2, "ram": 8}, {"core": 2, "ram": 8, "disk": 10}, {"unit": 1}, {"bw": 0}, {},
            # neighbouring fields, and integers past 2**53 (a comparison through floats conflates them)
            {"cpu": 2}, {"core": 2}, {"bw": 2 ** 53}, {"bw": 2 ** 53 + 1}, {"mtu": 9000}, {"mtu": 9001}, {"burst_size": 9000}]
# user data as *text*; several spellings of the same JSON value
UD_POOL = [None, '{}', '{"a": 1}', '{"a":1}', '{ "a" : 1 }', '{"a": 1, "b": [1, 2]}', '{"b": [1, 2], "a": 1}',
           '{"a": 2}', '[1, 2, 3]', '"x"', '{"a": {"y": null, "x": true}}', '{"a": {"x": true, "y": null}}', '{"f": 1.5}', '{"a": 1.0}',
           # the same document with only the letter case of a string value / of a key changed
           '{"name": "Alpha"}', '{"name": "alpha"}', '{"Name": "Alpha"}']


def canon_labels(d):
    return None if d is None else "L" + canon({k: v for k, v in d.items() if v is not None})


def canon_caps(d):
    return None if d is None else "C" + canon({k: v for k, v in d.items() if v not in (None, 0)})


# ---------------------------------------------------------------------------------------------
# values RELATED by a normalisation a well-meant equality might apply (C17-r6-1: Labels.__eq__ lower-casing strings): letter case,
# surrounding blanks, leading zeros, an equivalent spelling of the same address, a prefix, the order / multiplicity of a list's
# elements, a one-element list against the bare string.  For the comparison they are different values: the classes compare the
# stored strings as they are.  The families are built for EVERY field the Labels class defines now (read from the class), from a
# base value with letters in both cases where the field's validator admits them; a relative is kept when the constructor accepts
# it, so the families follow the validators of the tree under test.

NEAR_BASE = {
    "bdf": "0000:AF:00.0", "mac": "AA:bb:CC:dd:EE:0f", "ipv4": "192.168.1.10", "ipv4_range": "192.168.1.1-192.168.1.10",
    "ipv4_subnet": "192.168.1.0/24", "ipv6": "2001:0DB8:85a3:0000:0000:8A2e:0370:7334",
    "ipv6_range": "2001:0DB8::1-2001:0db8::FF", "ipv6_subnet": "2001:0DB8:85a3::/48", "asn": "65001", "vlan": "100",
    "vlan_range": ["1-10", "20-30"], "inner_vlan": "7", "instance": "Instance-001A", "instance_parent": "renc-W1.fabric-testbed.net",
    "local_name": "HundredGigE0/0/0/5", "local_type": "Ethernet", "device_name": "Tesla-A30", "bgp_key": "SecretKey/AbCdEf",
    "account_id": "Acct-XyZ-0042", "region": "US-East1", "usb_id": "1a2b:3c4d", "numa": "0",
}
# other spellings of the same address / number (a parser-based comparison would conflate them)
NEAR_ALT = {
    "ipv4": ["192.168.001.010", "192.168.01.10"], "ipv6": ["2001:db8:85a3::8a2e:370:7334", "2001:DB8:85A3:0:0:8A2E:370:7334"],
    "ipv6_subnet": ["2001:db8:85a3:0::/48"], "vlan": ["0100"], "inner_vlan": ["07", "007"], "asn": ["065001"], "numa": ["-0", "00"],
    "vlan_range": [["01-10", "20-30"], "1-10", ["1-10"]], "ipv4_subnet": ["192.168.1.0/024", "192.168.001.0/24"],
}
NEAR_STR = [("lower", str.lower), ("upper", str.upper), ("swapcase", str.swapcase), ("capitalize", str.capitalize),
            ("lead-blank", lambda s: " " + s), ("trail-blank", lambda s: s + " "), ("lead-zero", lambda s: "0" + s),
            ("prefix", lambda s: s[:-1]), ("trail-newline", lambda s: s + "\n")]
_near_cache = {}


def label_ok(d):
    try:
        R.load().Labels(**d)
        return True
    except Exception:
        return False


def near_values(v):
    """[(how, relative)] of one field value"""
    out = []
    if isinstance(v, str):
        out = [(h, f(v)) for h, f in NEAR_STR] + [("as-list", [v])]
    elif isinstance(v, list) and v:
        out = [("reversed", list(reversed(v))), ("sorted", sorted(v)), ("duplicated", v + v[:1]), ("first-only", v[:1])]
        if len(v) == 1:
            out.append(("as-string", v[0]))
        for h, f in NEAR_STR[:4]:
            out.append((h, [f(x) for x in v]))
    return out


def label_relatives(d):
    """label dictionaries the constructor accepts that differ from d in ONE field's value, by one of the normalisations above"""
    if not d:
        return []
    key = canon(d)
    if key not in _near_cache:
        seen, out = {key}, []
        for f in sorted(d):
            for how, w in near_values(d[f]) + [("alt", a) for a in NEAR_ALT.get(f, []) if d[f] == NEAR_BASE.get(f)]:
                e = dict(d)
                e[f] = w
                if canon(e) not in seen and label_ok(e):
                    seen.add(canon(e))
                    out.append((how, e))
        _near_cache[key] = out
    return [e for _, e in _near_cache[key]]


def label_families():
    """[(field, [base dict, relative dict, ...])] for every field of the Labels class"""
    if "families" not in _near_cache:
        r = R.load()
        fams = []
        for f in r.Labels().__dict__:
            cands = [NEAR_BASE.get(f), (r.Labels.VALIDATORS.get(f) or (None, None))[1] if hasattr(r.Labels, "VALIDATORS") else None, "Ab-Cd.01x", "10"]
            base = next(({f: c} for c in cands if c is not None and label_ok({f: c})), None)
            if base is not None:
                fams.append((f, [base] + label_relatives(base)))
        _near_cache["families"] = fams
    return _near_cache["families"]


def near_label_pool():
    if "pool" not in _near_cache:
        _near_cache["pool"] = [d for _, fam in label_families() for d in fam]
    return _near_cache["pool"]


def g_labels(rng):
    """a label value for a spec: the small pool, or (3 in 10) a member of one of the families"""
    return rng.choice(near_label_pool()) if rng.random() < 0.3 else rng.choice(LABEL_POOL)


# user data: the same document with a letter's case / a blank / the composition of a character changed in a string value or a key
UD_NEAR = ['{"name": "Alpha"}', '{"name": "alpha"}', '{"name": "ALPHA"}', '{"Name": "Alpha"}', '{"name": "Alpha "}', '{"name": " Alpha"}',
           '{"name": "caf\\u00e9"}', '{"name": "cafe\\u0301"}', '{"name": ["Alpha"]}', '{"tags": ["a", "B"]}', '{"tags": ["A", "b"]}',
           '{"tags": ["B", "a"]}', '{"n": "1"}', '{"n": 1}', '{"n": "01"}']


# user data handed over as a Python OBJECT (the other construction path of JSONData): {"py": "<python literal>"}.  Non-string keys
# (int / float / bool) become strings in the stored text, tuples become arrays; int keys sort numerically as objects and
# lexicographically as text (2 < 10 but "10" < "2"), so equal documents built through different paths are the interesting pairs.
UD_OBJ = ["{2: 'slot-b', 10: 'slot-k'}", "{'queues': {1: 'mgmt', 2: 'data0', 10: 'data1', 11: 'data2'}}", "{9: 'rx', 10: 'tx'}",
          "{'vlans': {100: 'storage', 20: 'control', 3: 'oob'}}", "{1: 'a', 2: 'b', 3: 'c'}", "{7: 'only'}", "{1.5: 'a', 10.0: 'b', 2.25: 'c'}",
          "{'t': (1, 2, (3, 4))}", "{'a': [{3: 1, 20: 2, 100: 3}]}", "{True: 'yes', False: 'no'}", "(1, 'x', {5: None, 40: None})",
          "{-1: 'm', -10: 'n', 5: 'p'}"]
# mixed key types on one level (only sortable after they went through JSON): value stream only
UD_OBJ_MIXED = ["{2: 'x', 'a': 'y', 10: 'z'}", "{None: 1, 2: 3}", "{1: 'a', '1': 'b'}", "{True: 'x', 'k': 1, 3: 2}", "{'k': {1: 1, 'z': 2, 1.5: 3}}"]


def ud_obj(v):
    return _ast.literal_eval(v["py"])


def ud_text(v):
    """the JSON text a user-data spec value stands for (what JSONData stores)"""
    return v if isinstance(v, str) else json.dumps(ud_obj(v))


def ud_paths(lit):
    """one value through every construction path: the object, the text JSONData writes for it, that text sorted and compact, and
    the string-keyed object a JSON round trip of it gives"""
    o = _ast.literal_eval(lit)
    t = json.dumps(o)
    return [{"py": lit}, t, json.dumps(json.loads(t), sort_keys=True, separators=(",", ":")), {"py": repr(json.loads(t))}]


def mk_ud(v):
    r = R.load()
    return r.UserData(v) if isinstance(v, str) else r.UserData(ud_obj(v))


def canon_ud(t):
    return None if t is None else "U" + json.dumps(json.loads(ud_text(t)), sort_keys=True)


# what the sliver generators draw user data from: the texts plus every construction path of the object values
UD_SLIVER_POOL = UD_POOL + [v for lit in UD_OBJ for v in ud_paths(lit)]

# ---------------------------------------------------------------------------------------------
# building real slivers from specs, reading specs back from real slivers


class R:
    """lazily imported repo classes"""
    ok = False

    @classmethod
    def load(cls):
        if cls.ok:
            return cls
        from fim.slivers.network_node import NodeSliver, NodeType
        from fim.slivers.network_service import NetworkServiceSliver, NetworkServiceInfo, ServiceType
        from fim.slivers.interface_info import InterfaceSliver, InterfaceInfo, InterfaceType
        from fim.slivers.attached_components import ComponentSliver, AttachedComponentsInfo, ComponentType
        from fim.slivers.capacities_labels import Labels, Capacities
        from fim.slivers.json_data import UserData
        from fim.slivers.topology_diff import WhatsModifiedFlag, TopologyDiff
        for k, v in list(locals().items()):
            if k != "cls":
                setattr(cls, k, v)
        cls.ok = True
        return cls


def mk_props(sl, p):
    r = R.load()
    lab, cap, ud = p
    if lab is not None:
        sl.set_labels(r.Labels(**lab))
    if cap is not None:
        sl.set_capacities(r.Capacities(**cap))
    if ud is not None:
        sl.set_user_data(mk_ud(ud))


def mk_iface(s):
    r = R.load()
    i = r.InterfaceSliver()
    i.set_name(s["n"])
    i.set_type(r.InterfaceType[s.get("t", "SubInterface")])
    i.node_id = s.get("id")
    mk_props(i, s["p"])
    if s.get("subs") is not None:
        i.interface_info = r.InterfaceInfo()
        for x in s["subs"]:
            i.interface_info.add_interface(mk_iface(x))
    return i


def mk_svc(s):
    r = R.load()
    v = r.NetworkServiceSliver()
    v.set_name(s["n"])
    v.set_type(r.ServiceType[s.get("t", "OVS")])
    v.node_id = s.get("id")
    mk_props(v, s["p"])
    if s.get("ifs") is not None:
        v.interface_info = r.InterfaceInfo()
        for x in s["ifs"]:
            v.interface_info.add_interface(mk_iface(x))
    return v


def mk_comp(s):
    r = R.load()
    c = r.ComponentSliver()
    c.set_name(s["n"])
    c.set_type(r.ComponentType[s["t"]])
    c.node_id = s.get("id")
    mk_props(c, s["p"])
    if s.get("svcs") is not None:
        c.network_service_info = r.NetworkServiceInfo()
        for x in s["svcs"]:
            c.network_service_info.add_network_service(mk_svc(x))
    return c


def mk_node(s):
    r = R.load()
    n = r.NodeSliver()
    n.set_name(s["n"])
    n.set_type(r.NodeType.VM)
    n.node_id = s.get("id")
    mk_props(n, s["p"])
    if s.get("comps") is not None:
        n.attached_components_info = r.AttachedComponentsInfo()
        for x in s["comps"]:
            n.attached_components_info.add_device(mk_comp(x))
    if s.get("svcs") is not None:
        n.network_service_info = r.NetworkServiceInfo()
        for x in s["svcs"]:
            n.network_service_info.add_network_service(mk_svc(x))
    return n


MK = {"node": mk_node, "svc": mk_svc, "iface": mk_iface}


def wire_props(sl):
    """canonical strings of the three tracked properties, read from the object's fields (not via __eq__)"""
    lab, cap, ud = sl.labels, sl.capacities, sl.user_data
    return [None if lab is None else canon_labels(dict(lab.__dict__)),
            None if cap is None else canon_caps(dict(cap.__dict__)),
            None if ud is None else canon_ud(ud._data)]


def type_name(sl):
    """name of the enum member get_type() returns ('' when no type is set)"""
    t = sl.get_type()
    return "" if t is None else t.name


def resolve_kinds(w, cfg):
    """the shape the Lean model hands a tree back in: type names replaced by 'is one of the kinds the method descends below'
    (the kinds are the ones of the extracted table, asked from the driver - never from the extractor's report)"""
    if isinstance(w, list):
        return [resolve_kinds(x, cfg) for x in w]
    if not isinstance(w, dict):
        return w
    out = {k: resolve_kinds(v, cfg) for k, v in w.items() if k != "t"}
    if "t" in w:
        if "svcs" in w:
            out["s"] = w["t"] in cfg["compKinds"]
        else:
            out["d"] = w["t"] in cfg["ifaceKinds"]
    return out


def wire_leaf(i):
    return {"n": i.resource_name, "p": wire_props(i)}


def wire_iface(i):
    r = R.load()
    return {"n": i.resource_name, "p": wire_props(i), "t": type_name(i),
            "subs": None if i.interface_info is None else [wire_leaf(x) for x in i.interface_info.interfaces.values()]}


def wire_svc(v):
    return {"n": v.resource_name, "p": wire_props(v),
            "ifs": None if v.interface_info is None else [wire_iface(x) for x in v.interface_info.interfaces.values()]}


def wire_comp(c):
    r = R.load()
    return {"n": c.resource_name, "p": wire_props(c), "t": type_name(c),
            "svcs": None if c.network_service_info is None else [wire_svc(x) for x in c.network_service_info.network_services.values()]}


def wire_node(n):
    return {"n": n.resource_name, "p": wire_props(n),
            "comps": None if n.attached_components_info is None else [wire_comp(x) for x in n.attached_components_info.devices.values()],
            "svcs": None if n.network_service_info is None else [wire_svc(x) for x in n.network_service_info.network_services.values()]}


WIRE = {"node": wire_node, "svc": wire_svc, "iface": wire_iface, "topo": wire_node}

# ---------------------------------------------------------------------------------------------
# edit scripts (hierarchical, non-conflicting by construction) and their application to real slivers
#
# props edit   pe  = {"labels": [v], "caps": [v], "ud": [v], "ud_both": [textA, textB]}      (each key optional)
# iface script     = {"pe": pe, "add": [leafspec], "rm": [name], "sub": {name: pe}}
# svc script       = {"pe": pe, "add": [ifacespec], "rm": [name], "iface": {name: iface script}}
# comp script      = {"pe": pe, "svc": svc script}                (the component's first service)
# node script      = {"pe": pe, "addc": [compspec], "rmc": [name], "comp": {name: comp script},
#                     "adds": [svcspec], "rms": [name], "svc": {name: svc script}}


def apply_pe(a, b, pe):
    """apply a props edit to the copy b (and, for ud_both, separately built equal-valued objects to a and b)"""
    r = R.load()
    if not pe:
        return
    if "labels" in pe:
        v = pe["labels"][0]
        b.set_labels(None if v is None else r.Labels(**v))
    if "caps" in pe:
        v = pe["caps"][0]
        b.set_capacities(None if v is None else r.Capacities(**v))
    if "ud" in pe:
        v = pe["ud"][0]
        b.set_user_data(None if v is None else mk_ud(v))
    if "ud_both" in pe:
        ta, tb = pe["ud_both"]
        a.set_user_data(mk_ud(ta))
        b.set_user_data(mk_ud(tb))


def apply_iface(a, b, sc):
    r = R.load()
    if not sc:
        return
    apply_pe(a, b, sc.get("pe"))
    for x in sc.get("add", []):
        if b.interface_info is None:
            b.interface_info = r.InterfaceInfo()
        b.interface_info.add_interface(mk_iface(x))
    for k in sc.get("rm", []):
        b.interface_info.remove_interface(k)
    for k, pe in sc.get("sub", {}).items():
        apply_pe(a.interface_info.get_interface(k), b.interface_info.get_interface(k), pe)


def apply_svc(a, b, sc):
    r = R.load()
    if not sc:
        return
    apply_pe(a, b, sc.get("pe"))
    for x in sc.get("add", []):
        if b.interface_info is None:
            b.interface_info = r.InterfaceInfo()
        b.interface_info.add_interface(mk_iface(x))
    for k in sc.get("rm", []):
        b.interface_info.remove_interface(k)
    for k, s2 in sc.get("iface", {}).items():
        apply_iface(a.interface_info.get_interface(k), b.interface_info.get_interface(k), s2)


def first_svc(c):
    return list(c.network_service_info.network_services.values())[0]


def apply_comp(a, b, sc):
    if not sc:
        return
    apply_pe(a, b, sc.get("pe"))
    if sc.get("svc"):
        apply_svc(first_svc(a), first_svc(b), sc["svc"])


def apply_node(a, b, sc):
    r = R.load()
    if not sc:
        return
    apply_pe(a, b, sc.get("pe"))
    for x in sc.get("addc", []):
        if b.attached_components_info is None:
            b.attached_components_info = r.AttachedComponentsInfo()
        b.attached_components_info.add_device(mk_comp(x))
    for k in sc.get("rmc", []):
        b.attached_components_info.remove_device(k)
    for k, s2 in sc.get("comp", {}).items():
        apply_comp(a.attached_components_info.get_device(k), b.attached_components_info.get_device(k), s2)
    for x in sc.get("adds", []):
        if b.network_service_info is None:
            b.network_service_info = r.NetworkServiceInfo()
        b.network_service_info.add_network_service(mk_svc(x))
    for k in sc.get("rms", []):
        b.network_service_info.remove_network_service(k)
    for k, s2 in sc.get("svc", {}).items():
        apply_svc(a.network_service_info.get_network_service(k), b.network_service_info.get_network_service(k), s2)


APPLY = {"node": apply_node, "svc": apply_svc, "iface": apply_iface}


def build_pair(case):
    """(old, new): build, deep-copy, edit the copy; or two independently built slivers (`pair`)"""
    if case["kind"] == "topo":
        return topo_build(case)
    if "pair" in case:
        return MK[case["kind"]](case["pair"][0]), MK[case["kind"]](case["pair"][1])
    a = MK[case["kind"]](case["tree"])
    b = copy.deepcopy(a)
    APPLY[case["kind"]](a, b, case.get("script") or {})
    return a, b


# ---------------------------------------------------------------------------------------------
# observing a TopologyDiff


def flag_int(f):
    return int(f.value)


def flag_decode(f):
    """which of the four kinds of change the flag *contains* (what a consumer of the diff tests), as 1/2/4/8 bits in the order
    of FLAG_NAMES - independent of the integer values the enum happens to give its members"""
    W = R.load().WhatsModifiedFlag
    return sum(1 << i for i, nm in enumerate(FLAG_NAMES) if W[nm].value != 0 and (f & W[nm]) == W[nm])


def observe(d, flag_int=flag_int):
    """canonical form of a TopologyDiff (or None): names sorted; modified as sorted [name, flagint]"""
    if d is None:
        return None
    out = {}
    for side in ("added", "removed"):
        t = getattr(d, side)
        for slot in ("nodes", "components", "services", "interfaces"):
            out[side + "." + slot] = sorted(x.resource_name for x in getattr(t, slot))
    for slot in ("nodes", "components", "services", "interfaces"):
        out["modified." + slot] = sorted([x.resource_name, flag_int(f)] for x, f in getattr(d.modified, slot))
    return out


def run_diff(a, b, decode=False):
    """decode=False: flags as the integer the library hands out (compared with the model, which uses the extracted member values);
    decode=True: flags as the set of kinds they contain (what the oracle judges)"""
    try:
        return ["ok", observe(a.diff(b), flag_decode if decode else flag_int)]
    except Exception as e:
        return ["err", err_kind(e)]


EMPTY = {s + "." + t: [] for s in ("added", "removed", "modified") for t in ("nodes", "components", "services", "interfaces")}


def norm_for(req, reply):
    return json.loads(reply) if req[0] == "apply" else norm_model(reply)


def norm_model(reply):
    """Lean reply -> same canonical form (sort what the model returns in dictionary order)"""
    j = json.loads(reply)
    if j[0] != "ok" or j[1] is None:
        return j
    return ["ok", {k: sorted(v) for k, v in j[1].items()}]


# ---------------------------------------------------------------------------------------------
# expectations from the script (the oracle)


def eff_pe(pe, old):
    """flags (as a set of names) a props edit really changes, given the old spec values [lab, cap, ud]"""
    out = set()
    if not pe:
        return out
    if "labels" in pe and canon_labels(pe["labels"][0]) != canon_labels(old[0]):
        out.add("LABELS")
    if "caps" in pe and canon_caps(pe["caps"][0]) != canon_caps(old[1]):
        out.add("CAPACITIES")
    if "ud" in pe and canon_ud(pe["ud"][0]) != canon_ud(old[2]):
        out.add("USER_DATA")
    if "ud_both" in pe and canon_ud(pe["ud_both"][0]) != canon_ud(pe["ud_both"][1]):
        out.add("USER_DATA")
    return out


def fl(names):
    return sum(1 << FLAG_NAMES.index(n) for n in names)


def by_name(lst):
    return {x["n"]: x for x in (lst or [])}


def exp_iface(spec, sc):
    """expected report of InterfaceSliver.diff: self flags, added, removed, modified subs"""
    sc = sc or {}
    e = dict(EMPTY)
    me = eff_pe(sc.get("pe"), spec["p"])
    e["modified.services"] = [[spec["n"], fl(me)]] if me else []   # the method files itself under 'services'
    e["added.interfaces"] = sorted(x["n"] for x in sc.get("add", []))
    e["removed.interfaces"] = sorted(sc.get("rm", []))
    subs = by_name(spec.get("subs"))
    mods = []
    for k, pe in sc.get("sub", {}).items():
        f = eff_pe(pe, subs[k]["p"])
        if f:
            mods.append([k, fl(f)])
    e["modified.interfaces"] = sorted(mods)
    return e


def nonempty(e):
    return any(e[k] for k in e)


def sub_changed(e):
    return bool(e["added.interfaces"] or e["removed.interfaces"] or e["modified.interfaces"])


def exp_svc(spec, sc, hidden=None):
    sc = sc or {}
    e = dict(EMPTY)
    me = eff_pe(sc.get("pe"), spec["p"])
    e["modified.services"] = [[spec["n"], fl(me)]] if me else []
    e["added.interfaces"] = sorted(x["n"] for x in sc.get("add", []))
    e["removed.interfaces"] = sorted(sc.get("rm", []))
    ifs = by_name(spec.get("ifs"))
    mods = []
    for k, s2 in sc.get("iface", {}).items():
        f = eff_pe(s2.get("pe"), ifs[k]["p"])
        ei = exp_iface(ifs[k], s2)
        if sub_changed(ei):
            if ifs[k].get("t") == "DedicatedPort":
                f = f | {"SUB_INTERFACES"}
            elif hidden is not None:
                hidden.append("sub-interfaces-under-non-dedicated-port")
        if f:
            mods.append([k, fl(f)])
    e["modified.interfaces"] = sorted(mods)
    return e


def exp_node(spec, sc, hidden):
    """expected report of NodeSliver.diff; `hidden` collects classes of effective edits the method has no way to show"""
    sc = sc or {}
    e = dict(EMPTY)
    me = eff_pe(sc.get("pe"), spec["p"])
    e["modified.nodes"] = [[spec["n"], fl(me)]] if me else []
    e["added.components"] = sorted(x["n"] for x in sc.get("addc", []))
    e["removed.components"] = sorted(sc.get("rmc", []))
    e["added.services"] = sorted(x["n"] for x in sc.get("adds", []))
    e["removed.services"] = sorted(sc.get("rms", []))
    comps = by_name(spec.get("comps"))
    mods = []
    for k, s2 in sc.get("comp", {}).items():
        f = eff_pe(s2.get("pe"), comps[k]["p"])
        if s2.get("svc"):
            below = exp_svc(comps[k]["svcs"][0], s2["svc"])
            if nonempty(below):
                if comps[k]["t"] == "SmartNIC":
                    f = f | {"SUB_INTERFACES"}
                else:
                    hidden.append("non-smartnic-component-subtree")
        if f:
            mods.append([k, fl(f)])
    e["modified.components"] = sorted(mods)
    svcs = by_name(spec.get("svcs"))
    mods = []
    for k, s2 in sc.get("svc", {}).items():
        f = eff_pe(s2.get("pe"), svcs[k]["p"])
        below = exp_svc(svcs[k], dict(s2, pe=None))
        if nonempty(below):
            hidden.append("node-service-subtree")
        if f:
            mods.append([k, fl(f)])
    e["modified.services"] = sorted(mods)
    return e


# ---- expectations for two independently built slivers: the statement read directly on the two specs
#      (added / removed = key-set differences at every level the method reports on; for the survivors the tracked properties
#      that differ, and SUB_INTERFACES for a dedicated port whose sub-interfaces differ / a SmartNIC whose service differs).
#      Where the two sides disagree about the *type* of a child with the same name the statement says nothing about
#      SUB_INTERFACES: such names are returned in `mask` and their SUB bit is not judged.


def pd_specs(pa, pb):
    """on canonical trees (`canon_tree` of a spec, or the wire form read back from a real sliver)"""
    return {nm for nm, x, y in zip(FLAG_NAMES, pa, pb) if x != y}


def canon_tree(t):
    """a spec with its property values replaced by their canonical strings"""
    if isinstance(t, list):
        return [canon_tree(x) for x in t]
    if not isinstance(t, dict):
        return t
    out = {k: canon_tree(v) for k, v in t.items() if k != "p"}
    if "p" in t:
        out["p"] = [canon_labels(t["p"][0]), canon_caps(t["p"][1]), canon_ud(t["p"][2])]
    return out


def pair_level(la, lb, flagf):
    da, db = by_name(la), by_name(lb)
    mods = []
    for k in sorted(set(da) & set(db)):
        f = flagf(da[k], db[k])
        if f:
            mods.append([k, fl(f)])
    return sorted(set(db) - set(da)), sorted(set(da) - set(db)), mods


def pair_iface(a, b):
    e = dict(EMPTY)
    me = pd_specs(a["p"], b["p"])
    e["modified.services"] = [[a["n"], fl(me)]] if me else []
    e["added.interfaces"], e["removed.interfaces"], e["modified.interfaces"] = pair_level(
        a.get("subs"), b.get("subs"), lambda x, y: pd_specs(x["p"], y["p"]))
    return e


def pair_svc(a, b, mask):
    e = dict(EMPTY)
    me = pd_specs(a["p"], b["p"])
    e["modified.services"] = [[a["n"], fl(me)]] if me else []

    def flagf(x, y):
        f = pd_specs(x["p"], y["p"])
        if sub_changed(pair_iface(x, y)):
            if x.get("t") == "DedicatedPort" and y.get("t") == "DedicatedPort":
                f = f | {"SUB_INTERFACES"}
            else:
                # the two sides disagree about the kind, or sub-interfaces hang below a port that cannot have any: not judged
                mask.add(("modified.interfaces", x["n"]))
        return f
    e["added.interfaces"], e["removed.interfaces"], e["modified.interfaces"] = pair_level(a.get("ifs"), b.get("ifs"), flagf)
    return e


def pair_node(a, b, mask):
    e = dict(EMPTY)
    me = pd_specs(a["p"], b["p"])
    e["modified.nodes"] = [[a["n"], fl(me)]] if me else []

    def cflag(x, y):
        f = pd_specs(x["p"], y["p"])
        if x.get("t") != y.get("t"):
            mask.add(("modified.components", x["n"]))
        elif x["t"] == "SmartNIC":
            m2 = set()
            below = pair_svc(x["svcs"][0], y["svcs"][0], m2)
            if m2:
                mask.add(("modified.components", x["n"]))
            elif nonempty(below):
                f = f | {"SUB_INTERFACES"}
        return f
    e["added.components"], e["removed.components"], e["modified.components"] = pair_level(a.get("comps"), b.get("comps"), cflag)
    e["added.services"], e["removed.services"], e["modified.services"] = pair_level(
        a.get("svcs"), b.get("svcs"), lambda x, y: pd_specs(x["p"], y["p"]))
    return e


def kind_collisions(kind, ta, tb):
    """names of components present on both sides of a pair of nodes with different types"""
    if kind != "node":
        return []
    da, db = by_name(ta.get("comps")), by_name(tb.get("comps"))
    return sorted(k for k in set(da) & set(db) if da[k].get("t") != db[k].get("t"))


def pair_trees(case, a=None, b=None):
    """the two sides of a pair as canonical trees: from the specs, or (library-built slivers) read back from the objects"""
    if case["kind"] == "topo":
        return WIRE[eff_kind(case)](a), WIRE[eff_kind(case)](b)
    return canon_tree(case["pair"][0]), canon_tree(case["pair"][1])


def expected_pair(kind, ta, tb, mask):
    e = pair_node(ta, tb, mask) if kind == "node" else pair_svc(ta, tb, mask) if kind == "svc" else pair_iface(ta, tb)
    return e if nonempty(e) else None


def apply_mask(exp, obs, mask):
    """copy the observed SUB_INTERFACES bit of the masked entries into the expectation (it is not judged there)"""
    if not mask:
        return exp
    e = {k: [list(x) if isinstance(x, list) else x for x in v] for k, v in (exp or EMPTY).items()}
    o = obs or EMPTY
    for slot, name in mask:
        fo = dict(map(tuple, o[slot])).get(name, 0) & 8
        cur = dict(map(tuple, e[slot]))
        f = (cur.get(name, 0) & ~8) | fo
        cur.pop(name, None)
        if f:
            cur[name] = f
        e[slot] = sorted([k, v] for k, v in cur.items())
    return e if nonempty(e) else None


def expected(case, hidden):
    k = eff_kind(case)
    if case["kind"] == "topo":
        return expected_pair(k, *pair_trees(case, *build_pair(case)), set())
    if "pair" in case:
        return expected_pair(k, *pair_trees(case), set())
    if k == "node":
        e = exp_node(case["tree"], case.get("script"), hidden)
    elif k == "svc":
        e = exp_svc(case["tree"], case.get("script"), hidden)
    else:
        e = exp_iface(case["tree"], case.get("script"))
    return e if nonempty(e) else None


METHOD = {"node": "NodeSliver.diff", "svc": "NetworkServiceSliver.diff", "iface": "InterfaceSliver.diff", "topo": "NodeSliver.diff"}


def compare(exp, obs):
    """list of (slot, kind) differences between expected and observed canonical reports"""
    out = []
    e = exp or EMPTY
    o = obs or EMPTY
    if (exp is None) != (obs is None):
        out.append(("result", "none-expected" if exp is None else "none-returned"))
    for slot in sorted(EMPTY):
        if slot.startswith("modified"):
            de, do = dict(map(tuple, e[slot])), dict(map(tuple, o[slot]))
            if len(do) != len(o[slot]):
                out.append((slot, "duplicate"))
            for k in sorted(set(de) | set(do)):
                fe, fo = de.get(k, 0), do.get(k, 0)
                for i, nm in enumerate(FLAG_NAMES):
                    if (fe >> i) & 1 and not (fo >> i) & 1:
                        out.append((slot, "flag-missing:" + nm))
                    if (fo >> i) & 1 and not (fe >> i) & 1:
                        out.append((slot, "flag-spurious:" + nm))
                if fo == 0 and k in do:
                    out.append((slot, "listed-with-no-flag"))
        else:
            if sorted(set(e[slot]) - set(o[slot])):
                out.append((slot, "missing"))
            if sorted(set(o[slot]) - set(e[slot])):
                out.append((slot, "spurious"))
    return out


def check_case(case, res):
    """the property itself on the implementation; returns number of violations added"""
    n0 = len(res.violations) + sum(v.get("count", 1) - 1 for v in res.violations)
    ek = eff_kind(case)
    meth = METHOD[ek]

    def bad(sig, what, **kw):
        res.violation("C17:%s:%s" % (meth, sig), what, case, **kw)

    try:
        a, b = build_pair(case)
    except Exception as e:
        raise RuntimeError("harness could not build case %s: %r" % (canon(case)[:300], e))
    hidden = []
    fwd = run_diff(a, b, decode=True)
    bwd = run_diff(b, a, decode=True)
    is_pair = "pair" in case or case["kind"] == "topo"
    if is_pair:
        mask = set()
        ta, tb = pair_trees(case, a, b)
        if case["kind"] == "topo":
            for t in (ta, tb):
                for c in t.get("comps") or []:
                    if c["t"] == "SmartNIC" and not c["svcs"]:
                        bad("hypothesis:smartnic-without-service", "a deep sliver built from a topology has a SmartNIC without a network service")
        exp = expected_pair(ek, ta, tb, mask)
        if fwd[0] == "ok":
            exp = apply_mask(exp, fwd[1], mask)
    else:
        exp = expected(case, hidden)
    if fwd[0] == "err" or bwd[0] == "err":
        kind = fwd[1] if fwd[0] == "err" else bwd[1]
        if is_pair and kind_collisions(ek, ta, tb):
            # a component that is a SmartNIC on one side and something else without a network service on the other
            bad("kind-collision:raises:" + kind, "diff raised: a component has the same name but another type on the other side "
                "(%s)" % ", ".join(kind_collisions(ek, ta, tb)), observed=[fwd, bwd])
        else:
            bad("raises:" + kind, "diff raised on well-formed slivers", observed=[fwd, bwd])
        return 1
    obs = fwd[1]
    for slot, kind in compare(exp, obs):
        bad("%s:%s" % (slot, kind), "%s: old->new report differs from the edit script at %s (%s)" % (meth, slot, kind),
            expected=exp, observed=obs)
    for h in sorted(set(hidden)):
        # effective edits the method has no way to report: they must at least not be reported as "no difference"
        if exp is None and obs is None:
            bad("unreported:" + h, "%s returns None although the copy was edited below (%s)" % (meth, h), expected="a report", observed=None)
    # duality: added old->new == removed new->old, and vice versa
    of, ob = fwd[1] or EMPTY, bwd[1] or EMPTY
    for slot in ("nodes", "components", "services", "interfaces"):
        if of["added." + slot] != ob["removed." + slot]:
            bad("dual:added." + slot, "added old->new is not removed new->old", expected=of["added." + slot], observed=ob["removed." + slot])
        if of["removed." + slot] != ob["added." + slot]:
            bad("dual:removed." + slot, "removed old->new is not added new->old", expected=of["removed." + slot], observed=ob["added." + slot])
    # identity of what is handed back: added elements are the new sliver's children, removed/modified the old one's
    try:
        d = a.diff(b)
        if d is not None:
            ida, idb = ids_below(a), ids_below(b)
            for slot in ("nodes", "components", "services", "interfaces"):
                if any(id(x) not in idb for x in getattr(d.added, slot)):
                    bad("identity:added." + slot, "an added element is not an element of the new sliver")
                if any(id(x) not in ida for x in getattr(d.removed, slot)):
                    bad("identity:removed." + slot, "a removed element is not an element of the old sliver")
                if any(id(x) not in ida for x, _ in getattr(d.modified, slot)):
                    bad("identity:modified." + slot, "a modified element is not an element of the old sliver")
    except Exception:
        pass
    # a copy of either side compares equal to it
    for s, nm in ((a, "old"), (b, "new")):
        r = run_diff(s, copy.deepcopy(s), decode=True)
        if r != ["ok", None]:
            bad("self-copy" if r[0] == "ok" else "self-copy:raises:" + r[1],
                "the %s sliver compared with a deep copy of itself reports a difference" % nm, expected=None, observed=r)
    n1 = len(res.violations) + sum(v.get("count", 1) - 1 for v in res.violations)
    return n1 - n0


def ids_below(s):
    out = {id(s)}
    for attr, coll in (("attached_components_info", "devices"), ("network_service_info", "network_services"),
                       ("interface_info", "interfaces")):
        info = getattr(s, attr, None)
        if info is not None:
            for x in getattr(info, coll).values():
                out |= ids_below(x)
    return out


# ---------------------------------------------------------------------------------------------
# generators


def g_props(rng, dense=0.5):
    return [g_labels(rng) if rng.random() < dense else None,
            rng.choice(CAP_POOL) if rng.random() < dense else None,
            rng.choice(UD_SLIVER_POOL if rng.random() < 0.4 else UD_POOL) if rng.random() < dense else None]


def g_leaf(rng, name):
    return {"n": name, "t": "SubInterface", "p": g_props(rng)}


def type_names(enum):
    """every member of ComponentType / InterfaceType as the library defines them now (so that a kind the source starts or
    stops descending below is exercised whatever it is)"""
    return [m.name for m in getattr(R.load(), enum)]


def g_iface(rng, name, typ=None, allow_bad=False):
    typ = typ or (rng.choice(["DedicatedPort", "DedicatedPort", "SharedPort", "AccessPort", "TrunkPort"]) if rng.random() < 0.7
                  else rng.choice(type_names("InterfaceType")))
    s = {"n": name, "t": typ, "p": g_props(rng), "subs": None}
    if typ == "DedicatedPort" or allow_bad:
        k = rng.choice([None, 0, 1, 2, 3]) if typ == "DedicatedPort" else rng.choice([None, 1, 2])
        if k is not None:
            s["subs"] = [g_leaf(rng, "%s.%d" % (name, j)) for j in range(k)]
    return s


def g_svc(rng, name, allow_bad=False, dedicated_bias=False):
    k = rng.choice([None, 0, 1, 2, 2, 3, 4])
    s = {"n": name, "t": rng.choice(["OVS", "L2Bridge", "FABNetv4", "L2STS"]), "p": g_props(rng), "ifs": None}
    if k is not None:
        s["ifs"] = [g_iface(rng, "%s-p%d" % (name, j), "DedicatedPort" if dedicated_bias and rng.random() < 0.7 else None, allow_bad)
                    for j in range(k)]
    return s


def g_comp(rng, name, allow_bad=False):
    typ = rng.choice(["SmartNIC", "SmartNIC", "SharedNIC", "GPU", "NVME", "FPGA"]) if rng.random() < 0.8 \
        else rng.choice(type_names("ComponentType"))
    s = {"n": name, "t": typ, "p": g_props(rng), "svcs": None}
    if typ in ("SmartNIC", "SharedNIC", "FPGA") or (typ == "Storage" and rng.random() < 0.5):
        s["svcs"] = [g_svc(rng, name + "-ns", allow_bad, dedicated_bias=(typ == "SmartNIC"))]
    return s


def g_node(rng, allow_bad=False):
    kc = rng.choice([None, 0, 1, 2, 3, 4])
    ks = rng.choice([None, None, 0, 1, 2, 3])
    return {"n": "node%d" % rng.randrange(3), "p": g_props(rng),
            "comps": None if kc is None else [g_comp(rng, "c%d" % j, allow_bad) for j in range(kc)],
            "svcs": None if ks is None else [g_svc(rng, "ns%d" % j, allow_bad) for j in range(ks)]}


def g_pe(rng, old, p=0.35):
    """props edit; sometimes sets the old value again (an edit that changes nothing)"""
    pe = {}
    if rng.random() < p:
        rel = label_relatives(old[0]) if rng.random() < 0.4 else []   # 0.25 of the label edits: a relative of the old value
        pe["labels"] = [old[0] if rng.random() < 0.15 else rng.choice(rel) if rel else g_labels(rng)]
    if rng.random() < p:
        pe["caps"] = [old[1] if rng.random() < 0.15 else rng.choice(CAP_POOL)]
    r = rng.random()
    if r < p:
        pe["ud"] = [old[2] if rng.random() < 0.15 else rng.choice(UD_SLIVER_POOL if rng.random() < 0.4 else UD_POOL)]
    elif r < p + 0.15:
        pool = UD_SLIVER_POOL[len(UD_POOL):] if rng.random() < 0.5 else UD_POOL[1:]       # half of them: object-built values
        ta = rng.choice(pool)
        same = [t for t in UD_SLIVER_POOL[1:] if canon_ud(t) == canon_ud(ta)]
        pe["ud_both"] = [ta, rng.choice(same) if rng.random() < 0.8 else rng.choice(pool)]
    return pe


def pick(rng, names, p):
    return [n for n in names if rng.random() < p]


def g_iface_script(rng, spec, p=0.35, allow_bad=False):
    sc = {"pe": g_pe(rng, spec["p"], p)}
    if spec.get("t") == "DedicatedPort" or (allow_bad and spec.get("subs") is not None):
        names = [x["n"] for x in (spec.get("subs") or [])]
        rm = pick(rng, names, p * 0.6)
        sc["rm"] = rm
        sc["sub"] = {k: g_pe(rng, by_name(spec["subs"])[k]["p"], 0.4) for k in names if k not in rm and rng.random() < p}
        sc["add"] = [g_leaf(rng, "%s.n%d" % (spec["n"], j)) for j in range(rng.choice([0, 0, 0, 1, 1, 2]))] if rng.random() < p * 1.5 else []
    return sc


def g_svc_script(rng, spec, p=0.35, allow_bad=False):
    sc = {"pe": g_pe(rng, spec["p"], p)}
    names = [x["n"] for x in (spec.get("ifs") or [])]
    rm = pick(rng, names, p * 0.5)
    sc["rm"] = rm
    sc["iface"] = {k: g_iface_script(rng, by_name(spec["ifs"])[k], 0.4, allow_bad) for k in names if k not in rm and rng.random() < p * 1.3}
    sc["add"] = [g_iface(rng, "%s-n%d" % (spec["n"], j)) for j in range(rng.choice([0, 0, 1, 1, 2]))] if rng.random() < p * 1.5 else []
    return sc


def g_node_script(rng, spec, p=0.3, hidden_ok=False, allow_bad=False):
    sc = {"pe": g_pe(rng, spec["p"], p)}
    cn = [x["n"] for x in (spec.get("comps") or [])]
    rmc = pick(rng, cn, p * 0.5)
    sc["rmc"] = rmc
    sc["comp"] = {}
    for k in cn:
        if k in rmc or rng.random() > p * 1.5:
            continue
        c = by_name(spec["comps"])[k]
        cs = {"pe": g_pe(rng, c["p"], 0.3)}
        if c.get("svcs") and (c["t"] == "SmartNIC" or hidden_ok) and rng.random() < 0.7:
            cs["svc"] = g_svc_script(rng, c["svcs"][0], 0.3, allow_bad)
        sc["comp"][k] = cs
    sc["addc"] = [g_comp(rng, "cn%d" % j) for j in range(rng.choice([0, 0, 1, 1, 2]))] if rng.random() < p * 1.5 else []
    sn = [x["n"] for x in (spec.get("svcs") or [])]
    rms = pick(rng, sn, p * 0.5)
    sc["rms"] = rms
    sc["svc"] = {}
    for k in sn:
        if k in rms or rng.random() > p * 1.5:
            continue
        s = by_name(spec["svcs"])[k]
        sc["svc"][k] = g_svc_script(rng, s, 0.3, allow_bad) if hidden_ok else {"pe": g_pe(rng, s["p"], 0.5)}
    sc["adds"] = [g_svc(rng, "nsn%d" % j) for j in range(rng.choice([0, 0, 1, 1, 2]))] if rng.random() < p * 1.5 else []
    return sc


def has_ud_both(sc):
    return '"ud_both"' in canon(sc or {})


def corner_cases():
    """deterministic cases, run first"""
    P0 = [None, None, None]
    leaf = lambda n, p=None: {"n": n, "t": "SubInterface", "p": p or P0}
    ded = lambda n, subs=None, p=None: {"n": n, "t": "DedicatedPort", "p": p or P0, "subs": subs}
    shp = lambda n, p=None: {"n": n, "t": "SharedPort", "p": p or P0, "subs": None}
    svc = lambda n, ifs=None, p=None: {"n": n, "t": "OVS", "p": p or P0, "ifs": ifs}
    comp = lambda n, t, svcs=None, p=None: {"n": n, "t": t, "p": p or P0, "svcs": svcs}
    node = lambda comps=None, svcs=None, p=None: {"n": "n1", "p": p or P0, "comps": comps, "svcs": svcs}
    full = node([comp("nic1", "SmartNIC", [svc("nic1-ns", [ded("p1", [leaf("p1.1", [{"vlan": "100"}, None, None])]), ded("p2")])]),
                 comp("gpu1", "GPU"), comp("nic2", "SharedNIC", [svc("nic2-ns", [shp("p1")])])],
                [svc("ns1", [shp("q1")])], [{"ipv4": "192.168.1.1"}, {"core": 2, "ram": 8}, '{"a": 1}'])
    cs = []
    for kind, tree in (("node", full), ("node", node()), ("node", node([], [])), ("svc", full["comps"][0]["svcs"][0]),
                       ("svc", svc("s0")), ("iface", full["comps"][0]["svcs"][0]["ifs"][0]), ("iface", ded("p"))):
        cs.append({"kind": kind, "tree": tree, "script": {}})
    # present-but-empty values: Labels(), Capacities(), Capacities(bw=0), UserData('{}') on an element and its identical copy
    # (no difference), set again to an equal empty value (no difference), and against an unset property (a difference)
    E1, E2 = [{}, {}, '{}'], [{}, {"bw": 0}, '{ }']
    empties = node([comp("nic1", "SmartNIC", [svc("nic1-ns", [ded("p1", [leaf("p1.1", E1)], E2)], E1)], E2), comp("gpu1", "GPU", None, E1)],
                   [svc("ns1", [shp("q1", E1)], E2)], E1)
    cs.append({"kind": "node", "tree": empties, "script": {}})
    cs.append({"kind": "node", "tree": empties, "script": {"pe": {"labels": [{}], "caps": [{"bw": 0}], "ud": ['{}']},
                                                          "comp": {"gpu1": {"pe": {"caps": [{}]}}, "nic1": {"pe": {"labels": [{}]}}},
                                                          "svc": {"ns1": {"pe": {"caps": [{}], "ud": ['{ }']}}}}})
    cs.append({"kind": "node", "tree": empties, "script": {"pe": {"labels": [None]}, "comp": {"gpu1": {"pe": {"caps": [None]}}}}})
    cs.append({"kind": "svc", "tree": empties["comps"][0]["svcs"][0], "script": {"iface": {"p1": {"pe": {"caps": [{}]}, "sub": {"p1.1": {"labels": [{}]}}}}}})
    cs.append({"kind": "iface", "tree": empties["comps"][0]["svcs"][0]["ifs"][0], "script": {"sub": {"p1.1": {"caps": [None]}}}})
    # a label / user-data value replaced by a relative of it (only the letter case, a blank, a leading zero, the order of a list
    # ... differs: NEAR_*), alone, at every level and seen through every diff method: LABELS / USER_DATA on exactly that element
    nb = lambda *fs: {f: NEAR_BASE[f] for f in fs}
    L = lambda d: [d, None, None]
    near = node([comp("nic1", "SmartNIC", [svc("nic1-ns", [ded("p1", [leaf("p1.1", L(nb("vlan", "bgp_key", "account_id", "region")))],
                                                              L(nb("mac", "local_name")))], L(nb("local_type")))], L(nb("bdf"))),
                 comp("gpu1", "GPU", None, [nb("bdf", "device_name"), None, '{"name": "Alpha"}'])],
                [svc("ns1", [shp("q1")], L(nb("vlan_range", "ipv6")))], L(nb("instance", "instance_parent")))
    nnic = near["comps"][0]["svcs"][0]
    np1 = nnic["ifs"][0]
    for lvl, old, path in (("node", near["p"][0], lambda pe: {"pe": pe}), ("comp", near["comps"][1]["p"][0], lambda pe: {"comp": {"gpu1": {"pe": pe}}}),
                           ("nic", near["comps"][0]["p"][0], lambda pe: {"comp": {"nic1": {"pe": pe}}}),
                           ("ns", near["svcs"][0]["p"][0], lambda pe: {"svc": {"ns1": {"pe": pe}}}),
                           ("nic-svc", nnic["p"][0], lambda pe: {"comp": {"nic1": {"svc": {"pe": pe}}}}),
                           ("port", np1["p"][0], lambda pe: {"comp": {"nic1": {"svc": {"iface": {"p1": {"pe": pe}}}}}}),
                           ("sub", np1["subs"][0]["p"][0], lambda pe: {"comp": {"nic1": {"svc": {"iface": {"p1": {"sub": {"p1.1": pe}}}}}}})):
        for e in label_relatives(old):
            sc = path({"labels": [e]})
            cs.append({"kind": "node", "tree": near, "script": sc})
            if lvl in ("nic-svc", "port", "sub"):
                sc = sc["comp"]["nic1"]["svc"]
                cs.append({"kind": "svc", "tree": nnic, "script": sc})
                if lvl != "nic-svc":
                    cs.append({"kind": "iface", "tree": np1, "script": sc["iface"]["p1"]})
    for ud in ('{"name": "alpha"}', '{"Name": "Alpha"}', '{"name": "Alpha "}'):
        cs.append({"kind": "node", "tree": near, "script": {"comp": {"gpu1": {"pe": {"ud": [ud]}}}}})
    # one elementary edit each, on the full tree
    one = [
        {"pe": {"labels": [{"vlan": "7"}]}}, {"pe": {"caps": [{"bw": 5}]}}, {"pe": {"ud": ['{"z": 1}']}}, {"pe": {"ud": ['{ "a":1 }']}},
        {"pe": {"ud_both": ['{"k": [1, 2]}', '{"k": [1, 2]}']}}, {"pe": {"ud_both": ['{"k": 1, "l": 2}', '{"l":2,"k":1}']}},
        {"pe": {"labels": [None]}}, {"pe": {"caps": [None]}}, {"pe": {"ud": [None]}},
        {"addc": [comp("gpu2", "GPU")]}, {"rmc": ["gpu1"]}, {"rmc": ["nic1"]}, {"adds": [svc("ns2")]}, {"rms": ["ns1"]},
        {"addc": [comp("gpu2", "GPU")], "adds": [svc("ns2")], "rmc": ["gpu1"], "rms": ["ns1"]},
        {"comp": {"gpu1": {"pe": {"labels": [{"vlan": "7"}]}}}}, {"comp": {"nic1": {"pe": {"ud": ['{"z": 1}']}}}},
        {"svc": {"ns1": {"pe": {"caps": [{"bw": 5}]}}}}, {"svc": {"ns1": {"pe": {"ud_both": ['{"k": 1}', '{"k": 1}']}}}},
        {"comp": {"nic1": {"svc": {"pe": {"labels": [{"vlan": "7"}]}}}}},
        {"comp": {"nic1": {"svc": {"add": [ded("p3")]}}}}, {"comp": {"nic1": {"svc": {"rm": ["p2"]}}}},
        {"comp": {"nic1": {"svc": {"iface": {"p1": {"pe": {"labels": [{"vlan": "7"}]}}}}}}},
        {"comp": {"nic1": {"svc": {"iface": {"p1": {"add": [leaf("p1.2")]}}}}}},
        {"comp": {"nic1": {"svc": {"iface": {"p1": {"rm": ["p1.1"]}}}}}},
        {"comp": {"nic1": {"svc": {"iface": {"p1": {"sub": {"p1.1": {"labels": [{"vlan": "200"}]}}}}}}}},
        {"comp": {"nic1": {"svc": {"iface": {"p2": {"add": [leaf("p2.1")]}}}}}},
    ]
    for lit in UD_OBJ:
        ps = ud_paths(lit)
        for x, y in ((ps[0], ps[1]), (ps[1], ps[0]), (ps[0], ps[3]), (ps[3], ps[2])):
            one.append({"pe": {"ud_both": [x, y]}, "comp": {"gpu1": {"pe": {"ud_both": [y, x]}}}, "svc": {"ns1": {"pe": {"ud_both": [x, y]}}}})
    one.append({"pe": {"ud": [{"py": UD_OBJ[0]}]}})
    for sc in one:
        cs.append({"kind": "node", "tree": full, "script": sc})
    nic = full["comps"][0]["svcs"][0]
    for sc in ({"pe": {"labels": [{"vlan": "7"}]}}, {"pe": {"ud_both": ['{"k": 1}', '{"k":1}']}}, {"add": [ded("p3")]}, {"add": [shp("p4")]},
               {"rm": ["p2"]}, {"rm": ["p1", "p2"]}, {"iface": {"p1": {"pe": {"labels": [{"vlan": "7"}]}}}},
               {"iface": {"p2": {"pe": {"caps": [{"bw": 1}]}}}}, {"iface": {"p1": {"pe": {"ud_both": ['[1]', '[1]']}}}},
               {"iface": {"p1": {"add": [leaf("p1.2")]}}}, {"iface": {"p1": {"rm": ["p1.1"]}}},
               {"iface": {"p1": {"sub": {"p1.1": {"caps": [{"bw": 1}]}}}}}, {"iface": {"p2": {"add": [leaf("p2.1")]}}},
               {"iface": {"p1": {"pe": {"labels": [{"vlan": "7"}]}, "add": [leaf("p1.2")]}}}):
        cs.append({"kind": "svc", "tree": nic, "script": sc})
    p1 = nic["ifs"][0]
    for sc in ({"pe": {"labels": [{"vlan": "7"}]}}, {"pe": {"ud_both": ['{"k": 1}', '{"k": 1}']}}, {"add": [leaf("p1.2")]}, {"rm": ["p1.1"]},
               {"sub": {"p1.1": {"labels": [{"vlan": "200"}]}}}, {"sub": {"p1.1": {"labels": [{"vlan": "100"}]}}},
               {"sub": {"p1.1": {"ud_both": ['{"k": 1}', '{"k": 1}']}}}):
        cs.append({"kind": "iface", "tree": p1, "script": sc})
    return cs


# cases of effective edits NodeSliver.diff has no slot for (kept apart: known findings)
def hidden_cases():
    P0 = [None, None, None]
    shp = lambda n: {"n": n, "t": "SharedPort", "p": P0, "subs": None}
    svc = lambda n, ifs=None: {"n": n, "t": "OVS", "p": P0, "ifs": ifs}
    t1 = {"n": "n1", "p": P0, "comps": None, "svcs": [svc("ns1", [shp("q1")])]}
    t2 = {"n": "n1", "p": P0, "comps": [{"n": "nic2", "t": "SharedNIC", "p": P0, "svcs": [svc("nic2-ns", [shp("p1")])]}], "svcs": None}
    return [
        {"kind": "node", "tree": t1, "script": {"svc": {"ns1": {"add": [shp("q2")]}}}},
        {"kind": "node", "tree": t1, "script": {"svc": {"ns1": {"iface": {"q1": {"pe": {"labels": [{"vlan": "7"}]}}}}}}},
        {"kind": "node", "tree": t2, "script": {"comp": {"nic2": {"svc": {"iface": {"p1": {"pe": {"labels": [{"vlan": "7"}]}}}}}}}},
    ]


def gen_cases(rng, n, hidden_ok=False):
    out = []
    for i in range(n):
        r = rng.random()
        if r < 0.5:
            t = g_node(rng)
            c = {"kind": "node", "tree": t, "script": g_node_script(rng, t, rng.choice([0.1, 0.3, 0.5]), hidden_ok)}
        elif r < 0.8:
            t = g_svc(rng, "s%d" % rng.randrange(3), dedicated_bias=True)
            c = {"kind": "svc", "tree": t, "script": g_svc_script(rng, t, rng.choice([0.15, 0.35, 0.6]))}
        else:
            t = g_iface(rng, "i%d" % rng.randrange(3), "DedicatedPort")
            c = {"kind": "iface", "tree": t, "script": g_iface_script(rng, t, rng.choice([0.2, 0.4, 0.7]))}
        if rng.random() < 0.08:
            c["script"] = {}
        if rng.random() < 0.5:
            assign_ids(c["tree"], lambda p: "id:" + p)
        out.append(c)
    return out


def assign_ids(t, f, path=""):
    """give every sliver of a spec tree the node_id f(path of names)"""
    if isinstance(t, list):
        for x in t:
            assign_ids(x, f, path)
    elif isinstance(t, dict) and "n" in t:
        here = path + "/" + t["n"]
        t["id"] = f(here)
        for k in ("comps", "svcs", "ifs", "subs"):
            if t.get(k):
                assign_ids(t[k], f, here)
    return t


def id_pair(rng, a, b):
    """node_ids of the two sides of a pair: none at all / every sliver its own on either side (two independently created
    slivers: what remove + add under the old name gives) / the same id under the same path with some children of the new side
    re-created (fresh id)"""
    mode = rng.choice(["none", "independent", "independent", "path", "recreated", "recreated"])
    if mode == "none":
        return mode
    if mode == "independent":
        assign_ids(a, lambda p: "A:" + p)
        assign_ids(b, lambda p: "B:" + p)
    else:
        assign_ids(a, lambda p: "id:" + p)
        assign_ids(b, (lambda p: "id:" + p) if mode == "path" else (lambda p: ("new:" if rng.random() < 0.4 else "id:") + p))
    return mode


def gen_pairs(rng, n):
    """two independently generated slivers over the same small name pools: same name with another type / other children /
    missing vs empty *Info on either side - everything an edit script on a copy cannot produce"""
    out = []
    for i in range(n):
        r = rng.random()
        if r < 0.5:
            a, b = g_node(rng), g_node(rng)
            b["n"] = a["n"] if rng.random() < 0.8 else b["n"]
            if rng.random() < 0.5 and a["comps"]:
                # make the overlap likely: copy some children and perturb them
                b["comps"] = [perturb_comp(rng, c) for c in a["comps"] if rng.random() < 0.8] + \
                             [c for c in (b["comps"] or []) if c["n"] not in {x["n"] for x in a["comps"]}]
            id_pair(rng, a, b)
            out.append({"kind": "node", "pair": [a, b]})
        elif r < 0.8:
            nm = "s%d" % rng.randrange(2)
            a, b = g_svc(rng, nm, dedicated_bias=True), g_svc(rng, nm, dedicated_bias=True)
            if rng.random() < 0.5 and a["ifs"]:
                b["ifs"] = [perturb_iface(rng, x) for x in a["ifs"] if rng.random() < 0.8]
            id_pair(rng, a, b)
            out.append({"kind": "svc", "pair": [a, b]})
        else:
            nm = "i%d" % rng.randrange(2)
            a, b = g_iface(rng, nm, "DedicatedPort"), g_iface(rng, nm, "DedicatedPort")
            id_pair(rng, a, b)
            out.append({"kind": "iface", "pair": [a, b]})
    return out


def near_props(rng, p):
    """the properties with the labels replaced by a relative of theirs (a family member when there are no labels to start from)"""
    rel = label_relatives(p[0])
    return [rng.choice(rel) if rel else rng.choice(near_label_pool()), p[1], p[2]]


def perturb_iface(rng, x):
    y = copy.deepcopy(x)
    r = rng.random()
    if r < 0.25:
        y["t"] = rng.choice(type_names("InterfaceType"))          # same name, another kind
        if y["t"] != "DedicatedPort":
            y["subs"] = None
    elif r < 0.5 and y["t"] == "DedicatedPort":
        y["subs"] = rng.choice([None, [], [g_leaf(rng, "%s.%d" % (y["n"], j)) for j in range(rng.randrange(1, 3))]])
    elif r < 0.7:
        y["p"] = g_props(rng)
    elif r < 0.8:
        y["p"] = near_props(rng, y["p"])
    return y


def perturb_comp(rng, c):
    y = copy.deepcopy(c)
    r = rng.random()
    if r < 0.25:
        t = rng.choice(type_names("ComponentType"))                # same name, another kind
        y["t"] = t
        if t == "SmartNIC" and not y["svcs"]:
            y["svcs"] = [g_svc(rng, y["n"] + "-ns", dedicated_bias=True)]
    elif r < 0.6 and y["svcs"]:
        s0 = y["svcs"][0]
        if s0["ifs"]:
            s0["ifs"] = [perturb_iface(rng, x) for x in s0["ifs"] if rng.random() < 0.85]
        if rng.random() < 0.2:
            s0["n"] = s0["n"] + "x"                                # the first service under another name
    elif r < 0.8:
        y["p"] = g_props(rng)
    elif r < 0.9:
        y["p"] = near_props(rng, y["p"])
    return y


def corner_pairs():
    """deterministic pairs (run first)"""
    P0 = [None, None, None]
    leaf = lambda n, p=None: {"n": n, "t": "SubInterface", "p": p or P0}
    ifc = lambda n, t, subs=None, p=None: {"n": n, "t": t, "p": p or P0, "subs": subs}
    svc = lambda n, ifs=None, p=None: {"n": n, "t": "OVS", "p": p or P0, "ifs": ifs}
    comp = lambda n, t, svcs=None, p=None: {"n": n, "t": t, "p": p or P0, "svcs": svcs}
    node = lambda comps=None, svcs=None, p=None: {"n": "n1", "p": p or P0, "comps": comps, "svcs": svcs}
    L = [{"vlan": "100"}, None, None]
    out = []
    # None vs present-but-empty vs filled, at every level, both orders come from the reverse run
    for x, y in itertools.product([None, [], [leaf("pp.1")]], repeat=2):
        out.append({"kind": "iface", "pair": [ifc("pp", "DedicatedPort", x), ifc("pp", "DedicatedPort", y)]})
    for x, y in itertools.product([None, [], [ifc("qq", "SharedPort")]], repeat=2):
        out.append({"kind": "svc", "pair": [svc("ss", x), svc("ss", y)]})
    for x, y in itertools.product([None, [], [comp("gg", "GPU")]], repeat=2):
        out.append({"kind": "node", "pair": [node(x, None), node(y, None)]})
        out.append({"kind": "node", "pair": [node(None, x and [svc("ns")]), node(None, y and [svc("ns")])]})
    # same name, other kind: a port that is dedicated on one side only, with sub-interfaces appearing / differing
    for ta, tb in (("DedicatedPort", "SharedPort"), ("SharedPort", "DedicatedPort"), ("DedicatedPort", "DedicatedPort")):
        out.append({"kind": "svc", "pair": [svc("ss", [ifc("pp", ta, [leaf("pp.1")] if ta == "DedicatedPort" else None)]),
                                            svc("ss", [ifc("pp", tb, [leaf("pp.1", L)] if tb == "DedicatedPort" else None)])]})
    nic = lambda t, ifs: comp("cc", t, [svc("cc-ns", ifs)])
    for ta, tb in (("SmartNIC", "SharedNIC"), ("SharedNIC", "SmartNIC"), ("SmartNIC", "SmartNIC"), ("FPGA", "FPGA")):
        out.append({"kind": "node", "pair": [node([nic(ta, [ifc("pp", "DedicatedPort")])]), node([nic(tb, [ifc("pp", "DedicatedPort", None, L)])])]})
    # every kind of component / interface against itself with a change below it
    for t in type_names("ComponentType"):
        out.append({"kind": "node", "pair": [node([nic(t, [ifc("pp", "SharedPort")])]), node([nic(t, [ifc("pp", "SharedPort", None, L)])])]})
    for t in type_names("InterfaceType"):
        out.append({"kind": "svc", "pair": [svc("ss", [ifc("pp", t, [leaf("pp.1")])]), svc("ss", [ifc("pp", t, [leaf("pp.1", L)])])]})
    # renamed (same children under new names) vs replaced
    out.append({"kind": "node", "pair": [node([comp("g1", "GPU", None, L)]), node([comp("g2", "GPU", None, L)])]})
    out.append({"kind": "svc", "pair": [svc("ss", [ifc("p1", "DedicatedPort", [leaf("xx")])]), svc("ss", [ifc("p2", "DedicatedPort", [leaf("xx")])])]})
    out.append({"kind": "node", "pair": [node(None, None, L), dict(node(None, None, L), n="n2")]})
    # a child removed and created again under its old name (fresh node_id), with and without changed properties / children, at every
    # level: component, node-level service, interface of a service, sub-interface of a port (C17-r4-1) - it is present in both
    C1, C2 = [None, {"unit": 1}, None], [None, {"unit": 2}, None]
    L2 = [{"vlan": "101"}, None, None]
    wid = lambda t, i: dict(t, id=i)
    for pa, pb in ((C1, C2), (C1, C1)):
        out.append({"kind": "node", "pair": [dict(node([wid(comp("gpu1", "GPU", None, pa), "c-1")], [wid(svc("svc1", [], pa), "s-1")]), id="N1"),
                                             dict(node([wid(comp("gpu1", "GPU", None, pb), "c-2")], [wid(svc("svc1", [], pb), "s-2")]), id="N1")]})
    for pa, pb in ((L, L2), (L, L)):
        out.append({"kind": "svc", "pair": [wid(svc("svc1", [wid(ifc("p1", "SharedPort", None, pa), "i-1")]), "s-1"),
                                            wid(svc("svc1", [wid(ifc("p1", "SharedPort", None, pb), "i-2")]), "s-1")]})
        out.append({"kind": "iface", "pair": [wid(ifc("p1", "DedicatedPort", [wid(leaf("p1.1", pa), "ch-1")]), "i-1"),
                                              wid(ifc("p1", "DedicatedPort", [wid(leaf("p1.1", pb), "ch-2")]), "i-1")]})
        out.append({"kind": "svc", "pair": [wid(svc("svc1", [wid(ifc("p1", "DedicatedPort", [wid(leaf("p1.1", pa), "ch-1")]), "i-1")]), "s-1"),
                                            wid(svc("svc1", [wid(ifc("p1", "DedicatedPort", [wid(leaf("p1.1", pb), "ch-2")]), "i-1")]), "s-1")]})
        out.append({"kind": "node", "pair": [
            dict(node([wid(comp("nic1", "SmartNIC", [wid(svc("nic1-ns", [wid(ifc("p1", "DedicatedPort", [wid(leaf("p1.1", pa), "ch-1")]), "i-1")]), "s-1")]), "c-1")]), id="N1"),
            dict(node([wid(comp("nic1", "SmartNIC", [wid(svc("nic1-ns", [wid(ifc("p1", "DedicatedPort", [wid(leaf("p1.1", pb), "ch-2")]), "i-2")]), "s-2")]), "c-2")]), id="N1")]})
    # names RELATED by a normalisation (letter case, dash / underscore, a leading zero) are different children at every level: one renamed into
    # the other is a removal + an addition, both on one side against one on the other is one common child + one removed / added
    for n1, n2 in (("gpu1", "GPU1"), ("Gpu1", "gPU1"), ("gpu-1", "gpu_1"), ("gpu1", "gpu01")):
        for level in ("comp", "ns", "if", "sub"):
            kid = {"comp": lambda n, p: comp(n, "GPU", None, p), "ns": lambda n, p: svc(n, None, p),
                   "if": lambda n, p: ifc(n, "SharedPort", None, p), "sub": lambda n, p: leaf(n, p)}[level]
            wrap = {"comp": lambda ks: ("node", node(ks, None)), "ns": lambda ks: ("node", node(None, ks)),
                    "if": lambda ks: ("svc", svc("ss", ks)), "sub": lambda ks: ("iface", ifc("pp", "DedicatedPort", ks))}[level]
            for xa, xb in (([kid(n1, L)], [kid(n2, L)]), ([kid(n1, L)], [kid(n2, L2)]), ([kid(n1, L), kid(n2, L)], [kid(n1, L2)]),
                           ([kid(n2, L)], [kid(n1, L), kid(n2, L2)])):
                (k, ta), (_, tb) = wrap(xa), wrap(xb)
                out.append({"kind": k, "pair": [ta, tb]})
                if level == "sub":
                    out.append({"kind": "svc", "pair": [svc("ss", [ta]), svc("ss", [tb])]})
                    out.append({"kind": "node", "pair": [node([comp("nic1", "SmartNIC", [svc("nic1-ns", [ta])])]),
                                                         node([comp("nic1", "SmartNIC", [svc("nic1-ns", [tb])])])]})
    return out


# ---------------------------------------------------------------------------------------------
# slivers produced by the library itself: an ExperimentTopology is built and edited through the user API and the node's deep
# sliver (graph_model.build_deep_node_sliver) is taken before and after the edits.  case = {"kind": "topo", "init": [ops], "ops": [ops]}
#   ["add_comp", name, model] ["rm_comp", name] ["node_props", pe] ["comp_props", name, pe] ["port_props", comp, idx, pe]
#   ["add_sub", comp, idx, subname, vlan] ["rm_sub", comp, idx, subname] ["sub_props", comp, idx, subname, pe]
#   ["add_ns", name] ["rm_ns", name] ["ns_props", name, pe]

TOPO_MODELS = ["SmartNIC_ConnectX_6", "SmartNIC_ConnectX_5", "SmartNIC_BlueField_2_ConnectX_6", "SharedNIC_ConnectX_6", "GPU_RTX6000",
               "GPU_Tesla_T4", "NVME_P4510", "FPGA_Xilinx_U280"]
TOPO_LABELS = [{"ipv4": "192.168.1.1"}, {"ipv4": "192.168.1.2"}, {"bdf": "0000:41:00.0"}, {"mac": "00:11:22:33:44:55"},
               # pairs that differ in letter case only (fields every element type of the user API accepts)
               {"bdf": "0000:AF:00.0"}, {"bdf": "0000:af:00.0"}, {"mac": "AA:bb:CC:dd:EE:0f"}, {"mac": "aa:bb:cc:dd:ee:0f"},
               {"local_name": "HundredGigE0/0/0/5"}, {"local_name": "hundredgige0/0/0/5"}]
TOPO_CAPS = [{"core": 2, "ram": 8}, {"core": 4, "ram": 8, "disk": 10}, {"unit": 1}, {"bw": 10}]


def topo_pe(target, pe):
    r = R.load()
    kw = {}
    if "labels" in pe:
        kw["labels"] = r.Labels(**pe["labels"][0])
    if "caps" in pe:
        kw["capacities"] = r.Capacities(**pe["caps"][0])
    if "ud" in pe:
        kw["user_data"] = mk_ud(pe["ud"][0])
    if kw:
        target.set_properties(**kw)


def topo_apply(t, n, op):
    from fim.user.component import ComponentModelType
    from fim.slivers.network_service import ServiceType
    r = R.load()
    k = op[0]
    if k == "add_comp":
        n.add_component(name=op[1], model_type=ComponentModelType[op[2]])
    elif k == "rm_comp":
        n.remove_component(op[1])
    elif k == "node_props":
        topo_pe(n, op[1])
    elif k == "comp_props":
        topo_pe(n.components[op[1]], op[2])
    elif k == "add_ns":
        n.add_network_service(name=op[1], nstype=ServiceType.OVS)
    elif k == "rm_ns":
        n.remove_network_service(op[1])
    elif k == "ns_props":
        topo_pe(n.network_services[op[1]], op[2])
    elif k == "br_new":
        # a topology-level L2Bridge; its first port goes to a second node so that the ports of n1 can come and go
        n2 = t.add_node(name="n2", site="RENC")
        peer = n2.add_component(name="peer", model_type=ComponentModelType.SharedNIC_ConnectX_6)
        t.add_network_service(name=op[1], nstype=ServiceType.L2Bridge, interfaces=[peer.interface_list[0]])
    elif k == "br_con":
        t.network_services[op[1]].connect_interface(n.components[op[2]].interface_list[op[3]])
    elif k == "br_dis":
        t.network_services[op[1]].disconnect_interface(n.components[op[2]].interface_list[op[3]])
    elif k == "br_props":
        topo_pe(t.network_services[op[1]], op[2])
    elif k == "br_port_props":
        want = "%s-%s" % (n.name, n.components[op[2]].interface_list[op[3]].name)
        topo_pe([i for i in t.network_services[op[1]].interface_list if i.name == want][0], op[4])
    else:
        port = n.components[op[1]].interface_list[op[2]]
        if k == "port_props":
            topo_pe(port, op[3])
        elif k == "add_sub":
            port.add_child_interface(name=op[3], labels=r.Labels(vlan=op[4]))
        elif k == "rm_sub":
            port.remove_child_interface(name=op[3])
        elif k == "sub_props":
            sub = [i for i in port.interface_list if i.name == op[3]][0]
            topo_pe(sub, op[4])
        else:
            raise ValueError("unknown topology op %r" % (op,))


def topo_view(t, n, view):
    """the library-built deep sliver a topology case compares: the node (default), the network service of one of its components
    (NetworkServiceSliver.diff), one of a component's ports (InterfaceSliver.diff), a topology-level bridge"""
    gm = t.graph_model
    if not view or view[0] == "node":
        return gm.build_deep_node_sliver(node_id=n.node_id)
    if view[0] == "comp_svc":
        return first_svc(gm.build_deep_component_sliver(node_id=n.components[view[1]].node_id))
    if view[0] == "port":
        return gm.build_deep_interface_sliver(node_id=n.components[view[1]].interface_list[view[2]].node_id)
    if view[0] == "bridge":
        return gm.build_deep_ns_sliver(node_id=t.network_services[view[1]].node_id)
    raise ValueError("unknown view %r" % (view,))


def eff_kind(case):
    """which of the three diff methods a case exercises"""
    if case["kind"] != "topo":
        return case["kind"]
    v = (case.get("view") or ["node"])[0]
    return {"node": "node", "comp_svc": "svc", "bridge": "svc", "port": "iface"}[v]


def topo_readds(case):
    """levels at which the edits after the first snapshot remove an element and add it again under its old name"""
    out, gone = set(), set()
    for op in case["ops"]:
        if op[0] in ("rm_comp", "rm_ns"):
            gone.add((op[0][3:], op[1]))
        elif op[0] == "rm_sub":
            gone.add(("sub", op[1], op[2], op[3]))
        elif op[0] == "br_dis":
            gone.add(("port", op[1], op[2], op[3]))
        elif op[0] in ("add_comp", "add_ns") and (op[0][4:], op[1]) in gone:
            out.add(op[0][4:])
        elif op[0] == "add_sub" and ("sub", op[1], op[2], op[3]) in gone:
            out.add("sub")
        elif op[0] == "br_con" and ("port", op[1], op[2], op[3]) in gone:
            out.add("port")
    return sorted(out)


def topo_build(case):
    from fim.user.topology import ExperimentTopology
    t = ExperimentTopology()
    try:
        n = t.add_node(name="n1", site="RENC")
        for op in case["init"]:
            topo_apply(t, n, op)
        a = topo_view(t, n, case.get("view"))
        for op in case["ops"]:
            topo_apply(t, n, op)
        b = topo_view(t, n, case.get("view"))
        return a, b
    finally:
        try:
            t.graph_model.delete_graph()
        except Exception:
            pass


def g_topo_ops(rng, state, k, vl):
    """k valid operations on the tracked state {comps: {name: {model, subs: {idx: set(names)}}}, ns: set()}"""
    ops = []
    for _ in range(k):
        smart = [c for c, v in state["comps"].items() if v["model"].startswith("SmartNIC")]
        nics = [c for c, v in state["comps"].items() if "NIC" in v["model"] or v["model"].startswith("FPGA")]
        choices = ["add_comp", "node_props"]
        if state["comps"]:
            choices += ["rm_comp", "comp_props"]
        if nics:
            choices += ["port_props"]
        if smart:
            choices += ["add_sub", "add_sub", "add_sub"]
            if any(s for c in smart for s in state["comps"][c]["subs"].values()):
                choices += ["rm_sub", "sub_props", "sub_props", "readd_sub", "readd_sub"]
        choices += ["add_ns"] if len(state["ns"]) < 2 else []
        if state["ns"]:
            choices += ["rm_ns", "ns_props", "readd_ns"]
        if state["comps"]:
            choices += ["readd_comp", "readd_comp"]
        k = rng.choice(choices)
        pe = {}
        while not pe:
            if rng.random() < 0.4:
                pe["labels"] = [rng.choice(TOPO_LABELS)]
            if rng.random() < 0.4:
                pe["caps"] = [rng.choice(TOPO_CAPS)]
            if rng.random() < 0.4:
                pe["ud"] = [rng.choice(UD_SLIVER_POOL[1:] if rng.random() < 0.4 else UD_POOL[1:])]
        if k == "add_comp":
            name = "c%d" % state["n"]
            state["n"] += 1
            if state["gone"] and rng.random() < 0.3:
                name = state["gone"].pop()           # a removed name comes back, perhaps as another kind
            model = rng.choice(TOPO_MODELS)
            state["comps"][name] = {"model": model, "subs": {0: {}, 1: {}}}
            ops.append(["add_comp", name, model])
        elif k == "readd_comp":
            # remove a component and add it again under its old name: the same model or another model of the same type, with or
            # without new properties - a new element (fresh node_id, fresh service and ports) under an old key
            name = rng.choice(sorted(state["comps"]))
            old = state["comps"][name]["model"]
            same_type = [m for m in TOPO_MODELS if m.split("_")[0] == old.split("_")[0]]
            model = old if rng.random() < 0.5 else rng.choice(same_type)
            state["comps"][name] = {"model": model, "subs": {0: {}, 1: {}}}
            ops += [["rm_comp", name], ["add_comp", name, model]]
            if rng.random() < 0.6:
                ops.append(["comp_props", name, pe])
        elif k == "readd_ns":
            name = rng.choice(sorted(state["ns"]))
            ops += [["rm_ns", name], ["add_ns", name]]
            if rng.random() < 0.6:
                ops.append(["ns_props", name, pe])
        elif k == "readd_sub":
            cands = [(c, i, s) for c in smart for i, ss in state["comps"][c]["subs"].items() for s in sorted(ss)]
            c, i, s = rng.choice(cands)
            vlan = state["comps"][c]["subs"][i][s]
            if rng.random() < 0.6:
                vl[0] += 1
                vlan = str(vl[0])
            state["comps"][c]["subs"][i][s] = vlan
            ops += [["rm_sub", c, i, s], ["add_sub", c, i, s, vlan]]
            pe.pop("labels", None)
            if pe and rng.random() < 0.4:
                ops.append(["sub_props", c, i, s, pe])
        elif k == "rm_comp":
            name = rng.choice(sorted(state["comps"]))
            del state["comps"][name]
            state["gone"].append(name)
            ops.append(["rm_comp", name])
        elif k == "node_props":
            ops.append(["node_props", pe])
        elif k == "comp_props":
            ops.append(["comp_props", rng.choice(sorted(state["comps"])), pe])
        elif k == "port_props":
            pe.pop("labels", None)                   # the port's labels carry the local name sub-interfaces inherit
            if pe:
                ops.append(["port_props", rng.choice(sorted(nics)), 0, pe])
        elif k == "add_sub":
            c = rng.choice(sorted(smart))
            idx = rng.choice([0, 1])
            name = "sub%d" % state["n"]
            state["n"] += 1
            vl[0] += 1
            state["comps"][c]["subs"][idx][name] = str(vl[0])
            ops.append(["add_sub", c, idx, name, str(vl[0])])
        elif k in ("rm_sub", "sub_props"):
            cands = [(c, i, s) for c in smart for i, ss in state["comps"][c]["subs"].items() for s in sorted(ss)]
            c, i, s = rng.choice(cands)
            if k == "rm_sub":
                state["comps"][c]["subs"][i].pop(s, None)
                ops.append(["rm_sub", c, i, s])
            else:
                pe.pop("labels", None)               # vlan + local name stay
                if pe:
                    ops.append(["sub_props", c, i, s, pe])
        elif k == "add_ns":
            name = "ns%d" % state["n"]
            state["n"] += 1
            state["ns"].add(name)
            ops.append(["add_ns", name])
        elif k == "rm_ns":
            name = rng.choice(sorted(state["ns"]))
            state["ns"].discard(name)
            ops.append(["rm_ns", name])
        elif k == "ns_props":
            ops.append(["ns_props", rng.choice(sorted(state["ns"])), pe])
    return ops


def gen_topo(rng, n):
    out = []
    for _ in range(n):
        state = {"comps": {}, "ns": set(), "n": 0, "gone": []}
        vl = [100]
        if rng.random() < 0.15:
            out.append(g_topo_bridge(rng))
            continue
        init = g_topo_ops(rng, state, rng.choice([1, 2, 3, 4, 6]), vl)
        smart0 = {c for c, v in state["comps"].items() if v["model"].startswith("SmartNIC")}
        ops = g_topo_ops(rng, state, rng.choice([0, 1, 1, 2, 3, 5]), vl)
        case = {"kind": "topo", "init": init, "ops": ops}
        # sometimes look at the service / a port of a SmartNIC that exists (under that name) at both snapshots
        both = sorted(smart0 & {c for c, v in state["comps"].items() if v["model"].startswith("SmartNIC")})
        if both and rng.random() < 0.35:
            c = rng.choice(both)
            case["view"] = ["comp_svc", c] if rng.random() < 0.5 else ["port", c, rng.choice([0, 1])]
        out.append(case)
    return out


def g_topo_bridge(rng):
    """a topology-level L2Bridge whose ports on n1 are connected, disconnected and connected again (a new service port under the
    old name), with property changes on the service and on its ports; the bridge's deep sliver before / after"""
    nics = {"nicA": rng.choice(TOPO_MODELS[:4]), "nicB": rng.choice(TOPO_MODELS[:4])}
    init = [["add_comp", k, m] for k, m in nics.items()] + [["br_new", "br1"]]
    con = set()

    def pe():
        out = {}
        while not out:
            if rng.random() < 0.5:
                out["caps"] = [rng.choice(TOPO_CAPS)]
            if rng.random() < 0.3:
                out["labels"] = [rng.choice([{"vlan": "100"}, {"vlan": "101"}])]
            if rng.random() < 0.3:
                out["ud"] = [rng.choice(UD_SLIVER_POOL[1:])]
        return out

    def some(k):
        ops = []
        for _ in range(k):
            free = sorted({(c, i) for c in nics for i in (0, 1) if not (nics[c].startswith("SharedNIC") and i == 1)} - con)
            ch = ["br_props"] + (["br_con"] * 2 if free else []) + (["br_dis", "readd", "readd", "br_port_props"] if con else [])
            x = rng.choice(ch)
            if x == "br_props":
                ops.append(["br_props", "br1", pe()])
            elif x == "br_con":
                c, i = rng.choice(free)
                con.add((c, i))
                ops.append(["br_con", "br1", c, i])
            else:
                c, i = rng.choice(sorted(con))
                if x == "br_dis":
                    con.discard((c, i))
                    ops.append(["br_dis", "br1", c, i])
                elif x == "readd":
                    ops += [["br_dis", "br1", c, i], ["br_con", "br1", c, i]]
                    if rng.random() < 0.6:
                        ops.append(["br_port_props", "br1", c, i, pe()])
                else:
                    ops.append(["br_port_props", "br1", c, i, pe()])
        return ops
    init += some(rng.choice([1, 2, 3]))
    return {"kind": "topo", "init": init, "ops": some(rng.choice([1, 1, 2, 3])), "view": ["bridge", "br1"]}


def corner_topo():
    return [
        # the first sub-interface on a port that had none (C17-r3-2), a second one, the last one removed
        {"kind": "topo", "init": [["add_comp", "nic1", "SmartNIC_ConnectX_6"]], "ops": [["add_sub", "nic1", 0, "sub1", "101"]]},
        {"kind": "topo", "init": [["add_comp", "nic1", "SmartNIC_ConnectX_6"], ["add_sub", "nic1", 0, "sub1", "101"]],
         "ops": [["add_sub", "nic1", 0, "sub2", "102"]]},
        {"kind": "topo", "init": [["add_comp", "nic1", "SmartNIC_ConnectX_6"], ["add_sub", "nic1", 0, "sub1", "101"]],
         "ops": [["rm_sub", "nic1", 0, "sub1"]]},
        {"kind": "topo", "init": [["add_comp", "nic1", "SmartNIC_ConnectX_6"], ["add_sub", "nic1", 1, "sub1", "101"]],
         "ops": [["sub_props", "nic1", 1, "sub1", {"caps": [{"bw": 10}]}]]},
        {"kind": "topo", "init": [["add_comp", "nic1", "SmartNIC_ConnectX_6"], ["add_comp", "gpu1", "GPU_RTX6000"]], "ops": []},
        {"kind": "topo", "init": [["add_comp", "gpu1", "GPU_RTX6000"]], "ops": [["add_comp", "nic1", "SmartNIC_ConnectX_5"], ["rm_comp", "gpu1"]]},
        {"kind": "topo", "init": [], "ops": [["add_ns", "ns1"]]},
        {"kind": "topo", "init": [["add_ns", "ns1"]], "ops": [["rm_ns", "ns1"], ["node_props", {"caps": [{"core": 2, "ram": 8}]}]]},
        {"kind": "topo", "init": [["add_comp", "nic1", "SharedNIC_ConnectX_6"]], "ops": [["comp_props", "nic1", {"ud": ['{"a": 1}']}]]},
    ] + corner_topo_readd() + corner_topo_near()


def corner_topo_near():
    """a label of a library-built element replaced by a relative of it (letter case, blank, leading zero ...) through
    set_properties, at every level of the user API and seen through every view (C17-r6-1)"""
    T = lambda init, ops, view=None: dict({"kind": "topo", "init": init, "ops": ops}, **({"view": view} if view else {}))
    nic = ["add_comp", "nic1", "SmartNIC_ConnectX_6"]
    gpu = ["add_comp", "gpu1", "GPU_RTX6000"]
    sub = ["add_sub", "nic1", 0, "sub1", "101"]
    nb = lambda *fs: {f: NEAR_BASE[f] for f in fs}
    scalar = lambda d: all(isinstance(v, str) for v in d.values())      # the user API's property layer: plain strings only here
    out = []
    for base, mk, init, views in (
            (nb("instance", "instance_parent"), lambda d: ["node_props", {"labels": [d]}], [nic], (None,)),
            (nb("bdf", "device_name"), lambda d: ["comp_props", "gpu1", {"labels": [d]}], [nic, gpu], (None,)),
            (nb("local_name", "mac"), lambda d: ["port_props", "nic1", 0, {"labels": [d]}], [nic, sub],
             (None, ["comp_svc", "nic1"], ["port", "nic1", 0])),
            (nb("vlan", "bgp_key", "account_id", "region"), lambda d: ["sub_props", "nic1", 0, "sub1", {"labels": [d]}], [nic, sub],
             (None, ["comp_svc", "nic1"], ["port", "nic1", 0])),
            (nb("vlan", "local_name"), lambda d: ["ns_props", "ns1", {"labels": [d]}], [["add_ns", "ns1"]], (None,))):
        rel = [e for e in label_relatives(base) if scalar(e)]
        for e in rel[::3] + [x for x in rel if any(isinstance(v, str) and v != base[k] and v.lower() == base[k].lower() for k, v in x.items())][:2]:
            for view in views:
                out.append(T(init + [mk(base)], [mk(e)], view))
    return out


def corner_topo_readd():
    """remove + add again under the old name through the user API (fresh node_id), with and without changed properties, at every
    level and seen through every diff method (C17-r4-1)"""
    T = lambda init, ops, view=None: dict({"kind": "topo", "init": init, "ops": ops}, **({"view": view} if view else {}))
    nic = ["add_comp", "nic1", "SmartNIC_ConnectX_6"]
    gpu = ["add_comp", "gpu1", "GPU_RTX6000"]
    sub = ["add_sub", "nic1", 0, "sub1", "101"]
    CP = {"caps": [{"unit": 1}], "labels": [{"bdf": "0000:41:00.0"}]}
    out = []
    for extra in ([], [["comp_props", "gpu1", CP]]):
        out.append(T([nic, gpu], [["rm_comp", "gpu1"], ["add_comp", "gpu1", "GPU_Tesla_T4"]] + extra))
        out.append(T([nic, gpu], [["rm_comp", "gpu1"], gpu] + extra))
    for extra in ([], [["ns_props", "ns1", {"labels": [{"ipv4": "192.168.1.1"}]}]]):
        out.append(T([["add_ns", "ns1"]], [["rm_ns", "ns1"], ["add_ns", "ns1"]] + extra))
    for vlan in ("101", "102"):
        for view in (None, ["comp_svc", "nic1"], ["port", "nic1", 0]):
            out.append(T([nic, sub], [["rm_sub", "nic1", 0, "sub1"], ["add_sub", "nic1", 0, "sub1", vlan]], view))
    # the SmartNIC itself re-created: its service and its ports are new elements under the old names
    for extra in ([], [["port_props", "nic1", 0, {"caps": [{"bw": 10}]}]], [["add_sub", "nic1", 1, "sub9", "109"]]):
        for view in (None, ["comp_svc", "nic1"], ["port", "nic1", 0], ["port", "nic1", 1]):
            out.append(T([nic, sub], [["rm_comp", "nic1"], nic] + extra, view))
    br = [nic, ["add_comp", "nic2", "SharedNIC_ConnectX_6"], ["br_new", "br1"], ["br_con", "br1", "nic1", 0], ["br_con", "br1", "nic2", 0]]
    for extra in ([], [["br_port_props", "br1", "nic1", 0, {"caps": [{"bw": 10}]}]]):
        out.append(T(br, [["br_dis", "br1", "nic1", 0], ["br_con", "br1", "nic1", 0]] + extra, ["bridge", "br1"]))
    out.append(T(br, [["br_dis", "br1", "nic2", 0], ["br_props", "br1", {"labels": [{"vlan": "100"}]}]], ["bridge", "br1"]))
    return out


# ---------------------------------------------------------------------------------------------
# the value classes' own equality against `Model/DiffVal.lean` (and against the canonical strings this harness uses)

UD_EXTRA = ['{"autostart": true}', '{"autostart": 1}', '{"autostart": 1.0}', '{"autostart": false}', '{"autostart": 0}', 'true', '1', '1.0',
            'null', '0', '-0', '0.0', '-0.0', '[true]', '[1]', '[1.0]', '{"k": 1e2}', '{"k": 100.0}', '{"k": 100}',
            '{"a": {"b": {"c": [1, {"e": 2, "d": 3}]}}}', '{"a": {"b": {"c": [1, {"d": 3, "e": 2}]}}}', '{"a": {"b": {"c": [{"d": 3, "e": 2}, 1]}}}',
            '{"\u00e9": 1, "z": 2, "A": 3, "a": 4}', '{"a": 4, "A": 3, "z": 2, "\u00e9": 1}', '{"a":1,"a":2}', '{"a": 2}',
            '{"n": 12345678901234567890123}', '{"n": 1.5e300}', '""', '"1"', '{"": 0}', '[]', '[[]]', '[{}]', '{"a": []}', '{"a": {}}']


def fv_wire(v):
    if v is None or isinstance(v, str):
        return v
    if isinstance(v, bool):
        raise ValueError("bool in a field")
    if isinstance(v, int):
        return v
    if isinstance(v, list) and all(isinstance(x, str) for x in v):
        return list(v)
    raise ValueError("field value %r" % (v,))


def fields_wire(o):
    return None if o is None else [[k, fv_wire(v)] for k, v in o.__dict__.items()]


def j_wire(x):
    if x is None or isinstance(x, bool):
        return x
    if isinstance(x, (int, float)):
        return ["n", json.dumps(x)]
    if isinstance(x, str):
        return ["s", x]
    if isinstance(x, list):
        return ["a", [j_wire(y) for y in x]]
    if isinstance(x, dict):
        return ["o", [[k, j_wire(v)] for k, v in x.items()]]
    raise ValueError("json value %r" % (x,))


def py_eq(a, b):
    try:
        return ["ok", [bool(a == b), bool(a != b)]]
    except Exception as e:
        return ["err", err_kind(e)]


def gen_values(rng, n):
    """(class tag, object a, object b, normal): pairs of None / Labels / Capacities / UserData built from the pools; `normal` =
    both sides have every field of the class (what the canonical strings of this harness are meant for)"""
    r = R.load()
    from fim.slivers.json_data import MeasurementData
    out = []

    def lab(d, drop=None):
        if d is None:
            return None
        o = r.Labels(**d)
        if drop:
            o.__dict__.pop(drop, None)           # an instance pickled by a version that did not have the field yet
        return o

    def cap(d, drop=None, none=None):
        if d is None:
            return None
        o = r.Capacities(**d)
        if none:
            o.__dict__[none] = None               # Capacities(core=None)
        if drop:
            o.__dict__.pop(drop, None)
        return o
    lpool, cpool = LABEL_POOL, CAP_POOL
    upool = UD_POOL + UD_EXTRA
    # deterministic part: every pool value against every other
    for a in lpool:
        for b in lpool:
            out.append(("L", lab(a), lab(b), True))
    for a in cpool:
        for b in cpool:
            out.append(("C", cap(a), cap(b), True))
    for a in upool:
        for b in upool:
            out.append(("U", None if a is None else r.UserData(a), None if b is None else r.UserData(b), True))
    # every field of Labels: a base value against its relatives (letter case, blanks, leading zeros, another spelling of the same
    # address, a prefix, list order / multiplicity, one-element list vs string), both ways round, and the relatives in a ring
    for f, fam in label_families():
        for i, d in enumerate(fam[1:], 1):
            out.append(("L", lab(fam[0]), lab(d), True))
            out.append(("L", lab(d), lab(fam[0]), True))
            out.append(("L", lab(d), lab(fam[i % (len(fam) - 1) + 1]), True))
    for d in lpool[1:]:
        for e in label_relatives(d):
            out.append(("L", lab(d), lab(e), True))
    for a in UD_NEAR:
        for b in UD_NEAR:
            out.append(("U", r.UserData(a), r.UserData(b), True))
    # Labels / Capacities through their construction paths as well: keyword arguments, from_json(to_json()), JSONField.update, deep copy,
    # pickle - all pairs (judged by the field dictionaries the instances really have)

    def variants(o):
        vs = [o]
        for f in (lambda: type(o).from_json(o.to_json()), lambda: type(o).update(o), lambda: copy.deepcopy(o), lambda: pickle.loads(pickle.dumps(o))):
            try:
                vs.append(f())
            except Exception:
                pass
        return vs
    for pool, mk, tag in ((lpool, lab, "L"), (cpool, cap, "C")):
        for d in pool:
            if d is not None:
                for a, b in itertools.product(variants(mk(d)), repeat=2):
                    out.append((tag, a, b, True))
    # one value through every construction path (an object with non-string keys / tuples, the JSON text the library writes for it,
    # that text re-written, the string-keyed object, a deep copy and a pickle of the object-built instance): every pair of them must
    # be equal, in every JSONData class (C17-r4-2: a canonical text cached per construction path)
    from fim.slivers.json_data import LayoutData
    lits = UD_OBJ + UD_OBJ_MIXED + [repr(g_pyobj(rng, 3)) for _ in range(max(4, n // 25))]
    for lit in lits:
        for cls in (r.UserData, MeasurementData, LayoutData):
            insts = []
            for path in VALUE_PATHS:
                try:
                    insts.append((path, build_path(cls, lit, path)))
                except Exception as e:
                    out.append(("UF", {"lit": lit, "cls": cls.__name__, "path": path, "err": err_kind(e)}, None, False))
            for (pa, a), (pb, b) in itertools.product(insts, repeat=2):
                if cls is r.UserData or "object" in (pa, pb):
                    out.append(("U", a, b, True))
    out.append(("UX", r.UserData('{"a": 1}'), MeasurementData('{"a": 1}'), False))
    out.append(("UX", MeasurementData('{"a": 1}'), r.UserData('{"a":1}'), False))
    out.append(("UX", MeasurementData('{"a": 1}'), r.UserData('{"a": 2}'), False))
    lf = ["vlan", "mac", "ipv4", "local_name", "bdf"]
    cf = ["core", "ram", "bw", "unit", "disk"]
    for _ in range(n):
        k = rng.random()
        if k < 0.35:
            a, b = rng.choice(lpool[1:]), rng.choice(lpool[1:])
            da, db = (rng.choice(lf) if rng.random() < 0.5 else None), (rng.choice(lf) if rng.random() < 0.5 else None)
            out.append(("L", lab(a, da), lab(b, db), da is None and db is None))
        elif k < 0.7:
            a, b = rng.choice(cpool[1:]), rng.choice(cpool[1:])
            da, db = (rng.choice(cf) if rng.random() < 0.4 else None), (rng.choice(cf) if rng.random() < 0.4 else None)
            na, nb = (rng.choice(cf) if rng.random() < 0.3 else None), (rng.choice(cf) if rng.random() < 0.3 else None)
            out.append(("C", cap(a, da, na), cap(b, db, nb), not (da or db or na or nb)))
        else:
            # a random JSON value and a re-serialisation of it with shuffled members / a small mutation
            v = g_json(rng, 3)
            w = shuffle_json(rng, v) if rng.random() < 0.6 else g_json(rng, 3)
            if rng.random() < 0.3:
                w = mutate_json(rng, w)
            out.append(("U", r.UserData(json.dumps(v)), r.UserData(json.dumps(w, separators=rng.choice([(",", ":"), (", ", ": ")]))), True))
    return out


VALUE_PATHS = ["object", "text", "text-sorted", "text-shuffled", "string-keyed-object", "deepcopy-of-object", "pickle-of-object"]


def build_path(cls, lit, path):
    """an instance of the JSONData class `cls` holding the value of the Python literal `lit`, built the given way"""
    o = _ast.literal_eval(lit)
    if path == "object":
        return cls(o)
    if path == "text":
        return cls(cls(o).json)                       # what a store / load cycle hands back
    if path == "text-sorted":
        return cls(json.dumps(json.loads(json.dumps(o)), sort_keys=True, separators=(",", ":")))
    if path == "text-shuffled":
        return cls(json.dumps(reverse_members(json.loads(json.dumps(o))), indent=1))
    if path == "string-keyed-object":
        return cls(json.loads(json.dumps(o)))
    if path == "deepcopy-of-object":
        return copy.deepcopy(cls(o))
    if path == "pickle-of-object":
        return pickle.loads(pickle.dumps(cls(o)))
    raise ValueError(path)


def reverse_members(v):
    if isinstance(v, list):
        return [reverse_members(x) for x in v]
    if isinstance(v, dict):
        return {k: reverse_members(v[k]) for k in reversed(list(v))}
    return v


def g_pyobj(rng, depth, top=True):
    """a Python object json.dumps accepts but that is not a JSON value yet: int / float / bool keys (one type per dictionary, so that
    the keys are sortable as they are), tuples"""
    k = rng.random()
    if top:
        k = 0.3 + 0.7 * k            # a container: a bare str is taken as JSON text and a bare None as "no data" by the constructor
    elif depth == 0 or k < 0.3:
        return rng.choice([None, True, 0, 1, 2.5, "x", "10", "2"])
    if k < 0.45:
        return tuple(g_pyobj(rng, depth - 1, False) for _ in range(rng.randrange(0, 3)))
    if k < 0.55:
        return [g_pyobj(rng, depth - 1, False) for _ in range(rng.randrange(0, 3))]
    keys = rng.choice([[1, 2, 3, 9, 10, 11, 20, 100, -1, -10], [1.5, 2.25, 10.0, 10.5, 100.0], ["a", "b", "10", "2", "k"], [True, False]])
    return {kk: g_pyobj(rng, depth - 1, False) for kk in rng.sample(keys, rng.randrange(1, min(4, len(keys)) + 1))}


def value_oracle(ctx, res):
    """equal-valued user / measurement / layout data compare equal (and hash alike) whatever way the two instances were built"""
    r = R.load()
    rng = ctx.sub_rng("value-oracle")
    for c in load_corpus(values=True):
        res.evaluations += 1
        check_value_case(c, res)
    lits = UD_OBJ + [repr(g_pyobj(rng, 3)) for _ in range(ctx.scale(40, 600))]
    for lit in lits:
        for cls in ("UserData", "MeasurementData", "LayoutData"):
            res.evaluations += 1
            res.count("kind:value")
            check_value_case({"kind": "value", "lit": lit, "cls": cls}, res)
            res.nontrivial.add(canon([lit, cls]))


def check_value_case(case, res):
    import fim.slivers.json_data as jd
    cls = getattr(jd, case["cls"])
    insts = []
    for path in VALUE_PATHS:
        try:
            insts.append((path, build_path(cls, case["lit"], path)))
        except Exception as e:
            if len(json.dumps(_ast.literal_eval(case["lit"]))) <= cls.MAX_SIZE:
                res.violation("C17:%s:construct:%s:%s" % (case["cls"], path, err_kind(e)),
                              "%s cannot be built from a value json.dumps accepts (%s path)" % (case["cls"], path), case, observed=repr(e)[:200])
    want = json.dumps(json.loads(json.dumps(_ast.literal_eval(case["lit"]))), sort_keys=True)
    for (pa, a), (pb, b) in itertools.combinations(insts, 2):
        try:
            obs = [bool(a == b), bool(a != b), bool(b == a), hash(a) == hash(b)]
        except Exception as e:
            obs = ["err", err_kind(e)]
        if obs != [True, False, True, True]:
            res.violation("C17:%s.__eq__:equal-values-differ:%s-vs-%s" % (case["cls"], pa, pb),
                          "two %s holding the same value (%s) built differently (%s / %s) do not compare equal" % (case["cls"], want[:80], pa, pb),
                          case, expected=[True, False, True, True], observed=obs)


def g_json(rng, depth):
    k = rng.random()
    if depth == 0 or k < 0.35:
        return rng.choice([None, True, False, 0, 1, 1.0, -1, 2, 2.5, 100, 1e2, "x", "1", "", "true"])
    if k < 0.6:
        return [g_json(rng, depth - 1) for _ in range(rng.randrange(0, 4))]
    return {rng.choice(["a", "b", "c", "aa", "B", "z", "k1", "k10", "k2"]): g_json(rng, depth - 1) for _ in range(rng.randrange(0, 4))}


def shuffle_json(rng, v):
    if isinstance(v, list):
        return [shuffle_json(rng, x) for x in v]
    if isinstance(v, dict):
        ks = list(v)
        rng.shuffle(ks)
        return {k: shuffle_json(rng, v[k]) for k in ks}
    return v


def mutate_json(rng, v):
    """swap one scalar for a look-alike of another JSON type (true <-> 1, 1 <-> 1.0, 1 <-> "1")"""
    alike = {True: 1, 1: 1.0, 1.0: 1, 0: False, False: 0, "1": 1, None: 0}
    if isinstance(v, list) and v:
        i = rng.randrange(len(v))
        return v[:i] + [mutate_json(rng, v[i])] + v[i + 1:]
    if isinstance(v, dict) and v:
        k = rng.choice(sorted(v))
        return dict(v, **{k: mutate_json(rng, v[k])})
    for a, b in alike.items():
        if type(a) is type(v) and a == v:
            return b
    return v


def dict_correspondence(ctx, res, n):
    """histories of add_interface / remove_interface on a real InterfaceInfo (re-adding an existing name, removing an absent one)
    against `dictRun`: same keys in the same order holding the same slivers"""
    r = R.load()
    rng = ctx.sub_rng("dictops")
    reqs, impl = [], []
    for _ in range(n):
        info = r.InterfaceInfo()
        ops = []
        for _ in range(rng.randrange(0, 9)):
            k = "s%d" % rng.randrange(4)
            if rng.random() < 0.65:
                leaf = g_leaf(rng, k)
                sl = mk_iface(leaf)
                info.add_interface(sl)
                ops.append(["set", wire_leaf(sl)])
            else:
                info.remove_interface(k)
                ops.append(["pop", k])
        reqs.append(["dictops", ops])
        impl.append(["ok", [wire_leaf(x) for x in info.interfaces.values()]])
        if [k for k, x in info.interfaces.items() if k != x.resource_name]:
            res.violation("C17:InterfaceInfo:key-is-not-resource-name", "a dictionary key differs from the name of the sliver it holds", ops)
    model = LeanDriver("C17").run([json.dumps(q) for q in reqs])
    for q, i, m in zip(reqs, impl, model):
        res.evaluations += 1
        res.count("kind:dictops")
        if len(q[1]) >= 2:
            res.nontrivial.add(canon(q))
        mm = json.loads(m)
        if mm != i:
            res.disagreements.append({"case": {"request": q}, "impl": i, "model": mm})


def class_correspondence(ctx, res):
    """slivers of unrelated classes are refused (the isinstance assertion of the abstract diff every method calls first)"""
    P0 = [None, None, None]
    mk = {"node": lambda: mk_node({"n": "n1", "p": P0, "comps": None, "svcs": None}),
          "svc": lambda: mk_svc({"n": "s1", "t": "OVS", "p": P0, "ifs": None}),
          "iface": lambda: mk_iface({"n": "p1", "t": "DedicatedPort", "p": P0, "subs": None})}
    reqs, impl = [], []
    for ka in mk:
        for kb in mk:
            if ka != kb:
                reqs.append(["classes", ka, kb])
                impl.append(run_diff(mk[ka](), mk[kb]()))
    model = LeanDriver("C17").run([json.dumps(q) for q in reqs])
    for q, i, m in zip(reqs, impl, model):
        res.evaluations += 1
        res.count("kind:classes")
        if json.loads(m) != i:
            res.disagreements.append({"case": {"request": q}, "impl": i, "model": json.loads(m)})


def value_correspondence(ctx, res, n):
    r = R.load()
    rng = ctx.sub_rng("values")
    cases = gen_values(rng, n)
    reqs, impl, canon_eq = [], [], []
    for tag, a, b, normal in cases:
        if tag == "UF":
            # the library refused to build an instance from a value json.dumps accepts: the model (which starts from the stored text)
            # has such an instance
            w = ["v", j_wire(json.loads(json.dumps(_ast.literal_eval(a["lit"]))))]
            reqs.append(["veq", "U", w, w])
            impl.append(["err", "construct:" + a["err"]])
            canon_eq.append(None)
            continue
        if tag in ("L", "C"):
            reqs.append(["veq", tag, fields_wire(a), fields_wire(b)])
            ca = None if a is None else (canon_labels if tag == "L" else canon_caps)(dict(a.__dict__))
            cb = None if b is None else (canon_labels if tag == "L" else canon_caps)(dict(b.__dict__))
        else:
            # an instance goes as ["v", value] (its value may be the JSON null), an unset property as null
            reqs.append(["veq", tag, None if a is None else ["v", j_wire(json.loads(a._data))],
                         None if b is None else ["v", j_wire(json.loads(b._data))]])
            ca = None if a is None else canon_ud(a._data)
            cb = None if b is None else canon_ud(b._data)
        impl.append(py_eq(a, b))
        canon_eq.append((ca == cb) if normal and tag != "UX" else None)
    # the code's own canonical text, read back, against the model's canonical form
    texts = UD_POOL[1:] + UD_EXTRA + [json.dumps(g_json(rng, 4)) for _ in range(n // 4)]
    for t in texts:
        u = r.UserData(t)
        reqs.append(["canon", "U", j_wire(json.loads(t))])
        impl.append(["ok", j_wire(json.loads(u._canonical()))])
        canon_eq.append(None)
    # ... and of instances built from an object (what is stored is the text json.dumps writes for it)
    for lit in UD_OBJ + UD_OBJ_MIXED + [repr(g_pyobj(rng, 3)) for _ in range(n // 20)]:
        try:
            u = r.UserData(_ast.literal_eval(lit))
        except Exception:
            continue                              # reported through the UF entries above
        reqs.append(["canon", "U", j_wire(json.loads(u._data))])
        impl.append(["ok", j_wire(json.loads(u._canonical()))])
        canon_eq.append(None)
    model = LeanDriver("C17").run([json.dumps(q) for q in reqs])
    for q, i, m, ce in zip(reqs, impl, model, canon_eq):
        res.evaluations += 1
        res.count("kind:" + q[0] + ":" + q[1])
        if q[0] == "veq" and i[0] == "ok":
            res.count("veq:%s:%s" % (q[1], "equal" if i[1][0] else "different"))
        if q[2] != (q[3] if len(q) > 3 else None):
            res.nontrivial.add(canon(q))
        mm = json.loads(m)
        if mm != i:
            res.disagreements.append({"case": {"request": q}, "impl": i, "model": mm})
        elif ce is not None and i[0] == "ok" and ce != i[1][0]:
            # the canonical strings this harness puts on the wire / judges by disagree with the library's own equality
            res.disagreements.append({"case": {"request": q, "harness-canonical-strings-equal": ce}, "impl": i, "model": mm})


def count_edits(sc):
    """elementary edits of a script (any level)"""
    n = 0
    if isinstance(sc, dict):
        for k, v in sc.items():
            if k == "pe":
                n += len(v or {})
            elif k in ("add", "rm", "addc", "rmc", "adds", "rms"):
                n += len(v)
            elif k == "sub":
                n += sum(len(pe) for pe in v.values())
            elif k in ("iface", "comp"):
                n += sum(count_edits(x) for x in v.values())
            elif k == "svc":
                # node level: {name: script}; component level: a script
                if v and all(isinstance(x, dict) for x in v.values()) and not (set(v) & {"pe", "add", "rm", "iface"}):
                    n += sum(count_edits(x) for x in v.values())
                else:
                    n += count_edits(v)
    return n


def load_corpus(values=False):
    """sliver cases of the corpus (values=True: the value cases, run by `value_oracle`)"""
    return [c for c in _load_corpus() if (c.get("kind") == "value") == values]


def _load_corpus():
    d = os.path.join(CORPUS_DIR, ID)
    out = []
    if os.path.isdir(d):
        for fn in sorted(os.listdir(d)):
            if fn.endswith(".json"):
                with open(os.path.join(d, fn)) as f:
                    j = json.load(f)
                for c in (j["cases"] if "cases" in j else [j["case"]]):
                    out.append(c)
    return out


# ---------------------------------------------------------------------------------------------
# malformed / out-of-contract stream (correspondence only: the model mirrors these behaviours too)


def gen_malformed(rng, n):
    out = []
    P0 = [None, None, None]
    for i in range(n):
        t = g_node(rng, allow_bad=True)
        if not t["comps"]:
            t["comps"] = [g_comp(rng, "c0", True)]
        sc = g_node_script(rng, t, 0.3, hidden_ok=True, allow_bad=True)
        r = rng.random()
        smart = [c for c in t["comps"] if c["t"] == "SmartNIC" and c["n"] not in sc["rmc"]]
        if smart and r < 0.5:
            c = rng.choice(smart)
            c["svcs"] = rng.choice([None, []])          # SmartNIC without a service: AttributeError / IndexError
            sc["comp"].pop(c["n"], None)
        elif smart and r < 0.7:
            c = rng.choice(smart)                     # two services on a component: only the first is looked at
            c["svcs"] = c["svcs"] + [g_svc(rng, c["n"] + "-ns2")]
        out.append({"kind": "node", "tree": t, "script": sc})
    return out


# ---------------------------------------------------------------------------------------------


# wire form of a script for the Lean side (`Lemmas/C17Script.lean`): lists of ["add", tree] / ["rm", k] / ["mod", k, script]
# in the order the apply_* functions above perform them (adds, removes, child scripts)


def w_pe(pe):
    out = {}
    pe = pe or {}
    if "labels" in pe:
        out["labels"] = [canon_labels(pe["labels"][0])]
    if "caps" in pe:
        out["caps"] = [canon_caps(pe["caps"][0])]
    if "ud" in pe:
        out["ud"] = [canon_ud(pe["ud"][0])]
    if "ud_both" in pe:
        out["ud"] = [canon_ud(pe["ud_both"][1])]      # the old side already carries the first text
    return out


def w_iface_script(sc):
    sc = sc or {}
    return {"pe": w_pe(sc.get("pe")),
            "subs": [["add", wire_leaf(mk_iface(x))] for x in sc.get("add", [])] + [["rm", k] for k in sc.get("rm", [])] +
                    [["mod", k, w_pe(pe)] for k, pe in sc.get("sub", {}).items()]}


def w_svc_script(sc):
    sc = sc or {}
    return {"pe": w_pe(sc.get("pe")),
            "ifs": [["add", wire_iface(mk_iface(x))] for x in sc.get("add", [])] + [["rm", k] for k in sc.get("rm", [])] +
                   [["mod", k, w_iface_script(s2)] for k, s2 in sc.get("iface", {}).items()]}


def w_comp_script(sc):
    sc = sc or {}
    return {"pe": w_pe(sc.get("pe")), "svc": w_svc_script(sc["svc"]) if sc.get("svc") else None}


def w_node_script(sc):
    sc = sc or {}
    return {"pe": w_pe(sc.get("pe")),
            "comps": [["add", wire_comp(mk_comp(x))] for x in sc.get("addc", [])] + [["rm", k] for k in sc.get("rmc", [])] +
                     [["mod", k, w_comp_script(s2)] for k, s2 in sc.get("comp", {}).items()],
            "svcs": [["add", wire_svc(mk_svc(x))] for x in sc.get("adds", [])] + [["rm", k] for k in sc.get("rms", [])] +
                    [["mod", k, w_svc_script(s2)] for k, s2 in sc.get("svc", {}).items()]}


W_SCRIPT = {"node": w_node_script, "svc": w_svc_script, "iface": w_iface_script}


def request_of(case, a, b, rev=False):
    k = eff_kind(case)
    w = WIRE[k]
    return [k, w(b), w(a)] if rev else [k, w(a), w(b)]


def correspondence(ctx, res, n=None):
    R.load()
    rng = ctx.sub_rng("corr")
    n = n or ctx.scale(500, 6000)
    cases = corner_cases() + hidden_cases() + corner_pairs() + corner_topo() + load_corpus() + gen_cases(rng, n, hidden_ok=True) + \
        gen_malformed(rng, n // 4) + gen_pairs(rng, n // 2) + gen_topo(rng, n // 5)
    reqs, impl, meta = [["cfg"]], [None], [None]
    for c in cases:
        try:
            a, b = build_pair(c)
        except Exception as e:
            res.count("build-skip:" + err_kind(e))
            continue
        for rev in (False, True):
            reqs.append(request_of(c, a, b, rev))
            impl.append(run_diff(b, a) if rev else run_diff(a, b))
            meta.append(c)
        # a copy against itself
        reqs.append(request_of(c, b, copy.deepcopy(b)))
        impl.append(run_diff(b, copy.deepcopy(b)))
        meta.append(c)
        if "pair" in c or c["kind"] == "topo":
            res.count("topo" if c["kind"] == "topo" else "pairs")
            continue
        # the Lean edit-script semantics against the real add_/remove_/set_ methods, and the report the Lean
        # theorems predict from the script (`expNode` …) against what the real diff returns
        wa, ws = WIRE[c["kind"]](a), W_SCRIPT[c["kind"]](c.get("script"))
        reqs.append(["apply", c["kind"], wa, ws])
        impl.append(["ok", WIRE[c["kind"]](b)])
        meta.append(c)
        d = run_diff(a, b)
        if d[0] == "ok":
            reqs.append(["expect", c["kind"], wa, ws])
            impl.append(d)
            meta.append(c)
    model = LeanDriver("C17").run([json.dumps(r) for r in reqs])
    # what the table the model runs on says (the Generated file of this run - or the baseline one after a fallback)
    cfg = json.loads(model[0])[1]
    res.count("cfg:" + canon(cfg))
    flag_bits = [(nm, cfg["flagVal"].get(nm, 0)) for nm in FLAG_NAMES]
    for r, i, m, c in list(zip(reqs, impl, model, meta))[1:]:
        res.evaluations += 1
        res.count("kind:" + r[0])
        if r[0] == "apply":
            i = ["ok", resolve_kinds(i[1], cfg)]
        elif i[0] == "err":
            res.count("err:" + i[1])
        elif i[1] is None:
            res.count("result:none")
        else:
            res.count("result:diff")
            for k, v in i[1].items():
                if v:
                    res.count("slot:" + k)
                if k.startswith("modified"):
                    for _, f in v:
                        for nm, bit in flag_bits:
                            if bit and f & bit == bit:
                                res.count("flag:" + nm)
        if "pair" in c or c["kind"] == "topo" or count_edits(c.get("script")) >= 1:
            res.nontrivial.add(canon(r))
        mm = norm_for(r, m)
        if mm != i:
            res.disagreements.append({"case": {"request": r, "origin": c}, "impl": i, "model": mm})
    value_correspondence(ctx, res, ctx.scale(600, 6000))
    dict_correspondence(ctx, res, ctx.scale(300, 3000))
    class_correspondence(ctx, res)
    if len(reqs) > 1:
        k = min(len(reqs) - 1, 120)
        res.sample({"request": reqs[k], "impl": impl[k], "model": norm_for(reqs[k], model[k])})
        res.sample({"request": reqs[-1], "impl": impl[-1], "model": norm_for(reqs[-1], model[-1])})


def check_hypotheses(res):
    """the guard of the theorems about NodeSliver.diff (`Node.Ok`: every SmartNIC carries a network service) holds of every
    SmartNIC the library itself produces from its component catalog"""
    from fim.slivers.component_catalog import ComponentCatalog, ComponentModelType
    r = R.load()
    cat = ComponentCatalog()
    for mt in ComponentModelType:
        res.evaluations += 1
        try:
            c = cat.generate_component(name="cx1", model_type=mt)
        except Exception as e:
            res.count("catalog:skip:" + err_kind(e))
            continue
        res.count("catalog:" + type_name(c))
        if c.get_type() == r.ComponentType.SmartNIC and not (c.network_service_info and c.network_service_info.network_services):
            res.violation("C17:hypothesis:smartnic-without-service:" + mt.name,
                          "the catalog produces a SmartNIC without a network service: NodeSliver.diff raises on it", {"model_type": mt.name})


def oracle(ctx, res, n=None):
    R.load()
    check_hypotheses(res)
    rng = ctx.sub_rng("oracle")
    n = n or ctx.scale(1500, 20000)
    cases = load_corpus() + corner_cases() + hidden_cases() + corner_pairs() + corner_topo() + gen_cases(rng, n) + \
        gen_pairs(rng, n // 3) + gen_topo(rng, n // 10)
    for c in cases:
        res.evaluations += 1
        ne = count_edits(c.get("script"))
        res.count("kind:" + c["kind"])
        res.count("topo-ops:%d" % min(len(c["ops"]), 6) if c["kind"] == "topo" else "pair" if "pair" in c else "edits:%s" % (ne if ne < 8 else "8+"))
        if ne >= 1 or "pair" in c or c["kind"] == "topo":
            res.nontrivial.add(canon(c))
        if has_ud_both(c.get("script")):
            res.count("ud_both")
        if '"py"' in canon(c):
            res.count("user-data-built-from-object")
        if c["kind"] == "topo":
            res.count("topo-view:" + (c.get("view") or ["node"])[0])
            for lv in topo_readds(c):
                res.count("topo-readd:" + lv)
        elif "pair" in c:
            ids = [x.get("id") for x in c["pair"]]
            res.count("pair-ids:" + ("none" if ids == [None, None] else "same-root" if ids[0] == ids[1] else "independent"))
        check_case(c, res)
    value_oracle(ctx, res)
    res.sample({"case": cases[-1], "expected": expected(cases[-1], []), "observed": run_diff(*build_pair(cases[-1]), decode=True)})


def search(ctx, res, broken):
    R.load()
    rng = ctx.sub_rng("search")
    for c in corner_cases() + hidden_cases() + corner_pairs() + load_corpus() + gen_cases(rng, ctx.scale(15000, 100000), hidden_ok=True) + \
            gen_pairs(rng, ctx.scale(5000, 30000)) + corner_topo() + gen_topo(rng, ctx.scale(1000, 5000)):
        res.evaluations += 1
        check_case(c, res)


def replay(ctx, payload):
    from core import Result
    R.load()
    r = Result()
    (check_value_case if payload["case"].get("kind") == "value" else check_case)(payload["case"], r)
    for v in r.violations:
        print("  ", v["signature"], v["what"])
    known = {k["signature"] for k in __import__("core").load_known(ID) if k.get("status") == "known"}
    want = payload.get("signature")
    if want:
        return any(v["signature"] == want for v in r.violations)
    return any(v["signature"] not in known for v in r.violations)
