"""C06 - neighbour and path queries return exactly what their contract describes."""
import itertools
import json
import os

from core import LeanDriver, err_kind, canon, CORPUS_DIR, Result
from gen import queryidioms

ID = "C06"
GENERATORS = [queryidioms.generate]
LEAN_MODULES = ["FimVerif.Proofs.C06"]
P = "FimVerif.C06."
THEOREMS = [P + t for t in (
    "first_neighbor_exact", "first_neighbor_total", "first_neighbor_nodup", "get_parent_unique",
    "two_hop_nodup", "second_components_spec",
    "two_hop_exact", "two_hop_total", "two_hop_counterexample", "two_hop_partial", "wf_build",
    "two_hop_as_written_exact", "two_hop_selfloop_counterexample", "peer_counterexample", "nodecps_counterexample",
    "hops_cutoff_irrelevant", "hops_full_statement", "hops_contract_graph_theoretic", "hops_answer_acyclic", "relink_replaces_relation",
    "helper_constants", "link_cps_exact", "child_cps_exact", "node_cps_spec", "helpers_outside_domain",
    "shortest_path_sound", "shortest_path_empty_iff_unreachable", "shortest_path_minimal", "shortest_path_total",
    "hops_sound", "hops_minimal", "hops_empty_iff_none", "hops_total", "hops_list_semantics", "hops_foreign_hop_empty",
    "class_lookup_is_membership")]
TRUSTED_BASE = [
    "gen/queryidioms.py: AST patterns of the three drop-list loops (which variable is appended), of the iterable of "
    "_drop_edges_not_of_type (live view / snapshot) and of the replacement test in get_nodes_on_path_with_hops; the class gates "
    "(`CLASS_X not in labels ... raise`) and REL_*/CLASS_* constants of the four derived helpers of ABCPropertyGraph, values from abc_property_graph_constants.py",
    "Model/Query.lean mirrors get_first_neighbor, get_first_and_second_neighbor, get_nodes_on_shortest_path, "
    "get_nodes_on_path_with_hops, the mixin helpers and the gate of the derived helpers (labels = [Class], list membership) by hand; checked differentially. Class names, relation names, node ids and graph ids "
    "are compared by string equality in the model; the generators draw all four from alphabets whose members contain / prefix / suffix one "
    "another, differ only in letter case or surrounding white space, or are empty (the library's own CLASS_*/REL_* constants - Link/CompositeLink, "
    "NetworkNode/CompositeNode - and A/AB, x/xx, has/Has/'has ', a/ab/abc/A/''), as names present in the graph and as query-only names, on both "
    "in-memory stores; evidence counts the queries whose argument is related-but-unequal to a name the answer depends on (related-name:*)",
    "networkx is third-party and modelled, not verified: nx.shortest_path by a layered BFS proved correct in Lean "
    "(results compared by validity + length only: which shortest path networkx returns is unspecified), "
    "nx.all_simple_paths(cutoff) by a DFS enumeration proved sound and complete, nx.cycle_basis(G.subgraph(path)) == [] by "
    "'every edge with both ends on the path joins consecutive path nodes'",
    "the typed-graph view (Query.build) of one graph id stands for storage.extract_graph; the store itself belongs to C04/C05. Which nodes and "
    "edges a graph id has after add_node/add_link/delete_node/merge_nodes/GraphID re-labelling in a store shared by several graphs is computed "
    "by the harness's own Store (records + edges, nx.contracted_nodes semantics for merge; an edge crossing into another graph is not part of "
    "either graph) and handed to the model as a view; checked differentially on every case",
]
ASSUMPTIONS = [
    "a query on a graph id answers from that graph only: nodes carrying the GraphID and edges with both ends among them (what extract_graph "
    "cuts out of the shared store); edges left crossing into another graph by merge_nodes or a re-labelled node are not followed",
    "node ids are distinct within a graph id (same id under two classes is C05's subject)",
    "cut_off is a non-negative integer; relation, class and node id arguments are strings (None is rejected by the asserts)",
    "'loop-free' for path-with-hops is the documented sense of the code: no cycle in the subgraph induced by the path",
]
RULE = ("stores: 1-3 graphs in ONE shared store (same node ids in several graphs; in 60% of the multi-graph shared cases 1-3 merge_nodes / "
        "GraphID re-labelling steps in either direction, then more links) or in the disjoint store; "
        "histories: several wrapper objects per graph id, query / mutate through another (or the same) wrapper / query again, "
        "queries and mutations on other graphs in between, merge_nodes / re-labelling between the graphs of the shared store; every answer against the model and the oracle on the store as it is now and "
        "against a fresh wrapper; non-trivial history query = asked after a mutation with a non-empty answer or mixed relations.  "
        "case = (store with 1-3 graphs built through add_node/add_link in interleaved order, target graph, query); queries: "
        "first-neighbour, two-hop, shortest path (with and without relation), path-with-hops (hop lists, cut-offs), derived helpers; "
        "non-trivial = the answer is non-empty or the queried node has incident edges of >= 2 relations; "
        "distinct by (canonical target view, query); thorough adds every graph on <= 4 nodes over 2 relations x 2 classes (names x/xx, A/AB; <= 3 nodes also with the empty string and Link/CompositeLink) "
        "up to isomorphism, and every graph on <= 3 nodes with self-loops, with all queries; the <= 3 node families (empty string, Link/CompositeLink, "
        "and r/R x A/a over the node ids a/ab/A - every labelled graph) run on the shared and on the disjoint store; on the shared store the "
        "queried graph of every enumerated case has absorbed (merge_nodes) the namesakes of its first and last node from the second graph, so "
        "those nodes carry edges into the other graph; deterministic route cases: C5/C6/C7 and theta graphs in 6 link insertion orders with hop "
        "lists naming the end nodes / repeating nodes / describing a route")

ABS_REL = ["r", "s", "t"]
ABS_CLS = ["A", "B", "C"]
FIM_REL = ["has", "connects", "depends"]
FIM_CLS = ["NetworkNode", "Component", "NetworkService", "ConnectionPoint", "Link"]
# names related by containment / prefix / suffix, and the empty string: the contract compares names by equality, so any
# text-containment test in the implementation (`in` on a str, startswith, a regex) shows as a difference
SUB_REL = ["x", "xx", ""]
SUB_CLS = ["A", "AB", ""]
# names that differ only in letter case or in surrounding white space (a .lower() / .strip() / casefold normalisation shows)
CASE_REL = ["has", "Has", "has "]
CASE_CLS = ["Link", "link", " Link"]
# node ids and graph ids related by containment / prefix / suffix / case / white space / emptiness: `_find_node` and the hop
# test compare ids by equality
SUB_IDS = ["a", "ab", "abc", "b", "ba", "bab", "A", "Ab", "aa", "n1", "n11", "n", "N1", "", "a ", " a", "c", "bc"]
SUB_GIDS = [["g", "g1", "g11"], ["G", "g", "gg"], ["", "g", "g "], ["ab", "b", "a"]]


def real_alphabet():
    """The class and relation constants the library itself defines (ABCPropertyGraphConstants): CLASS_* / REL_*.
    `Link` is the tail of `CompositeLink`, `NetworkNode` / `CompositeNode` share `Node`, ..."""
    try:
        from fim.graph.abc_property_graph_constants import ABCPropertyGraphConstants as K
        cl = [getattr(K, a) for a in sorted(dir(K)) if a.startswith("CLASS_") and isinstance(getattr(K, a), str)]
        rl = [getattr(K, a) for a in sorted(dir(K)) if a.startswith("REL_") and isinstance(getattr(K, a), str)]
    except Exception:
        cl, rl = [], []
    cl = list(dict.fromkeys(FIM_CLS + ["CompositeLink", "CompositeNode", "SwitchFabric"] + cl))
    rl = list(dict.fromkeys(FIM_REL + rl))
    return rl, cl


def related_names(names):
    """query-only names that are not in `names` but contain / are contained in / extend one of them"""
    out = []
    for x in names[:3]:
        out += [x + x[-1:] if x else "q", x[:-1] if len(x) > 1 else x + "_", x[1:] if len(x) > 1 else "_" + x]
    out += ["".join(names[:2]), ""]
    for x in names[:2]:
        out += [x.swapcase(), x + " ", x.upper() if x != x.upper() else x.lower()]
    return [y for y in dict.fromkeys(out) if y not in names]


class IdNamer:
    """Consistent renaming of the generators' node ids (n0, n1, ..., o1, m1, ...) into an id alphabet whose members are
    related by containment / prefix / suffix / case / white space (or left as they are)."""

    def __init__(self, rng, style=None):
        k = rng.random()
        self.style = style or ("plain" if k < 0.55 else "sub")
        self.pool = list(SUB_IDS)
        rng.shuffle(self.pool)
        # a few of the closely related ones first, so that small graphs get them too
        head = rng.choice([["a", "ab", "A"], ["n1", "n11", "n"], ["b", "ba", "bab"], ["", "a", "a "], ["ab", "b", "a"]])
        self.pool = head + [x for x in self.pool if x not in head]
        self.map = {}

    def __call__(self, i):
        if self.style == "plain":
            return i
        if i not in self.map:
            self.map[i] = self.pool.pop(0) if self.pool else i
        return self.map[i]

    def graph(self, g):
        nodes, links = g
        return [(self(i), c) for i, c in nodes], [(self(a), r, self(b)) for a, r, b in links]


def graph_ids(rng, n, prefix):
    """graph ids of a store: plain (g0, g1, ...) or related by containment / case / emptiness"""
    if rng.random() < 0.6:
        return ["%s%d" % (prefix, i) for i in range(n)]
    ids = list(rng.choice(SUB_GIDS))
    rng.shuffle(ids)
    return ids[:n]


def pick_alphabet(rng):
    """(relations, classes, fim-shaped?)"""
    k = rng.random()
    if k < 0.30:
        rl, cl = real_alphabet()
        return rl, cl, True
    if k < 0.42:
        # the containment-related subset of the real constants, on arbitrary shapes
        return ["has", "connects", "depends"], ["Link", "CompositeLink", "NetworkNode", "CompositeNode", "Component"], False
    if k < 0.62:
        return (SUB_REL, SUB_CLS, False) if rng.random() < 0.6 else (SUB_REL[:2], SUB_CLS[:2], False)
    if k < 0.74:
        return (CASE_REL, CASE_CLS, False) if rng.random() < 0.6 else (CASE_REL[:2], CASE_CLS[:2], False)
    return (ABS_REL, ABS_CLS, False) if rng.random() < 0.5 else (ABS_REL[:2], ABS_CLS[:2], False)


# --------------------------------------------------------------------------
# the harness's own view of a graph (independent of the implementation and of the Lean model)


class View:
    def __init__(self, nodes, links):
        self.nodes = list(nodes)                       # [(id, cls)] in insertion order
        self.cls = {i: c for i, c in nodes}
        self.rel = {}                                  # frozenset({a,b}) -> relation (later add wins)
        for a, r, b in links:
            self.rel[frozenset((a, b))] = r
        self.adj = {i: set() for i, _ in nodes}
        for e in self.rel:
            t = tuple(e)
            a, b = (t[0], t[0]) if len(t) == 1 else t
            self.adj[a].add(b)
            self.adj[b].add(a)

    def r(self, a, b):
        return self.rel.get(frozenset((a, b)))

    def canon(self):
        return canon([sorted(self.nodes), sorted([sorted(e) + [r] for e, r in self.rel.items()])])


class Store:
    """The harness's own picture of one NetworkX store holding several graphs: node records (graph index, id, class) and
    undirected edges between records, one per pair.  What a graph id *is*: the records carrying it and the edges with both
    ends among them (`nodes` / `links`).  `merge` is nx.contracted_nodes as `merge_nodes` calls it (the other graph's node
    disappears, its edges move to the caller's node - they now cross into the other graph - an edge the caller's node
    already has is kept as it is); `move` re-labels a node with another graph id (its edges stay where they are)."""

    def __init__(self):
        self.recs = {}           # uid -> [graph index, id, class], insertion order
        self.edges = {}          # frozenset({u, v}) -> (u, rel, v), insertion order
        self.next = 0

    def find(self, g, i):
        for u, (gg, ii, _) in self.recs.items():
            if gg == g and ii == i:
                return u
        return None

    def add_node(self, g, i, c):
        self.recs[self.next] = [g, i, c]
        self.next += 1

    def add_link(self, g, a, r, b):
        u, v = self.find(g, a), self.find(g, b)
        k = frozenset((u, v))
        if k in self.edges:
            x, _, y = self.edges[k]
            self.edges[k] = (x, r, y)                 # the existing edge keeps its place and gets the new relation
        else:
            self.edges[k] = (u, r, v)

    def del_node(self, g, i):
        u = self.find(g, i)
        del self.recs[u]
        self.edges = {k: e for k, e in self.edges.items() if u not in k}

    def merge(self, g, i, h):
        u, v = self.find(g, i), self.find(h, i)
        moved = [(k, e) for k, e in self.edges.items() if v in k]
        self.edges = {k: e for k, e in self.edges.items() if v not in k}
        del self.recs[v]
        for k, (x, r, y) in moved:
            x, y = (u if x == v else x), (u if y == v else y)
            k2 = frozenset((x, y))
            if k2 not in self.edges:
                self.edges[k2] = (x, r, y)

    def move(self, g, i, h):
        self.recs[self.find(g, i)][0] = h

    def nodes(self, g):
        return [(i, c) for gg, i, c in self.recs.values() if gg == g]

    def links(self, g):
        out = []
        for x, r, y in self.edges.values():
            if self.recs[x][0] == g and self.recs[y][0] == g:
                out.append((self.recs[x][1], r, self.recs[y][1]))
        return out

    def crossing(self, g):
        """edges with exactly one end in graph g, as (id of the end in g, relation, graph index and id of the other end)"""
        out = []
        for x, r, y in self.edges.values():
            for p, q in ((x, y), (y, x)):
                if self.recs[p][0] == g and self.recs[q][0] != g:
                    out.append((self.recs[p][1], r, self.recs[q][0], self.recs[q][1]))
        return out

    def apply(self, op):
        """op = [graph index, kind, ...]: n id class | l a rel b | d id | m id other-graph (merge) | v id other-graph (move)"""
        g, k = op[0], op[1]
        if k == "n":
            self.add_node(g, op[2], op[3])
        elif k == "l":
            self.add_link(g, op[2], op[3], op[4])
        elif k == "d":
            self.del_node(g, op[2])
        elif k == "m":
            self.merge(g, op[2], op[3])
        elif k == "v":
            self.move(g, op[2], op[3])
        else:
            raise ValueError(op)


def case_store(case):
    st = Store()
    for op in case["ops"]:
        st.apply(op)
    return st


def case_views(case):
    st = case_store(case)
    n = len(case["graphs"])
    return [st.nodes(g) for g in range(n)], [st.links(g) for g in range(n)]


# --------------------------------------------------------------------------
# generators


def gen_graph(rng, max_nodes, rels, clss, shape):
    """One typed graph as (nodes, links).  Shapes: sparse / dense random, FIM-like tree with multi-end links, chain."""
    n = rng.randint(1, max_nodes)
    ids = ["n%d" % i for i in range(n)]
    rng.shuffle(ids)
    nodes = [(i, rng.choice(clss)) for i in ids]
    links = []
    if shape == "fim":
        # NetworkNode -has- NetworkService -connects- ConnectionPoint -connects- Link (multi-end) + stray edges
        nodes = []
        k = 0

        def new(c):
            nonlocal k
            k += 1
            nodes.append(("n%d" % k, c))
            return "n%d" % k
        comp = "CompositeLink" in clss
        nn = [new("CompositeNode" if comp and rng.random() < 0.3 else "NetworkNode") for _ in range(rng.randint(1, 2))]
        cps = []
        for x in nn:
            if len(nodes) >= max_nodes - 1:
                break
            if rng.random() < 0.4 and len(nodes) < max_nodes - 2:
                c = new("Component")
                links.append((x, "has", c))
                x = c
            ns = new("NetworkService")
            links.append((x, "has", ns))
            for _ in range(rng.randint(1, 2)):
                if len(nodes) < max_nodes:
                    cp = new("ConnectionPoint")
                    links.append((ns, "connects", cp))
                    cps.append(cp)
        if cps and len(nodes) < max_nodes:
            lkc = "CompositeLink" if comp and rng.random() < 0.35 else "Link"
            lk = new(lkc)
            if comp and len(nodes) < max_nodes and rng.random() < 0.5:
                lk2 = new("Link" if lkc == "CompositeLink" or rng.random() < 0.5 else "CompositeLink")
                for cp in cps:
                    if rng.random() < 0.5:
                        links.append((lk2, "connects", cp))
            for cp in cps:
                if rng.random() < 0.8:
                    links.append((lk, "connects", cp))
        ids = [i for i, _ in nodes]
        for _ in range(rng.randint(0, 3)):
            a, b = rng.choice(ids), rng.choice(ids)
            if a != b or rng.random() < 0.3:
                links.append((a, rng.choice(rels), b))
        return nodes, links
    if shape == "chain":
        for a, b in zip(ids, ids[1:]):
            links.append((a, rng.choice(rels[:2]), b))
        for _ in range(rng.randint(0, 2)):
            a, b = rng.choice(ids), rng.choice(ids)
            if a != b:
                links.append((a, rng.choice(rels), b))
        return nodes, links
    p = {"sparse": 0.25, "dense": 0.6}[shape]
    for a, b in itertools.combinations(ids, 2):
        if rng.random() < p:
            links.append((a, rng.choice(rels), b) if rng.random() < 0.5 else (b, rng.choice(rels), a))
    # re-added links (the later relation wins) and an occasional self-loop
    for _ in range(rng.randint(0, 2)):
        if links and rng.random() < 0.5:
            a, _, b = rng.choice(links)
            links.append((b, rng.choice(rels), a))
    if rng.random() < 0.12:
        a = rng.choice(ids)
        links.append((a, rng.choice(rels), a))
    return nodes, links


def make_case(rng, graphs):
    """Interleave the construction of several graphs in one store; graph 0.. are (nodes, links)."""
    streams = []
    for gi, (nodes, links) in enumerate(graphs):
        s = [[gi, "n", i, c] for i, c in nodes]
        # a link may only be added once both ends exist: nodes first, then links, per graph
        s += [[gi, "l", a, r, b] for a, r, b in links]
        streams.append(s)
    ops = []
    idx = [0] * len(streams)
    live = [i for i, s in enumerate(streams) if s]
    while live:
        i = rng.choice(live)
        ops.append(streams[i][idx[i]])
        idx[i] += 1
        if idx[i] == len(streams[i]):
            live.remove(i)
    return {"graphs": ["g%d" % i for i in range(len(graphs))], "ops": ops, "target": 0}


def foreign_ids(nodes, t):
    """ids that are nodes of another graph of the store but not of graph t"""
    mine = {i for i, _ in nodes[t]}
    return sorted({i for k, ns in enumerate(nodes) if k != t for i, _ in ns} - mine)


def gen_case(rng, max_nodes):
    rels, clss, fim = pick_alphabet(rng)
    shape = "fim" if fim and rng.random() < 0.6 else rng.choice(["sparse", "dense", "chain", "dense"])
    graphs = [gen_graph(rng, max_nodes, rels, clss, shape)]
    for _ in range(rng.choice([0, 1, 1, 2])):
        # noise graphs reuse the same node ids (other classes / relations), so a missing GraphID filter shows
        ng = gen_graph(rng, max_nodes, rels, clss, rng.choice(["sparse", "dense"]) if shape == "fim" else shape)
        own = "o%d" % len(graphs)                    # an id that exists only in this other graph
        ng[0].append((own, rng.choice(clss)))
        if len(ng[0]) > 1:
            ng[1].append((own, rng.choice(rels), ng[0][0][0]))
        graphs.append(ng)
    namer = IdNamer(rng)
    graphs = [namer.graph(g) for g in graphs]
    case = make_case(rng, graphs)
    case["graphs"] = graph_ids(rng, len(graphs), "g")
    case["ids"] = namer.style
    case["target"] = rng.randrange(len(graphs)) if rng.random() < 0.3 else 0
    case["alphabet"] = [rels, clss]
    nodes, _ = case_views(case)
    if rng.random() < 0.25 and nodes[case["target"]]:
        case["backend"] = "disjoint"      # (an empty graph is a TypeError in the shared store, a query error in the disjoint one)
    elif len(graphs) > 1 and rng.random() < 0.6:
        add_cross_ops(rng, case, rels)    # the shared store only: merge_nodes is not implementable on the disjoint one
    return case


def add_cross_ops(rng, case, rels):
    """Edges that cross from one graph of the shared store into another: `merge_nodes` of a node id two graphs have in common
    (either direction: the queried graph absorbs the other graph's node, or loses its own), or a node re-labelled with the
    other graph's id; then a few more links.  The queried graph stays what its GraphID says: such edges are not part of it."""
    st = case_store(case)
    n = len(case["graphs"])
    t = case["target"]
    added = 0
    for _ in range(rng.choice([1, 1, 2, 3])):
        g = t if rng.random() < 0.5 else rng.randrange(n)
        h = rng.choice([x for x in range(n) if x != g])
        if rng.random() < 0.5:
            g, h = h, g
        gi = [i for i, _ in st.nodes(g)]
        hi = {i for i, _ in st.nodes(h)}
        common = [i for i in gi if i in hi]
        only = [i for i in gi if i not in hi]
        if common and (rng.random() < 0.75 or not only):
            op = [g, "m", rng.choice(common), h]
        elif only and len(gi) > 1:
            op = [g, "v", rng.choice(only), h]
        else:
            continue
        st.apply(op)
        case["ops"].append(op)
        added += 1
    for _ in range(rng.randint(0, 2)):
        g = t if rng.random() < 0.6 else rng.randrange(n)
        ids = [i for i, _ in st.nodes(g)]
        if len(ids) >= 2:
            a, b = rng.sample(ids, 2)
            op = [g, "l", a, rng.choice(rels), b]
            st.apply(op)
            case["ops"].append(op)
    case["cross"] = added


def special_hop_lists(view, a, z, ids, other_ids, rng=None):
    """Hop *lists* (not sets): end nodes among the hops, repeated entries, the interior of an actual path in path order /
    reversed / shuffled, ids that are not nodes of this graph (unknown, or nodes of another graph in the store)."""
    out = [[a], [z], [a, z], [z, a], [a, a], [z, a, z]]
    mids = [h for h in ids if h not in (a, z)]
    pick = mids if rng is None else (rng.sample(mids, min(2, len(mids))))
    for h in pick:
        out += [[h, h], [h, a, h], [h, h, h]]
    if len(mids) >= 2:
        h, k = (mids[0], mids[-1]) if rng is None else rng.sample(mids, 2)
        out += [[h, k, h], [k, h, k, h]]
    paths = simple_paths(view, a, z)
    if paths:
        chosen = {tuple(min(paths, key=len)), tuple(max(paths, key=len))}
        if rng is not None:
            chosen.add(tuple(rng.choice(paths)))
        for pth in sorted(chosen):
            pth = list(pth)
            inner = pth[1:-1]
            out += [pth, pth[::-1]]
            if inner:
                sh = inner[1:] + inner[:1] if rng is None else rng.sample(inner, len(inner))
                out += [inner, inner[::-1], sh, inner + inner[:1], inner + inner[::-1]]
    # ids that are not nodes of this graph: unknown, a node of another graph in the store, and ids that contain / are contained
    # in / differ by case or white space from a node of this graph
    foreign = ["nope"] + list(other_ids[:1]) + [y for y in related_names([a] + mids[:1] + [z]) if y not in ids][:3 if rng is None else 2]
    for f in foreign:
        out += [[f], [f, f]] + ([[mids[0], f], [f, mids[0]]] if mids else [[a, f]])
    seen, res = set(), []
    for hs in out:
        if tuple(hs) not in seen:
            seen.add(tuple(hs))
            res.append(hs)
    return res


def all_queries(view, rels, clss, rng=None, budget=None, hops_full=False, other_ids=()):
    ids = [i for i, _ in view.nodes]
    R = list(rels) + ["zz"]
    C = list(clss) + ["Zz"]
    if budget is not None:
        # query-only names related to the present ones by containment (sampled mode; the exhaustive family has them as present names)
        R += related_names(list(rels))[:4]
        C += related_names(list(clss))[:4]
        if len(C) > 9:
            rest = list(clss)[5:]
            C = list(clss)[:5] + rng.sample(rest, min(2, len(rest))) + C[len(clss):]
    N = ids + ["nope"]
    if budget is not None:
        N += related_names(ids)[:3]
    qs = []
    for n in N:
        for r in R:
            for c in C:
                qs.append(["fn", n, r, c])
    if budget is not None:
        two = [["two", rng.choice(N), rng.choice(R), rng.choice(C), rng.choice(R), rng.choice(C)] for _ in range(budget)]
        # mostly names that occur in the graph
        two += [["two", n, rng.choice(rels), rng.choice(clss), rng.choice(rels), rng.choice(clss)] for n in ids for _ in range(12)]
    else:
        two = [["two", n, r1, c1, r2, c2] for n in N for r1 in rels for c1 in clss for r2 in rels for c2 in clss]
    sp = [["sp", a, z, r] for a in N for z in N for r in [None] + R]
    hops = []
    pairs2 = [[a, b] for a, b in itertools.combinations(ids, 2)]
    if hops_full and len(ids) >= 4:
        pairs2 = pairs2[:1] + pairs2[-1:]        # keeps the exhaustive family affordable
    hopsets = [[]] + [[h] for h in ids] + pairs2 + [["nope"]]
    for a in ids:
        for z in ids:
            for hs in hopsets:
                hops.append(["hops", a, z, hs, 100])
                if hops_full:
                    for c in ((0, 1) if len(ids) <= 3 else (2,)):
                        hops.append(["hops", a, z, hs, c])
    hops2 = []
    pairs = [(a, z) for a in ids for z in ids]
    if budget is not None and len(pairs) > 8:
        pairs = rng.sample(pairs, 8)
    for a, z in pairs:
        for hs in special_hop_lists(view, a, z, ids, list(other_ids), rng if budget is not None else None):
            hops2.append(["hops", a, z, hs, 100])
            if budget is not None and rng.random() < 0.2:
                hops2.append(["hops", a, z, hs, rng.choice([0, 1, 2, 3])])
    hops.append(["hops", "nope", ids[0] if ids else "x", [], 100])
    if ids:
        hops.append(["hops", ids[0], "nope", [], 100])
    helpers, helpers_out = [], []          # derived helpers inside / outside their documented domain
    for n, c in view.nodes:
        for r in rels[:2]:
            for pc in (clss if len(clss) <= 5 else list(clss)[:4] + [c]):
                helpers.append(["parent", n, r, pc])
        # the gated helpers on nodes of every class: outside its domain (and only there) a helper raises.  CompositeLink
        # is not Link, CompositeNode is admitted next to NetworkNode - whole-name membership in the label list
        for h in ("peer", "childcps", "nodecps", "linkcps"):
            (helpers if c in HELPER_DOMAIN.get(h, ("ConnectionPoint",)) else helpers_out).append([h, n])
    if budget is None:
        return qs + two + sp + hops + hops2 + helpers + helpers_out
    out = []
    for pool, share in ((qs, 0.12), (two, 0.22), (sp, 0.22), (hops, 0.17), (hops2, 0.17), (helpers, 0.10), (helpers_out, 0.03)):
        k = max(1, int(budget * share))
        if len(pool) <= k:
            out += pool
        else:
            out += rng.sample(pool, k)
            if pool is hops:
                # small cut-offs on a few
                for q in rng.sample(pool, min(len(pool), max(1, k // 4))):
                    out.append(q[:4] + [rng.choice([0, 1, 2, 3])])
    return out


def iso_canonical(n, edges, classes, loops=None):
    """True iff (edges, classes, loops) is the least encoding among all relabellings of the n nodes."""
    pairs = list(itertools.combinations(range(n), 2))
    enc = (tuple(classes), tuple(edges), tuple(loops or ()))
    idx = {p: i for i, p in enumerate(pairs)}
    for perm in itertools.permutations(range(n)):
        cl = tuple(classes[perm[i]] for i in range(n))
        ed = tuple(edges[idx[tuple(sorted((perm[a], perm[b])))]] for a, b in pairs)
        lp = tuple(loops[perm[i]] for i in range(n)) if loops else ()
        if (cl, ed, lp) < enc:
            return False
    return True


def exhaustive_cases(max_n=4, loops_n=3, rels=("x", "xx"), clss=("A", "AB"), empty_n=3):
    """Containment-related names (x / xx, A / AB) are the alphabet of the main family - isomorphic to any other two-name
    alphabet for an implementation that compares by equality; graphs on <= empty_n nodes are repeated with the empty
    string as a relation and as a class, and with the real constants Link / CompositeLink."""
    for c in exhaustive_family(max_n, loops_n, rels, clss):
        yield with_absorbed(c)
    if empty_n:
        # the small families run on both stores; the last one has names that differ in case only and node ids related by
        # containment / case (every labelled graph: those ids are not interchangeable)
        for fam in (dict(rels=("", "x"), clss=("", "A")),
                    dict(rels=("connects", "has"), clss=("Link", "CompositeLink")),
                    dict(rels=("r", "R"), clss=("A", "a"), ids=("a", "ab", "A"), dedup=False)):
            for c in exhaustive_family(min(empty_n, len(fam["ids"])) if "ids" in fam else empty_n, 0, **fam):
                yield with_absorbed(c)
                yield dict(c, backend="disjoint")


def with_absorbed(case):
    """The queried graph absorbs (merge_nodes) the first and the last of its nodes' namesakes from the second graph of the
    shared store: its own nodes and edges stay exactly what they were, and those two nodes now also carry edges that lead into
    the other graph - which no query on this graph id may follow."""
    ids = [op[2] for op in case["ops"] if op[0] == 0 and op[1] == "n"]
    extra = [[0, "m", i, 1] for i in dict.fromkeys(ids[:1] + ids[-1:])]
    return dict(case, ops=case["ops"] + extra, cross=len(extra))


def exhaustive_family(max_n, loops_n, rels, clss, ids=None, dedup=True):
    """Every graph on <= max_n nodes over the given relations x classes, up to isomorphism; then every graph on
    <= loops_n nodes that has at least one self-loop.  A second graph with the same ids and swapped relations shares the store."""
    swap = {rels[0]: rels[1], rels[1]: rels[0]}
    for n in range(1, max_n + 1):
        pairs = list(itertools.combinations(range(n), 2))
        for classes in itertools.product(range(len(clss)), repeat=n):
            for edges in itertools.product(range(len(rels) + 1), repeat=len(pairs)):
                loopsets = [None]
                if n <= loops_n:
                    loopsets += [l for l in itertools.product(range(len(rels) + 1), repeat=n) if any(l)]
                for loops in loopsets:
                    if dedup and not iso_canonical(n, edges, classes, loops):
                        continue
                    nm = (lambda i: ids[i]) if ids else (lambda i: "n%d" % i)
                    nodes = [(nm(i), clss[classes[i]]) for i in range(n)]
                    links = [(nm(a), rels[e - 1], nm(b)) for (a, b), e in zip(pairs, edges) if e]
                    if loops:
                        links += [(nm(i), rels[l - 1], nm(i)) for i, l in enumerate(loops) if l]
                    noise = ([(i, clss[1 - clss.index(c)]) for i, c in nodes], [(a, swap[r], b) for a, r, b in links])
                    ops = []
                    for (i, c), (j, d) in zip(nodes, noise[0]):
                        ops += [[0, "n", i, c], [1, "n", j, d]]
                    ops += [[1, "n", "o1", clss[0]], [1, "l", "o1", rels[0], nm(0)]]
                    for (a, r, b), (a2, r2, b2) in zip(links, noise[1]):
                        ops += [[1, "l", a2, r2, b2], [0, "l", a, r, b]]
                    yield {"graphs": ["g0", "g1"], "ops": ops, "target": 0, "alphabet": [list(rels), list(clss)]}


# --------------------------------------------------------------------------
# the implementation


class BuildFailed(Exception):
    """a valid add_node / add_link of a generated case raised (e.g. a node lookup that matches a related id as well)"""

    def __init__(self, k, kind):
        Exception.__init__(self, "op %d raised %s" % (k, kind))
        self.k, self.kind = k, kind


def build_payload(case, b):
    return {"graphs": case["graphs"], "ops": case["ops"][:b.k + 1], "target": case["ops"][b.k][0], "query": ["build"],
            "backend": case.get("backend", "shared")}


def build_impl(case):
    from fim.graph.networkx_property_graph import NetworkXPropertyGraph, NetworkXGraphImporter, NetworkXGraphStorage
    if case.get("backend") == "disjoint":
        # same query code (inherited), other store: extract_graph is a copy of the graph's own nx.Graph
        from fim.graph.networkx_property_graph_disjoint import (NetworkXPropertyGraphDisjoint, NetworkXGraphImporterDisjoint,
                                                                  NetworkXGraphStorageDisjoint)
        NetworkXGraphStorageDisjoint.storage_instance = None
        imp = NetworkXGraphImporterDisjoint()
        gs = [NetworkXPropertyGraphDisjoint(graph_id=g, importer=imp) for g in case["graphs"]]
    else:
        NetworkXGraphStorage.storage_instance = None
        imp = NetworkXGraphImporter()
        gs = [NetworkXPropertyGraph(graph_id=g, importer=imp) for g in case["graphs"]]
    for k, op in enumerate(case["ops"]):
        g = gs[op[0]]
        try:
            if op[1] == "n":
                g.add_node(node_id=op[2], label=op[3], props={"Name": "name-" + op[2]})
            elif op[1] == "l":
                g.add_link(node_a=op[2], rel=op[3], node_b=op[4])
            elif op[1] == "m":
                g.merge_nodes(node_id=op[2], other_graph=gs[op[3]])
            elif op[1] == "v":
                g.update_node_property(node_id=op[2], prop_name="GraphID", prop_val=case["graphs"][op[3]])
            else:
                raise ValueError(op)
        except Exception as e:      # generated cases only contain valid operations (ids distinct per graph, link ends exist)
            raise BuildFailed(k, err_kind(e))
    return gs


def impl_query(g, q):
    try:
        op = q[0]
        if op == "fn":
            return ["ok", g.get_first_neighbor(node_id=q[1], rel=q[2], node_label=q[3])]
        if op == "two":
            return ["ok", [list(x) for x in g.get_first_and_second_neighbor(node_id=q[1], rel1=q[2], node1_label=q[3], rel2=q[4], node2_label=q[5])]]
        if op == "sp":
            if q[3] is None:
                return ["ok", g.get_nodes_on_shortest_path(node_a=q[1], node_z=q[2])]
            return ["ok", g.get_nodes_on_shortest_path(node_a=q[1], node_z=q[2], rel=q[3])]
        if op == "hops":
            if q[4] == 100:
                return ["ok", g.get_nodes_on_path_with_hops(node_a=q[1], node_z=q[2], hops=list(q[3]))]
            return ["ok", g.get_nodes_on_path_with_hops(node_a=q[1], node_z=q[2], hops=list(q[3]), cut_off=q[4])]
        if op == "parent":
            return ["ok", g.get_parent(node_id=q[1], rel=q[2], parent=q[3])[1]]
        if op == "peer":
            return ["ok", g.find_peer_connection_points(node_id=q[1]) or []]
        if op == "nodecps":
            return ["ok", g.get_all_node_or_component_connection_points(parent_node_id=q[1])]
        if op == "linkcps":
            return ["ok", g.get_all_ns_or_link_connection_points(link_id=q[1])]
        if op == "childcps":
            return ["ok", g.get_all_child_connection_points(interface_id=q[1])]
        raise ValueError(op)
    except Exception as e:
        return ["err", err_kind(e)]


def lean_query(q):
    """The model request that corresponds to an implementation call (derived helpers are their definitions)."""
    return q        # the derived helpers are operations of the model (gate and constants regenerated from the source)


# --------------------------------------------------------------------------
# validity of paths against the harness view


def path_ok(view, p, a, z, rel=None):
    if not p or p[0] != a or p[-1] != z or any(x not in view.cls for x in p):
        return False
    for x, y in zip(p, p[1:]):
        r = view.r(x, y)
        if r is None or (rel is not None and r != rel):
            return False
    return True


def induced_acyclic(view, p):
    s = set(p)
    m = sum(1 for e in view.rel if e <= s)
    return m == len(p) - 1          # the path spans the induced subgraph, so it is a forest iff it has |V|-1 edges


def hop_path_ok(view, p, a, z, hops, cutoff):
    return (path_ok(view, p, a, z) and len(set(p)) == len(p) and induced_acyclic(view, p)
            and all(h in p for h in hops) and len(p) - 1 <= cutoff)


def simple_paths(view, a, z, rel=None):
    """All simple paths a..z by plain recursion (no networkx)."""
    out = []

    def go(path):
        u = path[-1]
        if u == z:
            out.append(list(path))
            return
        for v in sorted(view.adj[u]):
            if v not in path and (rel is None or view.r(u, v) == rel):
                path.append(v)
                go(path)
                path.pop()
    go([a])
    return out


def canon_reply(q, rep):
    if rep[0] == "ok" and q[0] in ("fn", "two", "second", "peer", "nodecps", "linkcps", "childcps"):
        return ["ok", sorted(rep[1])]
    return rep


def name_related(x, y):
    """different names of which one contains the other, or that differ only in case / surrounding white space"""
    return (isinstance(x, str) and isinstance(y, str) and x != y
            and (x in y or y in x or x.lower() == y.lower() or x.strip() == y.strip()))


def related_tags(view, q):
    """Which argument of q is *not* equal to, but textually related to, a name the answer depends on: evidence that a
    containment / prefix / case-insensitive comparison anywhere in the query code would have changed this answer's inputs."""
    op, out = q[0], set()
    ids = list(view.cls)
    for n in ([q[1]] if op in ("fn", "two", "parent") else [q[1], q[2]] if op in ("sp", "hops") else []):
        if n not in view.cls and any(name_related(n, i) for i in ids):
            out.add("node-id")
    if op in ("fn", "two", "parent") and q[1] in view.cls:
        n = q[1]
        rels = {view.r(n, m) for m in view.adj[n]}
        clss = {view.cls[m] for m in view.adj[n]}
        if op == "two":
            for m in view.adj[n]:
                rels |= {view.r(m, k) for k in view.adj[m]}
                clss |= {view.cls[k] for k in view.adj[m]}
        if any(name_related(r, x) for r in (q[2:3] + q[4:5] if op == "two" else q[2:3]) for x in rels):
            out.add("relation")
        if any(name_related(c, x) for c in (q[3:4] + q[5:6] if op == "two" else q[3:4]) for x in clss):
            out.add("class")
    if op == "sp" and q[3] is not None and any(name_related(q[3], x) for x in set(view.rel.values())):
        out.add("sp-relation")
    if op == "hops" and any(name_related(h, i) for h in q[3] for i in ids):
        out.add("hop")
    return out


def nontrivial(view, q, rep):
    if rep[0] == "ok" and rep[1]:
        return True
    n = q[1]
    return n in view.adj and len({view.r(n, m) for m in view.adj[n]}) >= 2


# --------------------------------------------------------------------------
# correspondence


def compare(view, q, impl, model):
    """None if implementation and model agree on q, else a short reason."""
    if impl[0] != model[0]:
        return "status"
    if impl[0] == "err":
        return None if impl[1] == model[1] else "error-kind"
    if q[0] in ("sp", "hops"):
        pi, pm = impl[1], model[1]
        if (not pi) != (not pm):
            return "emptiness"
        if not pi:
            return None
        if q[0] == "sp":
            ok = path_ok(view, pi, q[1], q[2], q[3]), path_ok(view, pm, q[1], q[2], q[3])
        else:
            ok = hop_path_ok(view, pi, q[1], q[2], q[3], q[4]), hop_path_ok(view, pm, q[1], q[2], q[3], q[4])
        if not ok[0]:
            return "implementation-path-invalid"
        if not ok[1]:
            return "model-path-invalid"
        return None if len(pi) == len(pm) else "length"
    return None if canon_reply(q, impl) == canon_reply(lean_query(q), model) else "value"


_STATE = {"exhaustive_judged": False, "judged": Result(), "disagreements": []}


def run_cases(ctx, res, cases, budget, tag, hops_full=False, judge=False):
    rng = ctx.sub_rng("queries/" + tag)
    lines, meta = [], []
    for case in cases:
        store = case_store(case)
        n = len(case["graphs"])
        nodes, links = [store.nodes(g) for g in range(n)], [store.links(g) for g in range(n)]
        t = case["target"]
        view = View(nodes[t], links[t])
        view.crossing = {x[0] for x in store.crossing(t)}     # nodes of the target with an edge into another graph of the store
        rels, clss = case["alphabet"]
        qs = case.get("queries") or all_queries(view, rels, clss, rng, budget, hops_full, foreign_ids(nodes, t))
        try:
            gs = build_impl(case)
        except BuildFailed as b:
            res.disagreements.append({"case": build_payload(case, b), "impl": ["err", b.kind], "model": "valid operation", "why": "build-raises"})
            continue
        impl = [impl_query(gs[t], q) for q in qs]
        lines.append(json.dumps(["g", [list(x) for x in nodes[t]], [list(x) for x in links[t]], [lean_query(q) for q in qs] + [["wf"]]]))
        meta.append((case, view, qs, impl))
    replies = []
    for k in range(0, len(lines), 100):       # short driver runs: the Lean lock is shared with the other builders
        replies += LeanDriver("C06").run(lines[k:k + 100])
    for (case, view, qs, impl), rl in zip(meta, replies):
        rep = json.loads(rl)
        if rep[0] != "ok" or len(rep[1]) != len(qs) + 1:
            res.disagreements.append({"case": case, "impl": "-", "model": rep})
            continue
        if rep[1][-1] != ["ok", True]:
            res.disagreements.append({"case": case, "impl": "view built through the API", "model": "model view not well-formed"})
        vc = view.canon()
        for q, i, m in zip(qs, impl, rep[1]):
            res.evaluations += 1
            res.count("op:" + q[0])
            res.count("backend:" + case.get("backend", "shared"))
            res.count("ids:" + case.get("ids", "plain"))
            for t in related_tags(view, q):
                res.count("related-name:" + t)
            if len(case["graphs"]) > 1:
                res.count("store:several-graphs")
                if view.crossing:
                    res.count("store:edges-crossing-out-of-the-queried-graph")
                    if q[1] in view.crossing or (q[0] in ("sp", "hops") and q[2] in view.crossing):
                        res.count("store:queried-node-has-crossing-edge")
            if q[0] in HELPER_DOMAIN:
                res.count("helper-domain:" + ("inside" if view.cls.get(q[1]) in HELPER_DOMAIN[q[0]] else "outside"))
            if i[0] == "err":
                res.count("err:" + i[1])
            elif q[0] in ("sp", "hops"):
                res.count("%s:%s" % (q[0], "empty" if not i[1] else "len%d" % len(i[1])))
            else:
                res.count("%s:%s" % (q[0], "empty" if not i[1] else "nonempty"))
            if nontrivial(view, q, i):
                res.nontrivial.add(canon([vc, q]))
            if judge:
                check_query(view, case, q, i, _STATE["judged"])     # the oracle's verdict on the same answer (saves a second pass)
            why = compare(view, q, i, m)
            if why:
                res.disagreements.append({"case": {"graphs": case["graphs"], "ops": case["ops"], "target": case["target"], "query": q,
                                                   "backend": case.get("backend", "shared")},
                                          "impl": i, "model": m, "why": why})
                _STATE["disagreements"].append(res.disagreements[-1]["case"])
        if len(res.samples) < 3 and qs:
            k = next((j for j, (q, i) in enumerate(zip(qs, impl)) if i[0] == "ok" and i[1]), 0)
            res.sample({"view": json.loads(vc), "query": qs[k], "impl": impl[k], "model": rep[1][k]})


def corner_cases():
    def mk(graphs, alphabet=None):
        import random
        c = make_case(random.Random(0), graphs)
        c["alphabet"] = alphabet or [ABS_REL[:2], ABS_CLS[:2]]
        return c
    return [
        # names that contain one another: a query for CompositeLink must not return Link nodes (nor the reverse), '' is a name
        mk([([("a", "ConnectionPoint"), ("b", "Link"), ("c", "CompositeLink"), ("d", "ConnectionPoint"), ("e", "")],
             [("a", "connects", "b"), ("a", "connects", "c"), ("b", "connects", "d"), ("c", "connect", "d"), ("a", "", "e"), ("e", "connects", "d")])],
           [["connects", "connect", ""], ["Link", "CompositeLink", "ConnectionPoint", "", "Composite"]]),
        mk([([("a", "A"), ("b", "AB"), ("c", ""), ("d", "A")], [("a", "x", "b"), ("a", "xx", "c"), ("a", "", "d"), ("b", "xx", "d"), ("c", "x", "d")])],
           [SUB_REL, SUB_CLS]),
        # node ids that contain one another / differ in case / are empty: the hop `ab` is not on a - abc - b; `A` is not `a`
        mk([([("a", "A"), ("ab", "A"), ("abc", "B"), ("b", "B"), ("A", "A"), ("", "B")],
             [("a", "x", "abc"), ("abc", "x", "b"), ("a", "xx", "ab"), ("ab", "x", "A"), ("", "x", "A")]),
            ([("a", "B"), ("ab", "B"), ("bc", "A")], [("a", "xx", "bc"), ("bc", "x", "ab")])],
           [["x", "xx"], ["A", "B"]]),
        # names that differ only in case / white space
        mk([([("a", "Link"), ("b", "link"), ("c", "LINK"), ("d", " Link"), ("e", "Link")],
             [("a", "has", "b"), ("a", "Has", "c"), ("a", "has ", "d"), ("a", "has", "e"), ("b", "Has", "e"), ("c", "has", "e"), ("d", "HAS", "e")])],
           [["has", "Has", "has ", "HAS"], ["Link", "link", "LINK", " Link"]]),
        mk([([("a", "A"), ("b", "B"), ("c", "A"), ("d", "B")], [("a", "r", "b"), ("b", "s", "c"), ("c", "r", "d")])]),
        mk([([("a", "A")], [])]),
        mk([([("a", "A"), ("b", "B")], [("a", "r", "b"), ("b", "s", "a")]), ([("a", "B"), ("b", "A")], [("a", "s", "b")])]),
        mk([([("a", "A"), ("b", "A"), ("c", "A"), ("d", "A")],
             [("a", "r", "b"), ("b", "r", "c"), ("c", "r", "d"), ("a", "r", "c"), ("b", "s", "d"), ("a", "s", "a")])]),
        mk([([("a", "A"), ("b", "B"), ("c", "B")], [("a", "r", "a"), ("a", "r", "b"), ("b", "r", "b"), ("b", "s", "c")])]),
        mk([([], []), ([("a", "A")], [])]),
    ] + cross_corner_cases() + route_corner_cases()


def cross_corner_cases():
    """Several graphs in ONE shared store with edges that cross between them.  g: sf -x- cp, cp -x- l ; h (same ids, other
    classes): cp -x- l, l -x- cp2, cp -x- sf9, cp -xx- q.  Merging cp (g absorbs h's cp / h absorbs g's cp), re-labelling,
    links added afterwards, both targets.  A query on one graph id never sees the other graph's nodes."""
    import random
    g = ([("sf", "A"), ("cp", "B"), ("l", "A")], [("sf", "x", "cp"), ("cp", "x", "l")])
    h = ([("cp", "B"), ("l", "A"), ("cp2", "B"), ("sf9", "A"), ("q", "B")],
         [("cp", "x", "l"), ("l", "x", "cp2"), ("cp", "x", "sf9"), ("cp", "xx", "q")])
    out = []
    for extra in ([[0, "m", "cp", 1]], [[1, "m", "cp", 0]], [[0, "m", "cp", 1], [0, "m", "l", 1]], [[0, "m", "cp", 1], [1, "m", "l", 0]],
                  [[1, "v", "sf9", 0]], [[0, "v", "sf", 1], [0, "m", "cp", 1]], [[0, "m", "cp", 1], [0, "l", "cp", "xx", "sf"], [1, "l", "l", "xx", "sf9"]],
                  [[0, "m", "l", 1], [0, "m", "cp", 1], [1, "n", "cp", "A"], [1, "l", "cp", "x", "cp2"], [0, "m", "cp", 1]]):
        for t in ((0, 1) if len(out) < 8 else (0,)):
            c = make_case(random.Random(1), [g, h])
            c["ops"] += extra
            c["target"] = t
            c["alphabet"] = [["x", "xx"], ["A", "B"]]
            c["cross"] = len(extra)
            out.append(c)
    return out


def route_corner_cases():
    """Two or three loop-free routes of different length between the same end nodes - cycles C5, C6, C7 and theta graphs -
    each in several link insertion orders, so that whichever route the enumeration meets first, the answer must be the
    shortest one; queried with hop lists that name the end nodes, repeat a node, or describe a whole route."""
    import random
    out = []

    def add(names, links):
        for order in (links, links[::-1], links[1::2] + links[0::2]):
            for flip in (False, True):
                ls = [(b, r, a) if flip else (a, r, b) for a, r, b in order]
                c = make_case(random.Random(2), [([(i, "A") for i in names], ls)])
                c["alphabet"] = [["r"], ["A"]]
                view = View([(i, "A") for i in names], ls)
                qs = []
                for a, z in (("a", "z"), ("z", "a"), (names[1], names[-1])):
                    mids = [i for i in names if i not in (a, z)]
                    for hs in [[]] + [[m] for m in mids] + special_hop_lists(view, a, z, names, [], None):
                        qs.append(["hops", a, z, hs, 100])
                        if len(hs) <= 1:
                            qs.append(["hops", a, z, hs, 3])
                    qs.append(["sp", a, z, None])
                c["queries"] = qs
                out.append(c)
    for n in (5, 6, 7):
        names = ["a", "x", "y", "z", "w", "v", "u"][:n]
        # a - x - y - z is the long way round for n == 5; the short way is a - w - z
        ring = ["a", "x", "y", "z"] + names[4:][::-1]
        add(names, [(ring[i], "r", ring[(i + 1) % n]) for i in range(n)])
    # theta graphs: a .. z by routes of 2, 3 and 4 edges
    add(["a", "z", "p", "q1", "q2", "s1", "s2", "s3"],
        [("a", "r", "s1"), ("s1", "r", "s2"), ("s2", "r", "s3"), ("s3", "r", "z"), ("a", "r", "q1"), ("q1", "r", "q2"), ("q2", "r", "z"),
         ("a", "r", "p"), ("p", "r", "z")])
    add(["a", "z", "q1", "q2", "s1", "s2", "s3"],
        [("a", "r", "s1"), ("s1", "r", "s2"), ("s2", "r", "s3"), ("s3", "r", "z"), ("a", "r", "q1"), ("q1", "r", "q2"), ("q2", "r", "z")])
    return out


def both_backends(cases):
    """every case on the shared store and on the disjoint one (a graph without nodes: shared only - the two stores raise
    different errors for it, see gen_case)"""
    out = []
    for c in cases:
        out.append(c)
        nodes, _ = case_views(c)
        if nodes[c["target"]] and c.get("backend") != "disjoint" and not any(op[1] in ("m", "v") for op in c["ops"]):
            out.append(dict(c, backend="disjoint"))
    return out


def correspondence(ctx, res):
    rng = ctx.sub_rng("corr")
    run_cases(ctx, res, both_backends(corner_cases()), None, "corner", hops_full=True)
    n = ctx.scale(110, 900)
    cases = [gen_case(rng, rng.choice([2, 3, 4, 5, 6, 7])) for _ in range(n)]
    run_cases(ctx, res, cases, ctx.scale(110, 200), "random")
    hr = ctx.sub_rng("corr-history")
    run_histories(ctx, res, corner_histories() + [gen_history(hr, hr.choice([2, 3, 4, 5])) for _ in range(ctx.scale(120, 1500))])
    if ctx.thorough:
        run_cases(ctx, res, list(exhaustive_cases()), None, "exhaustive", hops_full=True, judge=True)
        _STATE["exhaustive_judged"] = True
        ctx.notes.append("the property oracle judged the implementation's answers of the exhaustive family inside the correspondence pass")
        ctx.notes.append("correspondence ran every graph on <= 4 nodes over 2 relations x 2 classes up to isomorphism, all queries")


# --------------------------------------------------------------------------
# the property itself, on the implementation


# the documented domains of the gated helpers (the harness's own copy; the model's comes from the translator)
HELPER_DOMAIN = {"linkcps": ("Link", "NetworkService"), "childcps": ("ConnectionPoint",),
                 "nodecps": ("NetworkNode", "Component", "CompositeNode")}


def classify_extra_pair(view, n, q, m, k):
    _, _, r1, c1, r2, c2 = q
    if m not in view.cls or k not in view.cls:
        return "node-not-in-graph"
    if view.r(n, m) is None:
        return "first-hop-not-adjacent"
    if view.r(n, m) != r1:
        return "first-hop-wrong-relation"
    if view.cls.get(m) != c1:
        return "first-hop-wrong-class"
    if view.r(m, k) is None:
        return "second-hop-not-adjacent"
    if view.r(m, k) != r2:
        return "second-hop-wrong-relation"
    if view.cls.get(k) != c2:
        return "second-hop-wrong-class"
    if k == n:
        return "start-node-returned"
    return "unexplained"


def check_query(view, case, q, rep, res, cc=None):
    """Evaluate the property on one answer of the implementation.  Only queries whose nodes exist are judged."""
    op = q[0]
    cc = cc or {"graphs": case["graphs"], "ops": case["ops"], "target": case["target"], "query": q,
                "backend": case.get("backend", "shared")}

    def bad(sig, what, **kw):
        res.violation("C06:" + sig, what, cc, **kw)
    if op == "fn":
        n, r, c = q[1:]
        if n not in view.cls:
            return
        exp = sorted(m for m in view.adj[n] if view.r(n, m) == r and view.cls[m] == c)
        if rep[0] != "ok":
            return bad("first_neighbor:raises:" + rep[1], "get_first_neighbor raised on an existing node", expected=exp, observed=rep)
        got = rep[1]
        if len(set(got)) != len(got):
            bad("first_neighbor:duplicate", "a neighbour is returned twice", expected=exp, observed=got)
        for m in sorted(set(got) - set(exp)):
            why = ("not-in-graph" if m not in view.cls else "not-adjacent" if view.r(n, m) is None
                   else "wrong-relation" if view.r(n, m) != r else "wrong-class")
            bad("first_neighbor:extra:" + why, "a node that is not a %s-neighbour of class %s is returned" % (r, c), expected=exp, observed=sorted(got))
        if set(exp) - set(got):
            bad("first_neighbor:missing", "a neighbour of the requested relation and class is not returned", expected=exp, observed=sorted(got))
    elif op == "two":
        n, r1, c1, r2, c2 = q[1:]
        if n not in view.cls:
            return
        exp = sorted([m, k] for m in view.adj[n] if view.r(n, m) == r1 and view.cls[m] == c1
                     for k in view.adj[m] if view.r(m, k) == r2 and view.cls[k] == c2 and k != n)
        if rep[0] != "ok":
            return bad("two_hop:raises:" + rep[1], "get_first_and_second_neighbor raised on an existing node", expected=exp, observed=rep)
        got = sorted(rep[1])
        if len({tuple(x) for x in got}) != len(got):
            bad("two_hop:duplicate", "a pair is returned twice", expected=exp, observed=got)
        for m, k in got:
            if [m, k] not in exp:
                bad("two_hop:extra:" + classify_extra_pair(view, n, q, m, k),
                    "a pair not reached by %s/%s then %s/%s is returned" % (r1, c1, r2, c2), expected=exp, observed=got)
        for m, k in exp:
            if [m, k] not in got:
                # the one way the as-written drop list loses a pair: the first-hop node is put on the drop list and is
                # its own second-hop neighbour (self-loop)
                bad("two_hop:missing" + (":self-loop-second-hop" if m == k else ""),
                    "a pair reached by the two relations/classes is not returned", expected=exp, observed=got)
    elif op == "sp":
        a, z, rel = q[1:]
        if a not in view.cls or z not in view.cls:
            return
        paths = simple_paths(view, a, z, rel)
        best = min((len(p) for p in paths), default=0)
        if rep[0] != "ok":
            other = rel is not None and any(r != rel for r in view.rel.values())
            return bad("shortest_path:raises:%s:%s" % (rep[1], "other-relation-present" if other else "plain"),
                       "get_nodes_on_shortest_path raised although both end nodes exist", expected={"length": best}, observed=rep)
        p = rep[1]
        if not p:
            if best:
                bad("shortest_path:empty-although-reachable", "empty list returned but a path exists", expected={"length": best}, observed=p)
        elif not path_ok(view, p, a, z, rel):
            bad("shortest_path:not-a-path" + (":relation" if rel is not None and path_ok(view, p, a, z) else ""),
                "the result is not a path between the end nodes over the requested relation", expected={"length": best}, observed=p)
        elif len(p) != best:
            bad("shortest_path:not-minimal", "a shorter path exists", expected={"length": best}, observed=p)
    elif op == "hops":
        a, z, hops, cut = q[1:]
        if a not in view.cls or z not in view.cls:
            return
        good = [p for p in simple_paths(view, a, z) if hop_path_ok(view, p, a, z, hops, cut)]
        best = min((len(p) for p in good), default=0)
        if rep[0] != "ok":
            return bad("hops:raises:" + rep[1], "get_nodes_on_path_with_hops raised although both end nodes exist", expected={"length": best}, observed=rep)
        p = rep[1]
        if not p:
            if best:
                bad("hops:empty-although-exists", "empty list returned but a loop-free path with all hops exists", expected={"length": best}, observed=p)
        elif not path_ok(view, p, a, z):
            bad("hops:not-a-path", "the result is not a path between the end nodes", observed=p)
        elif len(set(p)) != len(p) or not induced_acyclic(view, p):
            bad("hops:not-loop-free", "the result has a cycle in its induced subgraph", observed=p)
        elif not all(h in p for h in hops):
            bad("hops:hop-missing", "a requested hop is not on the result", observed=p)
        elif len(p) != best:
            bad("hops:not-minimal", "a shorter loop-free path with all hops exists", expected={"length": best}, observed=p)
    elif op in ("peer", "nodecps", "linkcps", "childcps", "parent"):
        n = q[1]
        if n not in view.cls:
            return
        if op == "parent":
            cand = sorted(m for m in view.adj[n] if view.r(n, m) == q[2] and view.cls[m] == q[3])
            exp = cand[0] if len(cand) == 1 else None
            if rep != ["ok", exp]:
                bad("get_parent:" + ("raises:" + rep[1] if rep[0] == "err" else "wrong"), "get_parent is not the unique neighbour of that relation/class", expected=exp, observed=rep)
            return
        gate = HELPER_DOMAIN.get(op)
        if gate is not None and view.cls.get(n) not in gate:
            # outside the helper's domain ("Node type is not ..."): the documented answer is the query exception
            if rep != ["err", "query"]:
                bad("%s:outside-domain:%s" % (op, "answers" if rep[0] == "ok" else "raises:" + rep[1]),
                    "derived helper asked about a node of class %r, which is not one of %s: PropertyGraphQueryException expected"
                    % (view.cls.get(n), list(gate)), expected=["err", "query"], observed=rep)
            return
        r1, c1, r2, c2 = {"peer": ("connects", "Link", "connects", "ConnectionPoint"),
                          "nodecps": ("has", "NetworkService", "connects", "ConnectionPoint")}.get(op, (None,) * 4)
        if r1:
            exp = sorted(k for m in view.adj[n] if view.r(n, m) == r1 and view.cls[m] == c1
                         for k in view.adj[m] if view.r(m, k) == r2 and view.cls[k] == c2 and k != n)
            if rep[0] == "ok":
                # multiset comparison: one occurrence per (first-hop node, second-hop node) pair
                from collections import Counter
                co, ce = Counter(rep[1]), Counter(exp)
                for k in sorted(co):
                    if co[k] > ce[k]:
                        via = [m for m in view.adj[n] if view.r(n, m) == r1 and view.cls[m] == c1 and k in view.adj[m]
                               and view.cls[k] == c2 and k != n and view.r(m, k) != r2]
                        bad("%s:extra:%s" % (op, "second-hop-wrong-relation" if len(via) >= co[k] - ce[k] else "unexplained"),
                            "derived helper returns a node whose second edge is not a %s edge" % r2, expected=exp, observed=sorted(rep[1]))
                if any(co[k] < ce[k] for k in ce):
                    bad("%s:missing" % op, "derived helper result lacks a node of its definition", expected=exp, observed=sorted(rep[1]))
                return
        else:
            exp = sorted(m for m in view.adj[n] if view.r(n, m) == "connects" and view.cls[m] == "ConnectionPoint")
        if rep[0] != "ok":
            return bad("%s:raises:%s" % (op, rep[1]), "derived helper raised", expected=exp, observed=rep)
        if sorted(rep[1]) != exp:
            extra = [k for k in rep[1] if k not in exp]
            bad("%s:%s" % (op, "extra" if extra else "missing"), "derived helper result differs from its definition", expected=exp, observed=sorted(rep[1]))


# --------------------------------------------------------------------------
# query histories: several wrapper objects of the same graph id, mutations between queries, other graphs in between.
# Contract: a query answers from the store as it is now - whatever wrapper asks, whatever wrapper mutated.


class MView:
    """mutable harness view of one graph id: a window on the Store all graphs of the history share"""

    def __init__(self, store, g):
        self.store, self.g = store, g

    @property
    def nodes(self):
        return self.store.nodes(self.g)          # [(id, cls)]

    @property
    def edges(self):
        return self.store.links(self.g)          # [(a, rel, b)] one per unordered pair, insertion order

    def add_node(self, i, c):
        self.store.add_node(self.g, i, c)

    def add_link(self, a, r, b):
        self.store.add_link(self.g, a, r, b)

    def del_node(self, i):
        self.store.del_node(self.g, i)

    def ids(self):
        return [i for i, _ in self.nodes]

    def view(self):
        return View(self.nodes, self.edges)


def make_mviews(n):
    st = Store()
    return [MView(st, g) for g in range(n)]


def rand_query(mv, rels, clss, rng, foreign):
    ids = mv.ids()
    n = lambda: rng.choice(ids) if ids and rng.random() < 0.9 else rng.choice(["nope", "nope"] + related_names(ids)[:4])
    R, C = list(rels), list(clss)
    k = rng.random()
    if k < 0.22:
        return ["fn", n(), rng.choice(R), rng.choice(C)]
    if k < 0.55:
        return ["two", n(), rng.choice(R), rng.choice(C), rng.choice(R), rng.choice(C)]
    if k < 0.75:
        return ["sp", n(), n(), rng.choice([None] + R)]
    if k < 0.95:
        a, z = n(), n()
        hs = []
        if a in ids and z in ids and rng.random() < 0.7:
            hs = rng.choice(special_hop_lists(mv.view(), a, z, ids, list(foreign), rng))
        return ["hops", a, z, hs, rng.choice([100, 100, 100, 2, 3])]
    return ["parent", rng.choice(ids) if ids else "nope", rng.choice(R[:2]), rng.choice(C)] if ids else ["fn", "nope", R[0], C[0]]


def rand_mutation(mv, w, rels, clss, rng, fresh_id, near=None):
    """A mutation step through wrapper w on the graph viewed by mv; `near`: prefer to touch this node's neighbourhood."""
    ids = mv.ids()
    k = rng.random()
    if k < 0.2 or len(ids) < 2:
        return ["n", w, fresh_id, rng.choice(clss)]
    if k < 0.85:
        a = near if near in ids and rng.random() < 0.7 else rng.choice(ids)
        if mv.edges and rng.random() < 0.35:
            cand = [e for e in mv.edges if a in (e[0], e[2])] or mv.edges
            x, r, y = rng.choice(cand)                       # re-add an existing link with another relation
            return ["l", w, y, rng.choice([q for q in rels if q != r] or rels), x]
        b = rng.choice(ids)
        if a == b and rng.random() < 0.8:
            b = rng.choice([i for i in ids if i != a])
        return ["l", w, a, rng.choice(rels), b]
    cand = [i for i in ids if i != near] or ids
    return ["d", w, rng.choice(cand)] if len(ids) > 2 else ["n", w, fresh_id, rng.choice(clss)]


def rand_cross(mvs, g, rng):
    """a merge_nodes / re-labelling step between graph g and another graph of the (shared) store, or None"""
    h = rng.choice([x for x in range(len(mvs)) if x != g])
    if rng.random() < 0.5:
        g, h = h, g
    gi, hi = mvs[g].ids(), set(mvs[h].ids())
    common = [i for i in gi if i in hi]
    only = [i for i in gi if i not in hi]
    if common and (rng.random() < 0.75 or not only):
        return g, ["m", None, rng.choice(common), h]
    if only and len(gi) > 1:
        return g, ["v", None, rng.choice(only), h]
    return None


def apply_step(mvs, wrappers, st):
    mv = mvs[wrappers[st[1]]]
    if st[0] == "n":
        mv.add_node(st[2], st[3])
    elif st[0] == "l":
        mv.add_link(st[2], st[3], st[4])
    elif st[0] == "d":
        mv.del_node(st[2])
    elif st[0] == "m":
        mv.store.merge(mv.g, st[2], st[3])
    elif st[0] == "v":
        mv.store.move(mv.g, st[2], st[3])


def gen_history(rng, max_nodes):
    rels, clss, fim = pick_alphabet(rng)
    ng = rng.choice([1, 2, 2, 3])
    graphs = graph_ids(rng, ng, "h")
    namer = IdNamer(rng)
    # two or three wrapper objects for graph 0, one or two for the others
    wrappers = [0, 0] + ([0] if rng.random() < 0.3 else [])
    for g in range(1, ng):
        wrappers += [g] * rng.choice([1, 2])
    wof = {g: [w for w, x in enumerate(wrappers) if x == g] for g in range(ng)}
    mvs = make_mviews(ng)
    disjoint = rng.random() < 0.25
    steps = []
    counter = [0]

    def fresh_id():
        counter[0] += 1
        return namer("m%d" % counter[0])

    def push(st):
        steps.append(st)
        apply_step(mvs, wrappers, st)
    # initial graphs, built through randomly chosen wrappers, interleaved
    init = []
    for g in range(ng):
        nodes, links = namer.graph(gen_graph(rng, max_nodes, rels, clss, "fim" if fim and rng.random() < 0.6 else rng.choice(["sparse", "dense", "chain"])))
        init.append([["n", None, i, c] for i, c in nodes] + [["l", None, a, r, b] for a, r, b in links])
    idx = [0] * ng
    live = [g for g in range(ng) if init[g]]
    while live:
        g = rng.choice(live)
        st = list(init[g][idx[g]])
        st[1] = rng.choice(wof[g])
        push(st)
        idx[g] += 1
        if idx[g] == len(init[g]):
            live.remove(g)

    def foreign(g):
        mine = set(mvs[g].ids())
        return sorted({i for k, m in enumerate(mvs) if k != g for i in m.ids()} - mine)
    for _ in range(rng.randint(4, 9)):
        g = 0 if rng.random() < 0.7 else rng.randrange(ng)
        ws = wof[g]
        w = rng.choice(ws)
        q = rand_query(mvs[g], rels, clss, rng, foreign(g))
        push(["q", w, q])
        k = rng.random()
        if k < 0.15:
            continue
        # between the two askings: a mutation through another wrapper of the same graph (or the same one), possibly
        # queries / mutations on other graphs of the store as well
        if ng > 1 and rng.random() < 0.4:
            og = rng.choice([x for x in range(ng) if x != g])
            if rng.random() < 0.5:
                push(["q", rng.choice(wof[og]), rand_query(mvs[og], rels, clss, rng, foreign(og))])
            else:
                push(rand_mutation(mvs[og], rng.choice(wof[og]), rels, clss, rng, fresh_id()))
        if ng > 1 and not disjoint and rng.random() < 0.3:
            # an edge that crosses graphs (shared store only): merge_nodes on a common id, or a node re-labelled with another graph id
            cr = rand_cross(mvs, g, rng)
            if cr:
                cr[1][1] = rng.choice(wof[cr[0]])
                push(cr[1])
        others = [x for x in ws if x != w]
        mw = rng.choice(others) if others and rng.random() < 0.75 else w
        for _ in range(rng.choice([1, 1, 2])):
            push(rand_mutation(mvs[g], mw, rels, clss, rng, fresh_id(), near=q[1]))
        if q[1] in mvs[g].ids() or rng.random() < 0.3:
            push(["q", w, q])
        if rng.random() < 0.3:
            push(["q", rng.choice(ws), rand_query(mvs[g], rels, clss, rng, foreign(g))])
    case = {"kind": "history", "graphs": graphs, "wrappers": wrappers, "steps": steps, "alphabet": [rels, clss], "ids": namer.style}
    if disjoint:
        case["backend"] = "disjoint"
    return case


def corner_histories():
    a2 = [ABS_REL[:2], ABS_CLS[:2]]
    base = [["n", 0, "a", "A"], ["n", 0, "b", "B"], ["n", 0, "c", "A"], ["n", 0, "d", "B"],
            ["l", 0, "a", "r", "b"], ["l", 0, "b", "r", "c"]]
    q2 = ["two", "a", "r", "B", "r", "A"]
    return [
        # ask, add a link through the *other* wrapper, ask again through the first
        {"kind": "history", "graphs": ["h0"], "wrappers": [0, 0], "alphabet": a2,
         "steps": base + [["q", 0, q2], ["n", 1, "e", "A"], ["l", 1, "b", "r", "e"], ["q", 0, q2], ["q", 1, q2]]},
        # the same through one wrapper, and a deletion through the other one
        {"kind": "history", "graphs": ["h0"], "wrappers": [0, 0], "alphabet": a2,
         "steps": base + [["q", 0, q2], ["l", 0, "b", "r", "d"], ["q", 0, q2], ["d", 1, "c"], ["q", 0, q2],
                          ["q", 0, ["fn", "b", "r", "A"]], ["q", 0, ["sp", "a", "c", None]], ["q", 0, ["hops", "a", "b", ["b", "b"], 100]]]},
        # a second graph with the same ids changes in between; answers on the first must not move
        {"kind": "history", "graphs": ["h0", "h1"], "wrappers": [0, 0, 1], "alphabet": a2,
         "steps": base + [["n", 2, "a", "A"], ["n", 2, "b", "B"], ["n", 2, "c", "A"], ["q", 0, q2], ["l", 2, "a", "r", "b"],
                          ["l", 2, "b", "r", "c"], ["q", 1, q2], ["q", 2, q2], ["l", 1, "a", "s", "b"], ["q", 0, q2], ["q", 2, q2],
                          ["q", 0, ["sp", "a", "c", "r"]], ["q", 2, ["sp", "a", "c", "r"]], ["q", 0, ["hops", "a", "c", ["b"], 100]]]},
        # relation-restricted shortest path must not prune what later queries see (any backend)
        {"kind": "history", "graphs": ["h0"], "wrappers": [0, 0], "alphabet": a2, "backend": "disjoint",
         "steps": base + [["l", 0, "c", "s", "d"], ["q", 0, ["sp", "a", "d", None]], ["q", 0, ["sp", "a", "c", "r"]],
                          ["q", 1, ["sp", "a", "d", None]], ["q", 0, ["fn", "c", "s", "B"]], ["l", 1, "a", "s", "d"], ["q", 0, ["sp", "a", "d", None]]]},
    ]


def run_history(case):
    """Execute a history on the implementation.  Returns [(step index, graph idx, View now, query, answer through the wrapper,
    answer through a brand-new wrapper object, mutated-since tag)]."""
    from fim.graph.networkx_property_graph import NetworkXPropertyGraph, NetworkXGraphImporter, NetworkXGraphStorage
    if case.get("backend") == "disjoint":
        from fim.graph.networkx_property_graph_disjoint import (NetworkXPropertyGraphDisjoint as G, NetworkXGraphImporterDisjoint,
                                                                  NetworkXGraphStorageDisjoint)
        NetworkXGraphStorageDisjoint.storage_instance = None
        imp = NetworkXGraphImporterDisjoint()
    else:
        G = NetworkXPropertyGraph
        NetworkXGraphStorage.storage_instance = None
        imp = NetworkXGraphImporter()
    wrappers = case["wrappers"]
    ws = [G(graph_id=case["graphs"][g], importer=imp) for g in wrappers]
    mvs = make_mviews(len(case["graphs"]))
    last_mut = {}            # graph idx -> wrapper index of the latest mutation since ... (per asking wrapper)
    dirty = {}               # (asking wrapper) -> set of wrappers that mutated its graph since it last asked
    out = []
    for k, st in enumerate(case["steps"]):
        w = st[1]
        g = wrappers[w]
        if st[0] == "q":
            q = st[2]
            rep = impl_query(ws[w], q)
            fresh = impl_query(G(graph_id=case["graphs"][g], importer=imp), q)
            since = dirty.get(w, set())
            tag = ("no-mutation-since" if not since else "after-mutation-through-other-wrapper" if since - {w}
                   else "after-own-mutation")
            dirty[w] = set()
            v = mvs[g].view()
            v.crossing = {x[0] for x in mvs[g].store.crossing(g)}
            out.append((k, g, v, q, rep, fresh, tag))
        else:
            try:
                if st[0] == "n":
                    ws[w].add_node(node_id=st[2], label=st[3], props={"Name": "name-" + st[2]})
                elif st[0] == "l":
                    ws[w].add_link(node_a=st[2], rel=st[3], node_b=st[4])
                elif st[0] == "m":
                    ws[w].merge_nodes(node_id=st[2], other_graph=G(graph_id=case["graphs"][st[3]], importer=imp))
                elif st[0] == "v":
                    ws[w].update_node_property(node_id=st[2], prop_name="GraphID", prop_val=case["graphs"][st[3]])
                else:
                    ws[w].delete_node(node_id=st[2])
            except Exception as e:      # generated histories only contain valid mutations
                out.append((k, g, mvs[g].view(), ["mutation"] + list(st), ["err", err_kind(e)], ["ok", None], "mutation-failed"))
            apply_step(mvs, wrappers, st)
            for x, gx in enumerate(wrappers):
                if gx == g or (st[0] in ("m", "v") and gx == st[3]):
                    dirty.setdefault(x, set()).add(w)
    return out


def hist_payload(case, k):
    return {"kind": "history", "graphs": case["graphs"], "wrappers": case["wrappers"], "steps": case["steps"][:k + 1],
            "alphabet": case["alphabet"], "backend": case.get("backend", "shared"), "query": case["steps"][k][-1] if case["steps"][k][0] == "q" else None}


def same_answer(view, q, a, b):
    if a[0] != b[0]:
        return False
    if a[0] == "err":
        return a[1] == b[1]
    if q[0] in ("sp", "hops"):
        return len(a[1]) == len(b[1])        # which of several shortest paths comes back is not part of the contract
    return canon_reply(q, a) == canon_reply(q, b)


def judge_history(case, res, results=None):
    """The oracle on one history: the fresh-wrapper answer is judged against the view as it is now (check_query), and the
    answer through the long-lived wrapper must be the same answer."""
    results = results if results is not None else run_history(case)
    for k, g, view, q, rep, fresh, tag in results:
        res.evaluations += 1
        cc = hist_payload(case, k)
        if tag == "mutation-failed":
            res.violation("C06:history:mutation-raises:" + rep[1], "a valid add_node/add_link/delete_node of the history raised", cc, observed=rep)
            continue
        res.count("history:" + tag)
        if nontrivial(view, q, rep) and tag != "no-mutation-since":
            res.nontrivial.add(canon(["history", view.canon(), q, tag]))
        check_query(view, None, q, fresh, res, cc=cc)
        if not same_answer(view, q, rep, fresh):
            res.violation("C06:history:%s:differs-from-fresh-wrapper:%s" % (q[0], tag),
                          "the answer through a long-lived wrapper object differs from the answer of a fresh wrapper on the same store",
                          cc, expected=fresh, observed=rep)
    return results


def run_histories(ctx, res, cases):
    """Correspondence on histories: every answer through the long-lived wrapper against the model on the view as it is now."""
    lines, meta = [], []
    for case in cases:
        results = run_history(case)
        for k, g, view, q, rep, fresh, tag in results:
            if tag == "mutation-failed":
                res.disagreements.append({"case": hist_payload(case, k), "impl": rep, "model": "valid mutation", "why": "mutation-raises"})
                continue
            lines.append(json.dumps(["g", [list(x) for x in view.nodes], [list(e) for e in sorted_edges(view)], [lean_query(q), ["wf"]]]))
            meta.append((case, k, view, q, rep, tag))
    replies = []
    for k in range(0, len(lines), 400):
        replies += LeanDriver("C06").run(lines[k:k + 400])
    for (case, k, view, q, rep, tag), rl in zip(meta, replies):
        m = json.loads(rl)
        res.evaluations += 1
        res.count("history-op:" + q[0])
        res.count("ids:" + case.get("ids", "plain"))
        for t in related_tags(view, q):
            res.count("related-name:history:" + t)
        res.count("history:" + tag)
        res.count("backend:" + case.get("backend", "shared"))
        if m[0] != "ok" or m[1][-1] != ["ok", True]:
            res.disagreements.append({"case": hist_payload(case, k), "impl": rep, "model": m, "why": "model-view"})
            continue
        if nontrivial(view, q, rep) and tag != "no-mutation-since":
            res.nontrivial.add(canon(["history", view.canon(), q, tag]))
        if getattr(view, "crossing", None):
            res.count("history:store:edges-crossing-out-of-the-queried-graph")
            if q[1] in view.crossing or (q[0] in ("sp", "hops") and q[2] in view.crossing):
                res.count("history:store:queried-node-has-crossing-edge")
        why = compare(view, q, rep, m[1][0])
        if why:
            res.disagreements.append({"case": hist_payload(case, k), "impl": rep, "model": m[1][0], "why": why + ":" + tag})
            _STATE["disagreements"].append(res.disagreements[-1]["case"])
    if meta:
        case, k, view, q, rep, tag = next((x for x in meta if x[5] == "after-mutation-through-other-wrapper"), meta[-1])
        res.sample({"history_steps": case["steps"][:k + 1][-6:], "wrappers": case["wrappers"], "answer": rep, "tag": tag})


def sorted_edges(view):
    out = []
    for e, r in view.rel.items():
        t = sorted(e)
        out.append([t[0], r, t[-1]])
    return out


def oracle_cases(ctx, res, cases, budget, tag, hops_full=False):
    rng = ctx.sub_rng("oracle-queries/" + tag)
    for case in cases:
        nodes, links = case_views(case)
        t = case["target"]
        view = View(nodes[t], links[t])
        rels, clss = case["alphabet"]
        qs = case.get("queries") or all_queries(view, rels, clss, rng, budget, hops_full, foreign_ids(nodes, t))
        try:
            gs = build_impl(case)
        except BuildFailed as b:
            res.evaluations += 1
            res.violation("C06:build:raises:" + b.kind, "a valid add_node/add_link of the case raised: the graph the queries are asked on cannot be built",
                          build_payload(case, b), observed=["err", b.kind])
            continue
        vc = None
        for q in qs:
            rep = impl_query(gs[t], q)
            res.evaluations += 1
            res.count("op:" + q[0])
            if nontrivial(view, q, rep):
                vc = vc or view.canon()
                res.nontrivial.add(canon([vc, q]))
            check_query(view, case, q, rep, res)


def corpus_histories():
    d = os.path.join(CORPUS_DIR, ID)
    out = []
    if os.path.isdir(d):
        for fn in sorted(os.listdir(d)):
            if fn.endswith(".json"):
                with open(os.path.join(d, fn)) as f:
                    c = json.load(f)
                c = c.get("case", c)
                if c.get("kind") == "history":
                    out.append(c)
    return out


def corpus_cases():
    d = os.path.join(CORPUS_DIR, ID)
    out = []
    if os.path.isdir(d):
        for fn in sorted(os.listdir(d)):
            if fn.endswith(".json"):
                with open(os.path.join(d, fn)) as f:
                    c = json.load(f)
                c = c.get("case", c)
                if c.get("kind") == "history":
                    continue
                if "query" in c:
                    c = dict(c, queries=[c["query"]])
                c.setdefault("alphabet", [ABS_REL[:2], ABS_CLS[:2]])
                out.append(c)
    return out


def oracle(ctx, res, n=None, budget=None, hist_n=None):
    oracle_cases(ctx, res, corpus_cases(), None, "corpus")
    oracle_cases(ctx, res, both_backends(corner_cases()), None, "corner", hops_full=True)
    rng = ctx.sub_rng("oracle")
    n = n or ctx.scale(250, 2500)
    cases = [gen_case(rng, rng.choice([2, 3, 4, 5, 6, 7])) for _ in range(n)]
    oracle_cases(ctx, res, cases, budget or ctx.scale(150, 250), "random")
    hr = ctx.sub_rng("oracle-history")
    for hc in corpus_histories() + corner_histories() + [gen_history(hr, hr.choice([2, 3, 4, 5, 6])) for _ in range(hist_n or ctx.scale(250, 3000))]:
        judge_history(hc, res)
    for v in _STATE["judged"].violations:        # verdicts collected during the exhaustive correspondence pass
        res.violation(v["signature"], v["what"], v["case"], expected=v.get("expected"), observed=v.get("observed"))
    if ctx.thorough and not _STATE["exhaustive_judged"]:
        oracle_cases(ctx, res, exhaustive_cases(), None, "exhaustive", hops_full=True)
        ctx.notes.append("oracle ran every graph on <= 4 nodes over 2 relations x 2 classes up to isomorphism (and <= 3 nodes with self-loops), all queries")
    res.sample({"oracle": "set comprehension over the harness's own node/edge lists; all simple paths by plain recursion; "
                          "validity + minimal length for paths", "cases": n})


def judge_payload(case, r):
    """the property oracle on one recorded case (static case with its query, or a history up to its last step)"""
    case = dict(case)
    if case.get("kind") == "history":
        results = run_history(case)
        judge_history(case, r, [x for x in results if x[0] == len(case["steps"]) - 1])
        return results
    case.setdefault("alphabet", [ABS_REL[:2], ABS_CLS[:2]])
    nodes, links = case_views(case)
    t = case["target"]
    view = View(nodes[t], links[t])
    try:
        gs = build_impl(case)
    except BuildFailed as b:
        r.violation("C06:build:raises:" + b.kind, "a valid operation of the case raised", build_payload(case, b), observed=["err", b.kind])
        return None
    q = case["query"]
    if q == ["build"]:
        return None
    rep = impl_query(gs[t], q)
    r.evaluations += 1
    check_query(view, case, q, rep, r)
    return rep


def search(ctx, res, broken):
    # the cases on which implementation and model disagreed come first: where the implementation's answer breaks the
    # property itself, that is the concrete failing input
    seen = set()
    for c in _STATE["disagreements"]:
        k = canon(c)
        if k in seen or len(seen) >= 400:
            continue
        seen.add(k)
        try:
            judge_payload(c, res)
        except Exception:
            pass
    if res.violations:
        return
    oracle_cases(ctx, res, corpus_cases(), None, "corpus")
    oracle_cases(ctx, res, exhaustive_cases(max_n=ctx.scale(3, 4), loops_n=ctx.scale(2, 3), empty_n=ctx.scale(2, 3)), None, "exhaustive", hops_full=True)
    if not res.violations:
        oracle(ctx, res, n=ctx.scale(1500, 8000), budget=300, hist_n=ctx.scale(2000, 10000))


def replay(ctx, payload):
    case = dict(payload["case"])
    if case.get("kind") == "history":
        r = Result()
        results = run_history(case)
        judge_history(case, r, [x for x in results if x[0] == len(case["steps"]) - 1])
        if results:
            print("   last step %s -> through the wrapper %s, fresh wrapper %s" % (case["steps"][-1], results[-1][4], results[-1][5]))
        for v in r.violations:
            print("  ", v["signature"], v["what"])
        return bool(r.violations)
    case.setdefault("alphabet", [ABS_REL[:2], ABS_CLS[:2]])
    nodes, links = case_views(case)
    t = case["target"]
    view = View(nodes[t], links[t])
    r = Result()
    try:
        gs = build_impl(case)
    except BuildFailed as b:
        print("   building the case: %s" % b)
        return True
    q = case["query"]
    if q == ["build"]:
        print("   the case builds")
        return False
    rep = impl_query(gs[t], q)
    check_query(view, case, q, rep, r)
    print("   query %s -> %s" % (q, rep))
    for v in r.violations:
        print("  ", v["signature"], v["what"])
    return bool(r.violations)
