"""C11 - authorization and accounting attributes cover every resource, in any order."""
import itertools
import json
import os

from core import LeanDriver, err_kind, canon, CORPUS_DIR
from gen import authz as gen_authz

ID = "C11"
GENERATORS = [gen_authz.generate]
LEAN_MODULES = ["FimVerif.Proofs.C11"]
P = "FimVerif.C11."
THEOREMS = [P + t for t in (
    "authz_complete_sound_order_independent", "authz_claims", "authz_paths_agree_with_c10_validate",
    "inferSite_is_c10_recordedSite", "validate_records_inferred_sites", "roundtrip_hypothesis_from_c01",
    "listed_types_are_site_limited",
    "collect_spec", "complete", "complete_named", "sound", "perm_invariant", "keys_exact", "keys_perm_invariant",
    "mirror_of_related_port_name_listed", "vm_without_capacities_counted", "shared_slivers_unchanged",
    "shared_slivers_legacy_counterexample",
    "table_total", "ids_injective", "pdp_total", "pdp_request_wellformed", "pdp_no_extra",
    "collected_keys", "collected_in_resource_category",
    "log_counts", "log_perm_invariant", "inferSite_idem", "asm_eq_topo", "asm_inference_matters",
    "legacy_mirror_counterexample",
    "value_objects_private", "live_slice_is_stored", "unwritten_element_keeps_its_value", "collect_unchanged_by_reads_and_pokes",
    "read_modify_write", "memo_reads_counterexample",
    "views_live", "presented_after_history", "collect_after_history", "kept_view_counterexample")]
TRUSTED_BASE = [
    "gen/authz.py: behavioural probes of ResourceAuthZAttributes on stand-in containers of real slivers (one node of every "
    "NodeType, one service of every ServiceType with / without site / with its mirrored port in the slice, 100 "
    "mirrored-port x in-slice-port name pairs, the PDP request of a fresh collector) and the class attributes "
    "ATTRIBUTE_TYPES_AND_CATEGORIES / string constants read from the imported class; an answer the model has no parameter "
    "for (two overriding node types, an exemption that is not exact equality of port names, ...) is an extraction error",
    "Model/Authz.lean mirrors by hand the control flow of ResourceAuthZAttributes._collect_attributes_from_{node_sliver,"
    "ns_sliver,topo}, transform_to_pdp_request and LogCollector._collect_attributes_from_{node_sliver,ns_sliver,"
    "component_sliver,topo}; python dict = insertion-ordered association list, defaultdict read = key creation; "
    "checked differentially on every run",
    "the named hypotheses of authz_complete_sound_order_independent: H_present (what topo.nodes / network_services / "
    "facilities / interface_list / get_sliver() present of a graph is a parameter `present`, C02/C07 territory; checked on "
    "real topologies against the generator's own description), H_roundtrip (reduced by C01's roundtrip_import_direct to "
    "'present does not read internal node ids', roundtrip_hypothesis_from_c01), H_validate_records_sites (discharged for "
    "C10's model of validate() by validate_records_inferred_sites), H_valid (validate() succeeds; C10 decides when)",
    "the ASM path is modelled as recordSites (the site inference of NetworkService.__validate_nstype_constraints: exactly one "
    "owner site, none declared; proved equal to C10's recordedSiteOf) followed by the same fold; owner sites of a service's "
    "interfaces are supplied by the harness from the slice description",
    "'in slice' for a mirrored port is the code's definition: the local_name label of the first peer of an interface in "
    "topo.interface_list (ports of nodes and components; not sub-interfaces, not facility ports), compared exactly; a "
    "mirror of a sub-interface's service port is therefore listed (the safe side), modelled the same way",
    "LogCollector 'sites'/'facilities' are Python sets, modelled as duplicate-free lists and compared sorted; "
    "LogCollector.__str__ (set iteration order) is not modelled",
    "the model's collection is a function of the slice as presented; that what a LIVE topology object presents after an edit "
    "(get_sliver() of a node whose components changed, the lookup views) is the slice as it is now - nothing kept from an earlier "
    "collection - is H_present over time: checked by the edit histories (collect, edit, collect again on the same object, each "
    "stage against the harness's own description of the edited slice and against the model serialised from it), not proved; "
    "the one generated flag in it, `viewsLive`, is a behavioural probe on ONE real two-node topology that grows and shrinks on the "
    "nodes it has (gen/authz.py `_views_live`); Model/Authz.lean `View` (a topology object = the stored slice + what an earlier read "
    "may have kept) carries presented_after_history for that flag",
    "value objects (Model/Authz.lean `VObj`): an element stores a value, a read hands out an object of its own, a write stores the "
    "object's value at that moment; `readsFresh` is a behavioural probe on a real two-node topology (gen/authz.py), the step "
    "function is checked differentially on real topologies (`vobj` requests: reads through the attribute / get_property / "
    "get_sliver, writes through the attribute / set_property / set_properties, node capacities only); bandwidths and labels are "
    "covered by the edit histories (read - change in place - write back routes, objects changed and not written back), not by "
    "the differential stream; all-zero capacities are stored as no capacities and are outside the stream",
]
ASSUMPTIONS = [
    "a topology *object* handed to the collectors has been validated (Topology.validate() records the site of single-site "
    "services; the collector's own comment requires it); a serialised model need not be - the ASM path validates itself, "
    "modelled as recordSites and exercised on models serialised before validate() ever ran; validate() is assumed to "
    "succeed (H_valid; C10 decides when it does); element names are unique (topo.nodes / network_services are dictionaries "
    "by name) and satisfy the sliver-name pattern ^[\\w\\-\\.]{2,255}$",
    "one collector object per collection (collect_resource_attributes on a fresh ResourceAuthZAttributes / LogCollector)",
]
RULE = ("slices of 0..7 nodes/services/facilities with several PortMirror/FABNetv4Ext/FABNetv6Ext services per site, in-slice and "
        "outside mirrored ports, unset/empty sites, VMs with capacities / allocation / instance-type hint only / nothing; ALL names "
        "(ports, sites, nodes, services, facilities) drawn from families of string-related names (proper prefix, sub-interface and "
        "digit suffix, substring, case variant, empty, non-ASCII); exhaustive small scope first: every ordered pair of the port "
        "family as (in-slice port, mirrored port), every ordered pair of the site family, every pair and the triple of listed "
        "service kinds at one site; every permutation of the stored order for <= 5 elements, 24 random ones beyond; run through "
        "the real fold on stand-in topology containers of real slivers, through the public sliver dispatch, and through real "
        "ExperimentTopology objects (related names for sites, nodes, components, service-port labels and mirrored ports; services "
        "on sub-interfaces; nodes without components; several creation orders; service sites declared or left to validate()) "
        "collected three ways: validated object, ASM serialised after validate(), ASM serialised before it; edit histories on ONE "
        "topology object (component attached / detached with and without its own service, node / service / facility / switch added "
        "and removed, node renamed / resized / moved, service bandwidth and service-port label changed; 2 deterministic histories "
        "+ random ones of 5..8 edits): after the build and after EVERY edit validate() and a collection through every path "
        "(topology object, Node / service / component handles, model serialised before and after validate()), each judged "
        "against the description of the slice as it is at that stage and run through the Lean model; sizes / bandwidths / labels are "
        "edited with a new object or by read - change in place - write back (attribute, get_sliver; all fields or one), often to "
        "the text ANOTHER element carries, and objects read from or handed to the slice are changed without being written back; "
        "value-object histories on slices of 1..4 mostly equally sized VMs (3 deterministic + 150 / 1500 random of 3..11 "
        "operations: read x3 routes, new, change in place, write x3 routes, unset) against a reference semantics and the Lean model; "
        "non-trivial = >= 2 services needing a site attribute; distinct by (canonical slice in stored order, entry point)")

RESOURCE_CATEGORY = "urn:oasis:names:tc:xacml:3.0:attribute-category:resource"
LISTED = ["PortMirror", "FABNetv4Ext", "FABNetv6Ext"]
# every other member of ServiceType (FABNetv4 / FABNetv6 are proper prefixes of two listed type names)
OTHER_ST = ["L2Bridge", "L2STS", "L2PTP", "FABNetv4", "FABNetv6", "OVS", "P4", "VLAN", "L3VPN", "MPLS", "L2Path", "L2Multisite"]
CTYPES = ["GPU", "SmartNIC", "SharedNIC", "FPGA", "NVME", "Storage"]
NTYPES = ["VM", "VM", "VM", "Switch", "Server", "Container", "NAS", "Facility"]

# Name families.  Every family is built so that its members are related as strings - proper prefix, extension by a
# sub-interface / digit suffix, substring, case variant, surrounding blank, empty string, non-ASCII - because the class of
# breakage to be seen is "a test written with startswith / in / find / lower() where exact equality is meant" (port names,
# site names, element names).  The generators draw ONLY from these families, so related names meet in most slices.
PORT_FAM = ["HundredGigE0/0/0/1", "HundredGigE0/0/0/10", "HundredGigE0/0/0/1.100", "HundredGigE0/0/0/", "hundredgige0/0/0/1",
            "p1", "p10", "p", "1p", "P1", "p1 ", "", "\u043f\u043e\u0440\u04421"]
SITE_FAM = ["A", "AB", "ABC", "B", "a", "A ", "RENC", "RENC1", "ENC", "UNKNOWN-SITE", "UNKNOWN", "\u00c4", "\u30b5\u30a4\u30c8",
            "\U0001d518"]
NODE_FAM = ["n1", "n10", "n11", "nn", "N1", "n1-c1", "n2", "n1.1", "F1", "\u00f11"]      # sliver names: ^[\w\-\.]{2,255}$
SVC_FAM = ["s1", "s10", "s11", "ss", "S1", "s1-ns", "s2", "s1.1", "n1", "\u015b1"]
FAC_FAM = ["F1", "F10", "FF", "f1", "F1-ns", "\u04241"]
# the families shrunk to what the topology API and the GraphML writer accept unchanged (no blanks at the ends, no '-')
T_PORT_FAM = ["HundredGigE0/0/0/1", "HundredGigE0/0/0/10", "HundredGigE0/0/0/1.100", "HundredGigE0/0/0/", "p1", "p10", "p", "P1"]
T_SITE_FAM = ["A", "AB", "ABC", "B", "a", "RENC", "RENC1", "ENC", "UNKNOWN-SITE", "\u00c4"]
T_NODE_FAM = ["n1", "n10", "n11", "nn", "N1", "n2"]
T_COMP_FAM = ["c1", "c10", "cc", "C1"]


def name_rel(a, b):
    """how string a relates to string b (the classes the generators are meant to cover; printed into the evidence)"""
    if a is None or b is None:
        return "none"
    if a == b:
        return "equal"
    if a == "" or b == "":
        return "empty"
    if b.startswith(a):
        return "proper-prefix-of"
    if a.startswith(b):
        return "extends"
    if a in b or b in a:
        return "substring"
    if a.lower() == b.lower():
        return "case-variant"
    return "unrelated"


def mirror_relations(sl):
    """for every PortMirror service of the slice: the closest relation of its mirrored port to an in-slice port"""
    inports = [d[0] for d in sl["ifaces"] if d]
    rank = ["equal", "extends", "proper-prefix-of", "case-variant", "substring", "empty", "none", "unrelated"]
    out = []
    for s in sl["svcs"]:
        if s["t"] == "PortMirror":
            rels = [name_rel(s["mp"], p) for p in inports] or ["no-inport"]
            out.append(min(rels, key=lambda r: rank.index(r) if r in rank else 99))
    return out


def site_relations(sl):
    sites = sorted({x["site"] for x in sl["nodes"] + sl["svcs"] if x["site"]})
    return sorted({name_rel(a, b) for a in sites for b in sites if a < b} - {"unrelated"})


def _short(key):
    return key.rsplit(":", 1)[-1]


# --------------------------------------------------------------------------
# slice description -> real slivers / stand-in topology container

def mk_node_sliver(n):
    from fim.slivers.network_node import NodeSliver, NodeType
    from fim.slivers.capacities_labels import Capacities
    from fim.slivers.attached_components import AttachedComponentsInfo, ComponentSliver, ComponentType
    s = NodeSliver()
    s.set_name(n["name"])
    s.set_type(NodeType[n["t"]])
    if n["site"] is not None:
        s.set_site(n["site"])
    if n.get("caps") is not None:
        s.set_capacities(Capacities(core=n["caps"][0], ram=n["caps"][1], disk=n["caps"][2]))
    if n.get("alloc") is not None:
        s.set_capacity_allocations(Capacities(core=n["alloc"][0], ram=n["alloc"][1], disk=n["alloc"][2]))
    if n.get("hints") is not None:
        from fim.slivers.capacities_labels import CapacityHints
        s.set_capacity_hints(CapacityHints(instance_type=n["hints"]))
    if n.get("comps") is not None:
        aci = AttachedComponentsInfo()
        for i, c in enumerate(n["comps"]):
            cs = ComponentSliver()
            cs.set_name("%s-c%d" % (n["name"], i))
            cs.set_type(ComponentType[c])
            aci.add_device(cs)
        s.attached_components_info = aci
    return s


def mk_ns_sliver(sv):
    from fim.slivers.network_service import NetworkServiceSliver, ServiceType
    from fim.slivers.capacities_labels import Capacities
    s = NetworkServiceSliver()
    s.set_name(sv["name"])
    s.set_type(ServiceType[sv["t"]])
    if sv["site"] is not None:
        s.set_site(sv["site"])
    if sv.get("bw") is not None:
        s.set_capacities(Capacities(bw=sv["bw"]))
    if sv.get("mp") is not None:
        s.set_mirror_port(sv["mp"])
    return s


class _El:
    def __init__(self, sliver, name):
        self._s, self.name = sliver, name

    def get_sliver(self):
        return self._s


class _Peer:
    def __init__(self, labels):
        self.labels = labels


class _If:
    def __init__(self, desc):
        self.desc = desc

    def get_peers(self):
        from fim.slivers.capacities_labels import Labels
        d = self.desc
        if d is None:
            return None
        if d == []:
            return [_Peer(None)]
        return [_Peer(Labels(local_name=d[0]) if d[0] is not None else Labels())]


class _Topo:
    """Stand-in for ExperimentTopology: the four views _collect_attributes_from_topo reads, over real slivers."""

    def __init__(self, sl):
        self.nodes = {n["name"]: _El(mk_node_sliver(n), n["name"]) for n in sl["nodes"]}
        self.network_services = {s["name"]: _El(mk_ns_sliver(s), s["name"]) for s in sl["svcs"]}
        self.facilities = {f: _El(None, f) for f in sl["facs"]}
        self.interface_list = tuple(_If(d) for d in sl["ifaces"])


def _authz_reply(az):
    attrs = [[k, list(v)] for k, v in az._attributes.items()]
    try:
        d = az.transform_to_pdp_request(as_json=False)
        j = json.loads(az.transform_to_pdp_request())
    except Exception as e:
        return ["err", err_kind(e)]
    pdp = [[c["CategoryId"], [[a["AttributeId"], a["DataType"], list(a["Value"])] for a in c["Attribute"]]]
           for c in d["Request"]["Category"]]
    return ["ok", {"attrs": attrs, "pdp": pdp}], d, j


def _log_reply(lc):
    a = lc._attributes
    return ["ok", {"vm": a["vm_count"], "cores": a["core_count"], "p4": a["p4_count"],
                   "nodes": [[c.core, c.ram, c.disk] for c in a["nodes"]],
                   "components": [[k, v] for k, v in a["components"].items()],
                   "services": [[t, bw] for t, bw in a["services"]],
                   "facilities": sorted(a["facilities"]), "sites": sorted(a["sites"])}]


def impl_authz(sl, entry="fold"):
    """entry 'fold': the real _collect_attributes_from_topo on a stand-in container; 'dispatch': the public
    collect_resource_attributes(source=<sliver>) for every sliver in stored order (no in-slice ports, no facilities)."""
    from fim.authz.attribute_collector import ResourceAuthZAttributes
    az = ResourceAuthZAttributes()
    try:
        if entry == "fold":
            az._collect_attributes_from_topo(_Topo(sl))
        else:
            for n in sl["nodes"]:
                az.collect_resource_attributes(source=mk_node_sliver(n))
            for s in sl["svcs"]:
                az.collect_resource_attributes(source=mk_ns_sliver(s))
    except Exception as e:
        return ["err", err_kind(e)], None, None
    r = _authz_reply(az)
    return r if isinstance(r, tuple) else (r, None, None)


def impl_log(sl, entry="fold"):
    from fim.logging.log_collector import LogCollector
    lc = LogCollector()
    try:
        if entry == "fold":
            lc._collect_attributes_from_topo(_Topo(sl))
        else:
            for n in sl["nodes"]:
                lc.collect_resource_attributes(source=mk_node_sliver(n))
            for s in sl["svcs"]:
                lc.collect_resource_attributes(source=mk_ns_sliver(s))
    except Exception as e:
        return ["err", err_kind(e)]
    return _log_reply(lc)


FIX_COMMIT = "a372b34"
FIX2_COMMIT = "0131a6f"
_BEFORE = {}


def class_before(commit, must_contain, must_not_contain=None):
    """ResourceAuthZAttributes as it was before a repair, loaded from the parent of the fix commit (None if that object is
    not in the repository any more or does not look like the pre-repair source)."""
    if commit not in _BEFORE:
        import subprocess
        import types
        from core import REPO
        cls = None
        try:
            p = subprocess.run(["git", "-C", REPO, "show", commit + "~1:fim/authz/attribute_collector.py"],
                               capture_output=True, text=True, timeout=30)
            if p.returncode == 0 and must_contain in p.stdout and not (must_not_contain and must_not_contain in p.stdout):
                m = types.ModuleType("c11_attribute_collector_before_" + commit)
                exec(compile(p.stdout, "attribute_collector@%s~1" % commit, "exec"), m.__dict__)
                cls = m.ResourceAuthZAttributes
        except Exception:
            cls = None
        _BEFORE[commit] = cls
    return _BEFORE[commit]


def legacy_class():
    """before the in-slice exemption was repaired. Ties Model/Authz.lean `collectLegacy` (theorem legacy_mirror_counterexample)."""
    return class_before(FIX_COMMIT, "self._attributes[resource_name].pop()")


def legacy_writing_class():
    """before the placeholder was moved to a copy. Ties `svcStepObjLegacy` (theorem shared_slivers_legacy_counterexample)."""
    return class_before(FIX2_COMMIT, 'sliver.site = "UNKNOWN-SITE"', "copy.copy(sliver)")


def impl_shared(sl, cls=None):
    """authorize, log, authorize again - the SAME sliver objects throughout, through the public sliver dispatch.
    Returns the three replies."""
    from fim.authz.attribute_collector import ResourceAuthZAttributes
    from fim.logging.log_collector import LogCollector
    cls = cls or ResourceAuthZAttributes
    objs = [mk_node_sliver(n) for n in sl["nodes"]] + [mk_ns_sliver(s) for s in sl["svcs"]]

    def authz():
        try:
            az = cls()
            for x in objs:
                az.collect_resource_attributes(source=x)
        except Exception as e:
            return ["err", err_kind(e)]
        r = _authz_reply(az)
        return r[0] if isinstance(r, tuple) else r

    def log():
        try:
            lc = LogCollector()
            for x in objs:
                lc.collect_resource_attributes(source=x)
        except Exception as e:
            return ["err", err_kind(e)]
        return _log_reply(lc)
    return [authz(), log(), authz()]


def impl_authz_legacy(sl):
    az = legacy_class()()
    try:
        az._collect_attributes_from_topo(_Topo(sl))
    except Exception as e:
        return ["err", err_kind(e)]
    r = _authz_reply(az)
    return r[0] if isinstance(r, tuple) else r


def for_dispatch(sl):
    d = dict(sl)
    d["facs"], d["ifaces"] = [], []
    return d


# --------------------------------------------------------------------------
# generators

def gen_slice(rng, size):
    nn = rng.randint(0, size)
    ns = rng.randint(0, size)
    nf = rng.choice([0, 0, 1, 2])
    inports = rng.sample(PORT_FAM, rng.randint(0, 3))
    sites = rng.sample(SITE_FAM, rng.randint(1, 3))
    if rng.random() < 0.3:
        # the old plain pools, kept so that unrelated names stay covered too
        sites = ["A", "B", "C"][:rng.randint(1, 3)]

    def site():
        r = rng.random()
        return None if r < 0.06 else ("" if r < 0.1 else rng.choice(sites))
    nodes = []
    for i, name in enumerate(rng.sample(NODE_FAM, nn)):
        c = rng.choice([1, 2, 4, 8, 0])
        caps = None if rng.random() < 0.25 else [c, rng.choice([0, 8, 16]), rng.choice([10, 100])]
        nodes.append({"name": name, "t": rng.choice(NTYPES), "site": site(), "caps": caps,
                      "alloc": [rng.choice([1, 2, 6]), 4, 10] if rng.random() < 0.15 else None,
                      # a VM sized by an instance-type hint only (no capacities): still a VM for the accounting summary
                      "hints": "fabric.c4.m16.d10" if (caps is None and rng.random() < 0.5) else None,
                      "comps": None if rng.random() < 0.3 else [rng.choice(CTYPES) for _ in range(rng.randint(0, 3))]})
    svcs = []
    for i, name in enumerate(rng.sample(SVC_FAM, ns)):
        t = rng.choice(LISTED) if rng.random() < 0.75 else rng.choice(OTHER_ST)
        mp = None
        if t == "PortMirror":
            r = rng.random()
            # an in-slice port itself, a relative of one (prefix / suffix / case ...), any family member, or none
            if r < 0.3 and inports:
                mp = rng.choice(inports)
            elif r < 0.95:
                mp = rng.choice(PORT_FAM)
        elif rng.random() < 0.05:
            mp = rng.choice(PORT_FAM)
        svcs.append({"name": name, "t": t, "site": site(),
                     "bw": rng.choice([0, 1, 10, 100]) if rng.random() < 0.4 else None, "mp": mp})
    ifaces = [[p] for p in inports]
    for _ in range(rng.randint(0, 2)):
        ifaces.append(rng.choice([None, [], [None]]))
    rng.shuffle(ifaces)
    return {"nodes": nodes, "svcs": svcs, "facs": rng.sample(FAC_FAM, nf), "ifaces": ifaces}


def _sv(name, t, site, mp=None, bw=None):
    return {"name": name, "t": t, "site": site, "bw": bw, "mp": mp}


def corner_slices():
    """Deterministic corner cases, smallest first (the first one is the minimised design-phase defect)."""
    vm = {"name": "n0", "t": "VM", "site": "S", "caps": [1, 10, 25], "alloc": None, "comps": ["SmartNIC", "SmartNIC"]}
    out = [
        {"nodes": [], "svcs": [_sv("pmout", "PortMirror", "S", "outport"), _sv("pmin", "PortMirror", "S", "inport")],
         "facs": [], "ifaces": [["inport"]]},
        {"nodes": [], "svcs": [_sv("ma", "PortMirror", "A", "out1"), _sv("mb", "PortMirror", "B", "out2"),
                               _sv("mc", "PortMirror", "A", "inport")], "facs": [], "ifaces": [["inport"]]},
        {"nodes": [], "svcs": [], "facs": [], "ifaces": []},
        {"nodes": [vm], "svcs": [_sv("e1", "FABNetv4Ext", "S", bw=5), _sv("e2", "FABNetv4Ext", "S"), _sv("e3", "FABNetv6Ext", "T"),
                                 _sv("e4", "FABNetv6Ext", None)], "facs": ["F1", "F2"], "ifaces": []},
        {"nodes": [vm, dict(vm, name="n1", t="Switch", caps=None, comps=None), dict(vm, name="n2", site="T", alloc=[3, 1, 1])],
         "svcs": [_sv("m1", "PortMirror", None, None), _sv("m2", "PortMirror", "S", "x")], "facs": ["F1"], "ifaces": [[None], None, []]},
        {"nodes": [dict(vm, t="Facility", comps=[]), dict(vm, name="n1", site="", caps=[0, 0, 0])],
         "svcs": [_sv("b1", "L2Bridge", "S", bw=0), _sv("m1", "PortMirror", "T", "p1"), _sv("m2", "PortMirror", "T", "p1")],
         "facs": [], "ifaces": [["p1"], ["p1"]]},
    ]
    return out


def relation_slices():
    """Small-scope exhaustive part: every ordered pair of the port family as (in-slice port, mirrored port), every ordered
    pair of the site family as (site of a node / of a mirror, site of an external service), every pair and the triple of
    listed service kinds at one site, VMs with every combination of capacities / allocation / instance-type hint."""
    out = []
    for a in PORT_FAM:
        for b in PORT_FAM + [None]:
            out.append({"nodes": [], "svcs": [_sv("pm", "PortMirror", "S", b)], "facs": [], "ifaces": [[a]]})
    vm = {"name": "n1", "t": "VM", "site": "S", "caps": [2, 8, 10], "alloc": None, "comps": None}
    for x in SITE_FAM + [""]:
        for y in SITE_FAM:
            out.append({"nodes": [dict(vm, site=x)], "svcs": [_sv("e1", "FABNetv4Ext", y), _sv("pm", "PortMirror", x, "outside")],
                        "facs": [], "ifaces": []})
    for t1 in LISTED:
        for t2 in LISTED:
            out.append({"nodes": [], "svcs": [_sv("s1", t1, "RENC", "out1"), _sv("s10", t2, "RENC", "out2")], "facs": [], "ifaces": [["in"]]})
    out.append({"nodes": [], "svcs": [_sv("s1", "FABNetv4Ext", "RENC"), _sv("s10", "FABNetv6Ext", "RENC"), _sv("s11", "PortMirror", "RENC", "out"),
                                      _sv("s2", "PortMirror", "RENC", "in")], "facs": [], "ifaces": [["in"]]})
    for caps in (None, [2, 8, 10]):
        for alloc in (None, [1, 4, 10]):
            for hints in (None, "fabric.c4.m16.d10"):
                out.append({"nodes": [dict(vm, caps=caps, alloc=alloc, hints=hints), dict(vm, name="n10", caps=None, hints="fabric.c4.m8.d10"),
                                      dict(vm, name="nn", caps=None, comps=[])], "svcs": [], "facs": [], "ifaces": []})
    # element names related as strings; a Facility-typed node named like a facility; a node named like a service
    out.append({"nodes": [dict(vm, name="F1", t="Facility"), dict(vm, name="FF", t="Facility"), dict(vm, name="s1")],
                "svcs": [_sv("s1", "L2Bridge", "S"), _sv("ss", "L2Bridge", "S")], "facs": ["F1", "F10"], "ifaces": []})
    return out


def load_corpus():
    d = os.path.join(CORPUS_DIR, ID)
    out = []
    if os.path.isdir(d):
        for fn in sorted(os.listdir(d)):
            if fn.endswith(".json"):
                with open(os.path.join(d, fn)) as f:
                    out.append((fn, json.load(f)))
    return out


def permutations_of(sl, rng, limit=24):
    """Every stored order of the same slice for <= 5 elements, `limit` random ones beyond. Identity first."""
    n = len(sl["nodes"]) + len(sl["svcs"]) + len(sl["facs"])

    def apply(pn, ps, pf):
        return {"nodes": [sl["nodes"][i] for i in pn], "svcs": [sl["svcs"][i] for i in ps],
                "facs": [sl["facs"][i] for i in pf], "ifaces": sl["ifaces"]}
    rn, rs, rf = range(len(sl["nodes"])), range(len(sl["svcs"])), range(len(sl["facs"]))
    if n <= 5:
        return [apply(a, b, c) for a in itertools.permutations(rn) for b in itertools.permutations(rs)
                for c in itertools.permutations(rf)]
    out, seen = [apply(list(rn), list(rs), list(rf))], set()
    for _ in range(limit * 3):
        a, b, c = list(rn), list(rs), list(rf)
        rng.shuffle(a), rng.shuffle(b), rng.shuffle(c)
        k = (tuple(a), tuple(b), tuple(c))
        if k not in seen:
            seen.add(k)
            out.append(apply(a, b, c))
        if len(out) >= limit:
            break
    return out


def nontrivial(sl):
    return sum(1 for s in sl["svcs"] if s["t"] in LISTED) >= 2


# --------------------------------------------------------------------------
# real topologies

_MODELS = None


def probe_models():
    """component model -> (component type, number of interfaces, [(service-name suffix, service type)])"""
    global _MODELS
    if _MODELS is None:
        from fim.user.topology import ExperimentTopology
        from fim.slivers.component_catalog import ComponentModelType
        t = ExperimentTopology()
        n = t.add_node(name="nn", site="A")
        _MODELS = {}
        for i, m in enumerate(ComponentModelType):
            c = n.add_component(name="cc%d" % i, model_type=m)
            _MODELS[m.name] = (str(c.type), len(c.interface_list),
                               [(k[len("nn-cc%d" % i):], str(v.type)) for k, v in c.network_services.items()])
        dispose(t)
    return _MODELS


def gen_tspec(rng, size):
    """A buildable experiment slice: nodes with components, optional switch and facilities, services over free ports.
    Sites, node / component names, service-port labels and mirrored port names come from the related-name families."""
    models = probe_models()
    nic = [m for m, (_, k, _) in models.items() if k > 0]
    dedicated = [m for m in nic if not m.startswith("SharedNIC")]
    plain = [m for m, (_, k, _) in models.items() if k == 0]
    sites = rng.sample(T_SITE_FAM, rng.randint(1, 3))
    nodes, free = [], []
    for i, nname in enumerate(rng.sample(T_NODE_FAM, rng.randint(1, max(1, size)))):
        comps = []
        for j, cname in enumerate(rng.sample(T_COMP_FAM, rng.randint(0 if rng.random() < 0.1 else 1, 3))):
            m = rng.choice(dedicated if rng.random() < 0.7 else nic + plain)
            comps.append({"name": cname, "model": m})
        caps = None if rng.random() < 0.3 else [rng.choice([1, 2, 4]), rng.choice([8, 16]), rng.choice([10, 100])]
        n = {"name": nname, "site": rng.choice(sites), "comps": comps, "caps": caps,
             "hints": "fabric.c4.m16.d10" if (caps is None and rng.random() < 0.6) else None}
        nodes.append(n)
        for j, c in enumerate(comps):
            for k in range(models[c["model"]][1]):
                free.append((i, j, k))
    rng.shuffle(free)
    switch = {"name": "sw0", "site": rng.choice(sites)} if rng.random() < 0.25 else None
    facs = [{"name": nm, "site": rng.choice(sites + ["D"]), "bw": 10}
            for nm in rng.sample(["F1", "F10", "FF"], rng.choice([0, 0, 1, 2]))]
    svcs, labelled, sublabelled = [], [], []

    def shared(ref):
        return nodes[ref[0]]["comps"][ref[1]]["model"].startswith("SharedNIC")
    # bridges first: their service ports carry the local names that make a mirrored port "in slice"
    for i, ln in enumerate(rng.sample(T_PORT_FAM, rng.randint(0, 3))):
        if not free:
            break
        ref = free.pop()
        # attached to a sub-interface (child of the port): the collector only looks at the ports of nodes and components
        # (topo.interface_list), so the label of such a service port does NOT make a mirrored port in-slice
        sub = (not shared(ref)) and rng.random() < 0.2
        if rng.random() < 0.15:
            ln = None
        if ln is not None:
            (sublabelled if sub else labelled).append(ln)
        svcs.append({"name": "br%d" % i, "t": "L2Bridge", "ifs": [ref], "labels": [ln], "sub": sub,
                     "bw": rng.choice([None, 1, 10]), "mp": None, "fac": None, "decl": rng.random() < 0.3})
    for i in range(rng.randint(0, size + 1)):
        if not free:
            break
        r = rng.random()
        if r < 0.45:
            ded = [x for x in free if not shared(x)]
            if not ded:
                continue
            ref = ded[0]
            free.remove(ref)
            q = rng.random()
            if labelled and q < 0.35:
                mp = rng.choice(labelled)
            elif sublabelled and q < 0.45:
                mp = rng.choice(sublabelled)
            elif q < 0.9:
                mp = rng.choice(T_PORT_FAM)        # usually a relative (prefix, extension, case variant) of a labelled port
            else:
                mp = "outside%d" % rng.randint(0, 1)
            svcs.append({"name": "pm%d" % i, "t": "PortMirror", "ifs": [ref], "labels": [None], "bw": rng.choice([None, 5]),
                         "mp": mp, "fac": None, "decl": rng.random() < 0.3})
        elif r < 0.85:
            ref = free.pop()
            svcs.append({"name": "ex%d" % i, "t": rng.choice(["FABNetv4Ext", "FABNetv6Ext"]), "ifs": [ref], "labels": [None],
                         "bw": rng.choice([None, 2]), "mp": None, "fac": None, "decl": rng.random() < 0.3})
        elif facs and not any(s["fac"] is not None for s in svcs):
            ref = free.pop()
            svcs.append({"name": "sts%d" % i, "t": "L2STS", "ifs": [ref], "labels": [None], "bw": None, "mp": None, "fac": 0})
    return {"nodes": nodes, "switch": switch, "facs": facs, "svcs": svcs}


def corner_tspecs():
    two = {"name": "c0", "model": "SmartNIC_ConnectX_6"}
    n0 = {"name": "n0", "site": "S", "caps": [1, 10, 25], "comps": [two, dict(two, name="c1"), dict(two, name="c2")]}

    def sv(name, t, ref, label=None, mp=None, **kw):
        d = {"name": name, "t": t, "ifs": [ref] if ref is not None else [], "labels": [label] if ref is not None else [],
             "bw": None, "mp": mp, "fac": None}
        d.update(kw)
        return d
    n1 = {"name": "n1", "site": "RENC", "caps": None, "hints": "fabric.c4.m16.d10",
          "comps": [dict(two, name="c1"), dict(two, name="c10"), dict(two, name="cc")]}
    return [
        {"nodes": [n0], "switch": None, "facs": [], "svcs": [
            sv("br", "L2Bridge", (0, 0, 0), "inport"), sv("pmout", "PortMirror", (0, 1, 0), mp="outport"),
            sv("pmin", "PortMirror", (0, 2, 0), mp="inport")]},
        # (prefix-related port names, several listed kinds at one site, a VM sized by a hint only: corpus/C11/08)
        # a bridge on a sub-interface: its service-port label is not an in-slice port for the collector
        {"nodes": [n1], "switch": None, "facs": [], "svcs": [
            sv("brsub", "L2Bridge", (0, 0, 0), "p1.100", sub=True), sv("br", "L2Bridge", (0, 0, 1), "p1"),
            sv("pm", "PortMirror", (0, 1, 0), mp="p1.100"), sv("pm2", "PortMirror", (0, 2, 0), mp="p1")]},
        # nodes without components (every service type needs >= 1 interface to validate, so a validated slice has no
        # service without interfaces; the sliver-level folds above have services without any interface throughout)
        {"nodes": [dict(n1, comps=[]), dict(n1, name="n10", site="RENC1", caps=[2, 8, 10], hints=None, comps=[])], "switch": None,
         "facs": [], "svcs": []},
    ]


def build_topology(ts, node_order, svc_order, validate=True):
    from fim.user.topology import ExperimentTopology
    from fim.slivers.capacities_labels import Capacities, Labels
    from fim.slivers.component_catalog import ComponentModelType
    from fim.slivers.network_service import ServiceType
    t = ExperimentTopology()
    try:
        return _build_into(t, ts, node_order, svc_order, validate)
    except Exception:
        dispose(t)
        raise


def _build_into(t, ts, node_order, svc_order, validate=True):
    from fim.slivers.capacities_labels import Capacities, Labels
    from fim.slivers.component_catalog import ComponentModelType
    from fim.slivers.network_service import ServiceType
    comps = {}
    for i in node_order:
        n = ts["nodes"][i]
        kw = {}
        if n["caps"] is not None:
            kw["capacities"] = _passed(Capacities(core=n["caps"][0], ram=n["caps"][1], disk=n["caps"][2]))
        if n.get("hints") is not None:
            from fim.slivers.capacities_labels import CapacityHints
            kw["capacity_hints"] = CapacityHints(instance_type=n["hints"])
        node = t.add_node(name=n["name"], site=n["site"], **kw)
        for j, c in enumerate(n["comps"]):
            comps[(i, j)] = node.add_component(name=c["name"], model_type=ComponentModelType[c["model"]])
    if ts["switch"]:
        t.add_switch(name=ts["switch"]["name"], site=ts["switch"]["site"])
    facs = [t.add_facility(name=f["name"], site=f["site"], capacities=Capacities(bw=f["bw"])) for f in ts["facs"]]

    def iface(ref):
        c = comps[(ref[0], ref[1])]
        return sorted(c.interface_list, key=lambda x: x.name)[ref[2]]
    for si in svc_order:
        _add_service(t, ts, si, ts["svcs"][si], iface, facs)
    if validate:
        t.validate()
    return t


def _add_service(t, ts, si, s, iface, facs):
    from fim.slivers.capacities_labels import Capacities, Labels
    from fim.slivers.network_service import ServiceType
    ifs = [iface(r) for r in s["ifs"]]
    if s.get("sub"):
        ifs = [x.add_child_interface(name="sub%d" % si, labels=Labels(vlan=str(100 + si))) for x in ifs]
    kw = {}
    if s["bw"] is not None:
        kw["capacities"] = Capacities(bw=s["bw"])
    if s.get("decl") and s["ifs"]:
        # site declared by the user (must be the one validate() would infer); otherwise inferred by validate()
        kw["site"] = ts["nodes"][s["ifs"][0][0]]["site"]
    if s["t"] == "PortMirror":
        t.add_port_mirror_service(name=s["name"], from_interface_name=s["mp"], to_interface=ifs[0], **kw)
    else:
        extra = [facs[s["fac"]].interface_list[0]] if s["fac"] is not None else []
        t.add_network_service(name=s["name"], nstype=ServiceType[s["t"]], interfaces=ifs + extra, **kw)
    for i, ln in zip(ifs, s["labels"]):
        if ln is not None:
            i.get_peers()[0].set_property("labels", Labels(local_name=ln))


def model_of_tspec(ts, t):
    """The slice as the collectors should see it: contents from the description `ts`, stored order read from `t`."""
    models = probe_models()
    nd, sd = {}, {}
    for i, n in enumerate(ts["nodes"]):
        nd[n["name"]] = {"name": n["name"], "t": "VM", "site": n["site"], "caps": n["caps"], "alloc": None,
                         "comps": [models[c["model"]][0] for c in n["comps"]]}
        for c in n["comps"]:
            for suffix, st in models[c["model"]][2]:
                # (named after the node's name at the time the component was attached: a later rename leaves it)
                nm = "%s-%s%s" % (c.get("owner0", n["name"]), c["name"], suffix)
                sd[nm] = _sv(nm, st, n["site"])
    if ts["switch"]:
        sw = ts["switch"]
        nd[sw["name"]] = {"name": sw["name"], "t": "Switch", "site": sw["site"], "caps": None, "alloc": None, "comps": None}
        sd[sw["name"] + "-ns"] = _sv(sw["name"] + "-ns", "P4", sw["site"])
    for f in ts["facs"]:
        sd[f["name"] + "-ns"] = _sv(f["name"] + "-ns", "VLAN", f["site"])
    ifaces = []
    for s in ts["svcs"]:
        sites = {ts["nodes"][r[0]]["site"] for r in s["ifs"]}
        if s["fac"] is not None:
            sites.add(ts["facs"][s["fac"]]["site"])
        sd[s["name"]] = _sv(s["name"], s["t"], sites.pop() if len(sites) == 1 else None, s["mp"], s["bw"])
        if not s.get("sub"):
            # (the peer of a sub-interface is not reached from topo.interface_list: its label stays outside the slice)
            ifaces.extend([ln] if ln is not None else [] for ln in s["labels"])
    nodes = [nd[k] for k in t.nodes.keys()]
    svcs = [sd[k] for k in t.network_services.keys()]
    return {"nodes": nodes, "svcs": svcs, "facs": list(t.facilities.keys()), "ifaces": ifaces}


def raw_of_tspec(ts, sl):
    """The slice as its serialised model carries it before validate(): declared sites only, plus what validate() reads
    (owner sites of each service's interfaces; whether the type limits the number of sites). `sl` (model_of_tspec) gives
    the stored order; the site inference itself is done by the Lean model (`recordSites`)."""
    from fim.slivers.network_service import NetworkServiceSliver, ServiceType
    lim = {st.name: NetworkServiceSliver.ServiceConstraints[st].num_sites != NetworkServiceSliver.NO_LIMIT
           for st in NetworkServiceSliver.ServiceConstraints}
    user = {s["name"]: s for s in ts["svcs"]}
    nports = 8
    svcs = []
    for s in sl["svcs"]:
        r = dict(s)
        u = user.get(s["name"])
        if u is not None:
            r["os"] = [ts["nodes"][x[0]]["site"] for x in u["ifs"]] + ([ts["facs"][u["fac"]]["site"]] if u["fac"] is not None else [])
            r["site"] = ts["nodes"][u["ifs"][0][0]]["site"] if (u.get("decl") and u["ifs"]) else None
        else:
            # services created with their node / component / facility: every port belongs to that one owner
            r["os"] = [s["site"]] * (nports if s["t"] == "P4" and ts["switch"] and s["name"] == ts["switch"]["name"] + "-ns" else 1)
            r["site"] = None
        r["lim"] = lim[s["t"]]
        svcs.append(r)
    return {"nodes": sl["nodes"], "svcs": svcs, "facs": sl["facs"], "ifaces": sl["ifaces"]}


def components_only(sl):
    """the slice reduced to what Component / ComponentSliver sources show a LogCollector: component types by node"""
    return {"nodes": [{"name": n["name"], "t": "Server", "site": None, "caps": None, "alloc": None, "comps": n["comps"]}
                      for n in sl["nodes"]], "svcs": [], "facs": [], "ifaces": []}


def dispose(t):
    """Remove the topology's graph (and the re-import of it made by the ASM path, same GraphID) from the shared store:
    every lookup in the store scans all stored graphs."""
    try:
        t.graph_model.delete_graph()
    except Exception:
        pass


def collect_asm(ser):
    """(authz reply, log reply) from a serialised model through the public entry point (source=NetworkxASM)."""
    from fim.authz.attribute_collector import ResourceAuthZAttributes
    from fim.logging.log_collector import LogCollector
    from fim.graph.slices.networkx_asm import NetworkXGraphImporter, NetworkXASMFactory
    asm = NetworkXASMFactory.create(NetworkXGraphImporter().import_graph_from_string(graph_string=ser))
    try:
        az = ResourceAuthZAttributes()
        az.collect_resource_attributes(source=asm)
        lc = LogCollector()
        lc.collect_resource_attributes(source=asm)
        return _authz_reply(az), _log_reply(lc)
    finally:
        asm.delete_graph()      # the importer stored the ASM under a fresh GraphID


def collect_real(t, with_asm=True, kept=None):
    """(authz reply, log reply) from the topology object and from its serialised ASM, through the public entry point.
    `kept`: {node id: Node handle} obtained at an EARLIER stage of an edit history - long-lived handles are collected too."""
    from fim.authz.attribute_collector import ResourceAuthZAttributes
    from fim.logging.log_collector import LogCollector
    from fim.graph.slices.networkx_asm import NetworkXGraphImporter, NetworkXASMFactory
    out = {}
    az = ResourceAuthZAttributes()
    az.collect_resource_attributes(source=t)
    out["authz_topo"] = _authz_reply(az)
    lc = LogCollector()
    lc.collect_resource_attributes(source=t)
    out["log_topo"] = _log_reply(lc)
    # the member-level sources of the same public entry point: Node / NetworkService handles (both collectors),
    # Component handles and component slivers (LogCollector)
    az = ResourceAuthZAttributes()
    lc = LogCollector()
    out["unsupported"] = []

    def member(col, x):
        # both dispatch tables are keyed by the exact class: a handle of a subclass (PortMirrorService, which is what
        # t.network_services yields for a mirror) is refused loudly as 'Unsupported resource type' - not a silent omission,
        # and outside the letter of the property; recorded in the evidence, and its sliver is collected instead
        if type(x) not in col.METHOD_LUT and any(isinstance(x, k) for k in col.METHOD_LUT):
            try:
                col.collect_resource_attributes(source=x)
            except Exception as e:
                if "Unsupported resource type" not in str(e):
                    raise
                out["unsupported"].append(type(x).__name__)
                col.collect_resource_attributes(source=x.get_sliver())
        else:
            col.collect_resource_attributes(source=x)
    for n in t.nodes.values():
        member(az, n)
        member(lc, n)
    for ns in t.network_services.values():
        member(az, ns)
        member(lc, ns)
    out["authz_members"] = _authz_reply(az)
    out["log_members"] = _log_reply(lc)
    if kept is not None:
        az = ResourceAuthZAttributes()
        lc = LogCollector()
        for n in t.nodes.values():
            member(az, kept.get(n.node_id, n))
            member(lc, kept.get(n.node_id, n))
        for ns in t.network_services.values():
            member(az, ns)
            member(lc, ns)
        out["authz_members_kept"] = _authz_reply(az)
        out["log_members_kept"] = _log_reply(lc)
    lc = LogCollector()
    for i, n in enumerate(t.nodes.values()):
        for j, c in enumerate(n.components.values()):
            lc.collect_resource_attributes(source=c if (i + j) % 2 == 0 else c.get_sliver())
    out["log_components"] = _log_reply(lc)
    if with_asm:
        out["authz_asm"], out["log_asm"] = collect_asm(t.serialize())
    return out


def topo_orders(ts, rng, k):
    """k creation orders of nodes and services (identity and reverse first)."""
    nn, ns = list(range(len(ts["nodes"]))), list(range(len(ts["svcs"])))
    out = [(nn, ns), (nn[::-1], ns[::-1])]
    while len(out) < k:
        a, b = nn[:], ns[:]
        rng.shuffle(a), rng.shuffle(b)
        out.append((a, b))
    seen, res = set(), []
    for a, b in out[:k]:
        if (tuple(a), tuple(b)) not in seen:
            seen.add((tuple(a), tuple(b)))
            res.append((a, b))
    return res


# --------------------------------------------------------------------------
# the property itself (independent of the Lean model)

def _table():
    from fim.authz.attribute_collector import ResourceAuthZAttributes as R
    return R


def eff_site(s):
    return s["site"] if s["site"] else "UNKNOWN-SITE"


def required(sl):
    """attribute id -> values the request must name, by a direct reading of the property statement"""
    R = _table()
    inports = {d[0] for d in sl["ifaces"] if d}
    req = {}

    def need(k, v, why):
        req.setdefault(k, []).append((v, why))
    for n in sl["nodes"]:
        if n["site"]:
            need(R.RESOURCE_SITE, n["site"], "site of node " + n["name"])
        if n["caps"] is not None:
            need(R.RESOURCE_CPU, n["caps"][0], "cpu of " + n["name"])
            need(R.RESOURCE_RAM, n["caps"][1], "ram of " + n["name"])
            need(R.RESOURCE_DISK, n["caps"][2], "disk of " + n["name"])
        for c in n["comps"] or []:
            need(R.RESOURCE_COMPONENT, c, "component of " + n["name"])
    for s in sl["svcs"]:
        if s["site"]:
            need(R.RESOURCE_SITE, s["site"], "site of service " + s["name"])
        if s["bw"] is not None:
            need(R.RESOURCE_BW, s["bw"], "bandwidth of " + s["name"])
        if s["t"] == "FABNetv4Ext":
            need(R.RESOURCE_FABNETV4_EXT, eff_site(s), "site of external service " + s["name"])
        if s["t"] == "FABNetv6Ext":
            need(R.RESOURCE_FABNETV6_EXT, eff_site(s), "site of external service " + s["name"])
        if s["t"] == "PortMirror" and s["mp"] not in inports:
            need(R.RESOURCE_MIRROR_SITE, eff_site(s), "site of mirror service %s (port outside the slice)" % s["name"])
    for f in sl["facs"]:
        need(R.RESOURCE_FACILITY_PORT, f, "facility")
    return req


def canon_attrs(reply):
    return {k: sorted(v, key=canon) for k, v in reply[1]["attrs"]}


def check_authz(sl, reply, pdp_dict, pdp_json, res, case, entry):
    R = _table()

    def bad(sig, what, **kw):
        res.violation("C11:" + sig, what, case, **kw)
    if reply[0] != "ok":
        bad("raises:" + reply[1], "collecting attributes / building the PDP request raised (%s)" % entry)
        return
    attrs = dict((k, v) for k, v in reply[1]["attrs"])
    slice_keys = set(required(sl)) | {R.RESOURCE_TYPE}
    for k, vs in required(sl).items():
        for v, why in vs:
            if v not in attrs.get(k, []):
                bad("complete:" + _short(k), "authorization request does not name the %s" % why.split(" ")[0] + " it must (%s)" % _short(k),
                    expected={"attribute": k, "value": v, "why": why}, observed=attrs.get(k, []))
    # ... and ONLY then: a site listed for a mirror / an external service is the site of some mirror service whose mirrored
    # port is outside the slice / of some external service of that kind (direct reading of the "only when" half)
    req = required(sl)
    for k in (R.RESOURCE_MIRROR_SITE, R.RESOURCE_FABNETV4_EXT, R.RESOURCE_FABNETV6_EXT):
        allowed = [v for v, _ in req.get(k, [])]
        for v in attrs.get(k, []):
            if v not in allowed:
                bad("sound:" + _short(k), "authorization request lists a site under %s that no service of the slice accounts for "
                    "(a mirror site is listed only when the mirrored port is outside the slice) (%s)" % (_short(k), entry),
                    expected=allowed, observed=attrs.get(k, []))
                break
    # PDP request: every attribute in exactly one category - the table's - once, with its values and data type
    cats = pdp_dict["Request"]["Category"]
    ids = [c["CategoryId"] for c in cats]
    if len(set(ids)) != len(ids):
        bad("pdp:duplicate-category", "PDP request has a repeated CategoryId")
    for k, v in attrs.items():
        hits = [(c["CategoryId"], a) for c in cats for a in c["Attribute"] if a["AttributeId"] == k]
        if len(hits) != 1:
            bad("pdp:occurrences:" + _short(k), "attribute appears %d times in the PDP request" % len(hits))
            continue
        cat, a = hits[0]
        exp = R.ATTRIBUTE_TYPES_AND_CATEGORIES[k]
        if (entry != "full-request" or k in slice_keys) and cat != RESOURCE_CATEGORY:
            bad("pdp:category:" + _short(k), "an attribute describing the slice is not emitted in the resource category", observed=cat)
        if cat != exp[1] or a["DataType"] != exp[0] or a["Value"] != v or a["IncludeInResult"] is not False:
            bad("pdp:row:" + _short(k), "attribute is in the wrong category / has wrong type or values", observed=[cat, a])
        xs = "integer" in exp[0]
        if any(isinstance(x, bool) or isinstance(x, int) != xs for x in v):
            bad("pdp:datatype:" + _short(k), "a value does not have the declared XML data type", observed=v)
    n_attr = sum(len(c["Attribute"]) for c in cats)
    if n_attr != len(attrs):
        bad("pdp:extra", "PDP request has attributes that were not collected")
    if pdp_json != pdp_dict:
        bad("pdp:json", "JSON form of the PDP request differs from the dictionary form")


def tally(sl):
    """Direct count of the slice for the accounting summary."""
    comps, sites, facs = {}, set(), set(sl["facs"])
    vm = cores = p4 = 0
    nodes = []
    for n in sl["nodes"]:
        if n["t"] == "VM":
            vm += 1
            cap = n["alloc"] if n["alloc"] is not None else n["caps"]
            if cap is not None:
                cores += cap[0]
                nodes.append(cap)
        elif n["t"] == "Switch":
            p4 += 1
        elif n["t"] == "Facility":
            facs.add(n["name"])
        if n["site"]:
            sites.add(n["site"])
        for c in n["comps"] or []:
            comps[c] = comps.get(c, 0) + 1
    services = []
    for s in sl["svcs"]:
        services.append([s["t"], s["bw"] if s["bw"] is not None else 0])
        if s["site"]:
            sites.add(s["site"])
    return {"vm": vm, "cores": cores, "p4": p4, "nodes": sorted(nodes), "components": sorted(comps.items()),
            "services": sorted(services), "facilities": sorted(facs), "sites": sorted(sites)}


def canon_log(reply):
    d = dict(reply[1])
    d["nodes"] = sorted(d["nodes"])
    d["components"] = sorted((k, v) for k, v in d["components"])
    d["services"] = sorted(d["services"])
    return d


def check_log(sl, reply, res, case, entry):
    if reply[0] != "ok":
        res.violation("C11:log:raises:" + reply[1], "LogCollector raised (%s)" % entry, case)
        return
    got, exp = canon_log(reply), tally(sl)
    for k in exp:
        g = got[k]
        if k == "components":
            g = sorted((a, b) for a, b in g)
        if json.loads(canon(g)) != json.loads(canon(exp[k])):
            res.violation("C11:log:" + k, "accounting summary field '%s' differs from a direct tally of the slice" % k, case,
                          expected=exp[k], observed=g)


def check_orders(perms_replies, res, what, entry):
    """perms_replies: [(slice-in-stored-order, authz reply, log reply)] for one slice; compares as multisets per attribute."""
    base_sl, base_a, base_l = perms_replies[0]
    for sl, a, l in perms_replies[1:]:
        case = {"kind": what, "entry": entry, "slice": base_sl, "reordered": sl}
        if a[0] == "ok" and base_a[0] == "ok":
            x, y = canon_attrs(base_a), canon_attrs(a)
            for k in sorted(set(x) | set(y)):
                if x.get(k) != y.get(k):
                    res.violation("C11:order:" + _short(k), "authorization attribute depends on the stored order of the slice (%s)" % _short(k),
                                  case, expected=x.get(k), observed=y.get(k))
        elif a[0] != base_a[0]:
            res.violation("C11:order:raises", "collection succeeds in one order and raises in another", case)
        if l is not None and base_l is not None and l[0] == "ok" and base_l[0] == "ok":
            x, y = canon_log(base_l), canon_log(l)
            for k in x:
                if x[k] != y[k]:
                    res.violation("C11:order:log:" + k, "accounting summary depends on the stored order of the slice", case,
                                  expected=x[k], observed=y[k])


def eval_slice(sl, rng, res, entry="fold", limit=24, count=True):
    """Run one slice in all its stored orders through the implementation and evaluate the property."""
    rows = []
    for p in permutations_of(sl, rng, limit):
        q = p if entry == "fold" else for_dispatch(p)
        a, d, j = impl_authz(q, entry)
        l = impl_log(q, entry)
        case = {"kind": "slice", "entry": entry, "slice": q}
        if a[0] == "ok":
            check_authz(q, a, d, j, res, case, entry)
        else:
            res.violation("C11:raises:" + a[1], "collecting attributes raised (%s)" % entry, case)
        check_log(q, l, res, case, entry)
        rows.append((q, a, l))
        if count:
            res.evaluations += 1
            if nontrivial(q):
                res.nontrivial.add(canon([entry, q]))
    check_orders(rows, res, "slice", entry)
    return rows


def eval_shared(sl, res):
    """The SAME sliver objects handed to several collectors one after the other (what an aggregate manager does: authorize
    a sliver, then log it): a collector must not change what it reads, so every collection equals the one made from
    freshly built slivers - and hence the direct tally."""
    q = for_dispatch(sl)
    case = {"kind": "slice", "entry": "shared-slivers", "slice": q}
    try:
        a1, l1, a2 = impl_shared(q)
    except Exception as e:
        res.violation("C11:raises:" + err_kind(e), "collecting twice from the same slivers raised %s" % type(e).__name__, case)
        return
    a0 = impl_authz(q, "dispatch")[0]
    l0 = impl_log(q, "dispatch")
    res.evaluations += 1
    if a0[0] != "ok" or a1[0] != "ok" or a2[0] != "ok" or l0[0] != "ok" or l1[0] != "ok":
        return          # raising collections are reported by eval_slice
    x0 = canon_attrs(a0)
    for tag, a in (("first", a1), ("again-after-logging", a2)):
        x = canon_attrs(a)
        for k in sorted(set(x0) | set(x)):
            if x0.get(k) != x.get(k):
                res.violation("C11:input-mutated:" + _short(k), "the authorization attributes of slivers that were collected before "
                              "differ from those of the same slivers freshly built (%s, %s): a collector changed its input"
                              % (_short(k), tag), case, expected=x0.get(k), observed=x.get(k))
    y0, y = canon_log(l0), canon_log(l1)
    for k in y0:
        if y0[k] != y[k]:
            res.violation("C11:input-mutated:log:" + k, "the accounting summary of slivers that were authorized before differs from "
                          "that of the same slivers freshly built ('%s'): the authorization collector changed its input" % k,
                          case, expected=y0[k], observed=y[k])


def run_tspec(ts, rng, k, with_asm=True):
    """Build the same slice in k creation orders and collect through the public entry points (topology and ASM)."""
    runs = []
    for no, so in topo_orders(ts, rng, k):
        run = {"node_order": no, "svc_order": so}
        try:
            t = build_topology(ts, no, so, validate=False)
            pre = t.serialize()         # the model as a client submits it: validate() has never run on it
            try:
                t.validate()
            except Exception:
                dispose(t)
                raise
        except Exception as e:
            run["build_error"] = err_kind(e)
            runs.append(run)
            continue
        try:
            run["slice"] = model_of_tspec(ts, t)
            run["raw"] = raw_of_tspec(ts, run["slice"])
            run["out"] = collect_real(t, with_asm)
            if with_asm:
                run["out"]["authz_asm_pre"], run["out"]["log_asm_pre"] = collect_asm(pre)
        except Exception as e:
            run["collect_error"] = "%s: %s" % (err_kind(e), e)
        finally:
            dispose(t)
        runs.append(run)
    return runs


# --------------------------------------------------------------------------
# edit histories: collect -> edit -> collect on the SAME topology object

def _norm_ts(ts):
    import copy
    ts = copy.deepcopy(ts)
    for s in ts["svcs"]:
        s["ifs"] = [tuple(x) for x in s["ifs"]]
    ts["burnt"] = [tuple(x) for x in ts.get("burnt", [])]
    return ts


def _free_ports(ts):
    models = probe_models()
    used = {tuple(r) for s in ts["svcs"] for r in s["ifs"]} | {tuple(r) for r in ts.get("burnt", [])}
    return [(i, j, k) for i, n in enumerate(ts["nodes"]) for j, c in enumerate(n["comps"]) for k in range(models[c["model"]][1])
            if (i, j, k) not in used]


def _plain_node(n):
    models = probe_models()
    return all(models[c["model"]][1] == 0 for c in n["comps"])


def edit_spec(ts, e):
    """the edit applied to the description (in place)"""
    op = e["op"]
    if op == "add_comp":
        n = ts["nodes"][e["node"]]
        n["comps"].append({"name": e["name"], "model": e["model"], "owner0": n["name"]})
    elif op == "rm_comp":
        ts["nodes"][e["node"]]["comps"].pop()
    elif op == "add_node":
        ts["nodes"].append({"name": e["name"], "site": e["site"], "caps": e["caps"], "hints": None, "comps": []})
    elif op == "rm_node":
        ts["nodes"].pop()
    elif op == "add_svc":
        ts["svcs"].append(dict(e["svc"], ifs=[tuple(r) for r in e["svc"]["ifs"]]))
    elif op == "rm_svc":
        gone = ts["svcs"].pop(e["svc"])
        ts.setdefault("burnt", []).extend(tuple(r) for r in gone["ifs"])
    elif op == "site":
        ts["nodes"][e["node"]]["site"] = e["site"]
    elif op == "caps":
        ts["nodes"][e["node"]]["caps"] = e["caps"]
        ts["nodes"][e["node"]]["hints"] = None
    elif op == "rename":
        n = ts["nodes"][e["node"]]
        for c in n["comps"]:
            c.setdefault("owner0", n["name"])
        n["name"] = e["name"]
    elif op == "bw":
        ts["svcs"][e["svc"]]["bw"] = e["bw"]
    elif op == "label":
        ts["svcs"][e["svc"]]["labels"] = [e["label"]]
    elif op == "add_fac":
        ts["facs"].append({"name": e["name"], "site": e["site"], "bw": 10})
    elif op == "rm_fac":
        ts["facs"].pop()
    elif op == "add_switch":
        ts["switch"] = {"name": e["name"], "site": e["site"]}
    elif op == "rm_switch":
        ts["switch"] = None
    elif op == "scribble":
        pass        # the caller changed an object the library handed out / was handed; nothing was written to the slice
    else:
        raise ValueError(op)


# value objects the harness handed to the library (add_node / set_property arguments) during the current history: the caller
# still holds them and may change them afterwards (`scribble` target "passed")
_PASSED = []


def _passed(obj):
    _PASSED.append(obj)
    del _PASSED[:-8]
    return obj


def _scribble_caps(c, k):
    """change every field of a Capacities object the caller holds, in place"""
    if c is None:
        return
    for f, v in (("core", 61 + k), ("ram", 251 + k), ("disk", 9001 + k), ("bw", 77 + k)):
        try:
            setattr(c, f, v)
        except Exception:
            pass


def edit_topo(t, ts, e):
    """the edit applied to the live topology; `ts` describes it BEFORE the edit"""
    from fim.slivers.capacities_labels import Capacities, Labels
    from fim.slivers.component_catalog import ComponentModelType
    op = e["op"]

    def node(i):
        return t.nodes[ts["nodes"][i]["name"]]

    def iface(ref):
        n = ts["nodes"][ref[0]]
        c = t.nodes[n["name"]].components[n["comps"][ref[1]]["name"]]
        return sorted(c.interface_list, key=lambda x: x.name)[ref[2]]
    if op == "add_comp":
        node(e["node"]).add_component(name=e["name"], model_type=ComponentModelType[e["model"]])
    elif op == "rm_comp":
        node(e["node"]).remove_component(name=ts["nodes"][e["node"]]["comps"][-1]["name"])
    elif op == "add_node":
        t.add_node(name=e["name"], site=e["site"], **({"capacities": Capacities(core=e["caps"][0], ram=e["caps"][1], disk=e["caps"][2])}
                                                      if e["caps"] is not None else {}))
    elif op == "rm_node":
        t.remove_node(name=ts["nodes"][-1]["name"])
    elif op == "add_svc":
        _add_service(t, ts, len(ts["svcs"]) + 50, e["svc"], iface, [])
    elif op == "rm_svc":
        t.remove_network_service(name=ts["svcs"][e["svc"]]["name"])
    elif op == "site":
        node(e["node"]).site = e["site"]
    elif op == "caps":
        # routes: a new object through set_property (default) / through the attribute; read - change in place - write back
        # (all fields, or the core count only: the other fields are the ones that were READ), via the attribute or the sliver
        route, nd, cur = e.get("route", "set"), node(e["node"]), None
        if route in ("rmw", "rmw1"):
            cur = nd.capacities
        elif route == "rmw_sliver":
            cur = nd.get_sliver().capacities
        if cur is not None:
            cur.core = e["caps"][0]
            if route != "rmw1":
                cur.ram, cur.disk = e["caps"][1], e["caps"][2]
        else:
            cur = _passed(Capacities(core=e["caps"][0], ram=e["caps"][1], disk=e["caps"][2]))
        if route in ("set", "rmw_sliver"):
            nd.set_property("capacities", cur)
        else:
            nd.capacities = cur
        if ts["nodes"][e["node"]].get("hints") is not None:
            node(e["node"]).unset_property("capacity_hints")
    elif op == "rename":
        node(e["node"]).rename(e["name"])
    elif op == "bw":
        ns = t.network_services[ts["svcs"][e["svc"]]["name"]]
        cur = ns.capacities if e.get("route") == "rmw" else None
        if cur is not None:
            cur.bw = e["bw"]
            ns.capacities = cur
        else:
            ns.set_property("capacities", _passed(Capacities(bw=e["bw"])))
    elif op == "label":
        port = t.network_services[ts["svcs"][e["svc"]]["name"]].interface_list[0]
        cur = port.labels if e.get("route") == "rmw" else None
        if cur is not None:
            cur.local_name = e["label"]
            port.labels = cur
        else:
            port.set_property("labels", Labels(local_name=e["label"]))
    elif op == "add_fac":
        t.add_facility(name=e["name"], site=e["site"], capacities=Capacities(bw=10))
    elif op == "rm_fac":
        t.remove_facility(name=ts["facs"][-1]["name"])
    elif op == "add_switch":
        t.add_switch(name=e["name"], site=e["site"])
    elif op == "rm_switch":
        t.remove_switch(name=ts["switch"]["name"])
    elif op == "scribble":
        # the caller changes, IN PLACE, an object it read from the slice or handed to it earlier - and writes nothing back
        what, k = e["what"], e.get("k", 0)
        if what == "node_caps":
            _scribble_caps(node(e["node"]).capacities, k)
        elif what == "node_sliver":
            sl = node(e["node"]).get_sliver()
            _scribble_caps(sl.capacities, k)
            _scribble_caps(sl.capacity_allocations, k)
            sl.site = "ZZ%d" % k
        elif what == "svc_caps":
            _scribble_caps(t.network_services[ts["svcs"][e["svc"]]["name"]].capacities, k)
        elif what == "svc_sliver":
            sl = t.network_services[ts["svcs"][e["svc"]]["name"]].get_sliver()
            _scribble_caps(sl.capacities, k)
            sl.site = "ZZ%d" % k
        elif what == "label":
            lab = t.network_services[ts["svcs"][e["svc"]]["name"]].interface_list[0].labels
            if lab is not None:
                lab.local_name = "scribbled%d" % k
        elif what == "passed":
            for c in _PASSED:
                _scribble_caps(c, k)
        else:
            raise ValueError(what)
    else:
        raise ValueError(op)


def growth_edits(ts, rng, step):
    """A slice that was already collected GROWS in place without any node being added: a NIC attached to an existing node, a
    bridge on its first port whose service port is labelled, a mirror of that very port (or of a relative of its name) onto
    another free dedicated port, and (half of the time) the bridge removed again - the mirrored port is in the slice from the
    second edit to the third and outside it after the fourth.  Every view of the slice read at an earlier stage (the list of
    all interfaces, the nodes, the services) has to show the slice as it is NOW.  Applies the edits to `ts` (in place)."""
    models = probe_models()
    dedicated = sorted(m for m, (_, k, _) in models.items() if k > 0 and not m.startswith("SharedNIC"))
    two = [m for m in dedicated if models[m][1] >= 2]
    out = []

    def push(e):
        edit_spec(ts, e)
        out.append(e)

    def attach(i, tag, pool):
        nd = ts["nodes"][i]
        names = {c["name"] for c in nd["comps"]}
        nm = [x for x in T_COMP_FAM + ["g%d%s" % (step, tag)] if x not in names][0]
        push({"op": "add_comp", "node": i, "name": nm, "model": rng.choice(pool)})
        return (i, len(nd["comps"]) - 1)
    i = rng.randrange(len(ts["nodes"]))
    others = [x for x in _free_ports(ts) if not ts["nodes"][x[0]]["comps"][x[1]]["model"].startswith("SharedNIC")]
    a = attach(i, "a", dedicated if (others or not two) else two)
    ln = rng.choice(T_PORT_FAM)
    bridge = len(ts["svcs"])
    push({"op": "add_svc", "svc": {"name": "gbr%d" % step, "t": "L2Bridge", "ifs": [a + (0,)], "labels": [ln], "bw": rng.choice([None, 10]),
                                   "mp": None, "fac": None, "decl": False}})
    target = rng.choice(others) if others and rng.random() < 0.7 else None
    if target is None:
        free = [x for x in _free_ports(ts) if x[:2] == a]
        target = free[0] if free else attach(rng.randrange(len(ts["nodes"])), "b", dedicated) + (0,)
    mp = ln if rng.random() < 0.7 else rng.choice(T_PORT_FAM)
    push({"op": "add_svc", "svc": {"name": "gpm%d" % step, "t": "PortMirror", "ifs": [target], "labels": [None], "bw": rng.choice([None, 5]),
                                   "mp": mp, "fac": None, "decl": False}})
    if rng.random() < 0.5:
        push({"op": "rm_svc", "svc": bridge})
    return out


def gen_edits(ts, rng, n, grow_at=None):
    """n edits of a slice, each applicable to the slice as the earlier ones left it: components attached to / detached from
    a node (separate graph nodes: the node's own properties stay as they are), nodes, services on free ports, facilities and
    the switch added / removed, a node renamed / resized / moved to another site (a node without ports: validate() refuses
    a move away from under inferred service sites), a service's bandwidth and a service port's label changed."""
    models = probe_models()
    nic = [m for m, (_, k, _) in models.items() if k > 0]
    dedicated = [m for m in nic if not m.startswith("SharedNIC")]
    plain = [m for m, (_, k, _) in models.items() if k == 0]
    ts = _norm_ts(ts)
    edits = []
    for step in range(n):
        if step == grow_at:
            edits.extend(growth_edits(ts, rng, step))
            continue
        cand = []
        used_nodes = {r[0] for s in ts["svcs"] for r in s["ifs"]}
        for i, nd in enumerate(ts["nodes"]):
            names = {c["name"] for c in nd["comps"]}
            fresh = [x for x in T_COMP_FAM + ["h%d" % step] if x not in names]
            cand += [("add_comp", i, fresh[0])] * 3
            if nd["comps"] and not any(tuple(r[:2]) == (i, len(nd["comps"]) - 1) for s in ts["svcs"] for r in s["ifs"]) \
                    and not any(tuple(r[:2]) == (i, len(nd["comps"]) - 1) for r in ts.get("burnt", [])):
                cand += [("rm_comp", i)] * 2
            cand += [("caps", i)] * 2
            cand.append(("scribble", "node_caps" if step % 2 else "node_sliver", i))
            if _plain_node(nd) and i not in used_nodes:
                cand.append(("site", i))
            cand.append(("rename", i))
        free_names = [x for x in T_NODE_FAM + ["hn%d" % step] if x not in {nd["name"] for nd in ts["nodes"]}]
        cand.append(("add_node",))
        if len(ts["nodes"]) > 1 and (len(ts["nodes"]) - 1) not in used_nodes and \
                not any(r[0] == len(ts["nodes"]) - 1 for r in ts.get("burnt", [])):
            cand.append(("rm_node",))
        free = _free_ports(ts)
        if free:
            cand += [("add_svc",)] * 2
        user = [i for i, s in enumerate(ts["svcs"]) if s.get("fac") is None]
        if user:
            cand += [("rm_svc",), ("bw",), ("bw",), ("scribble", "svc_caps" if step % 2 else "svc_sliver")]
            if any(ts["svcs"][i]["ifs"] and not ts["svcs"][i].get("sub") and ts["svcs"][i]["t"] != "PortMirror" for i in user):
                cand += [("label",), ("scribble", "label")]
        cand.append(("scribble", "passed"))
        cand.append(("add_fac",) if len(ts["facs"]) < 3 else ("caps", 0))
        if ts["facs"] and not any(s.get("fac") == len(ts["facs"]) - 1 for s in ts["svcs"]):
            cand.append(("rm_fac",))
        cand.append(("rm_switch",) if ts["switch"] else ("add_switch",))
        c = rng.choice(cand)
        op = c[0]
        sites = sorted({nd["site"] for nd in ts["nodes"]}) + [rng.choice(T_SITE_FAM)]
        if op == "add_comp":
            e = {"op": op, "node": c[1], "name": c[2], "model": rng.choice(plain if rng.random() < 0.6 else dedicated + nic)}
        elif op == "rm_comp":
            e = {"op": op, "node": c[1]}
        elif op == "caps":
            # often the size ANOTHER node has (or this one had): textually identical property values on several elements
            others = [nd["caps"] for j, nd in enumerate(ts["nodes"]) if nd["caps"] is not None and j != c[1]]
            caps = list(rng.choice(others)) if others and rng.random() < 0.4 else \
                [rng.choice([1, 2, 4, 8]), rng.choice([8, 16, 32]), rng.choice([10, 100, 500])]
            route = rng.choice(["set", "set_attr", "rmw", "rmw", "rmw1", "rmw_sliver"])
            old = ts["nodes"][c[1]]["caps"]
            if route == "rmw1" and old is not None:
                caps = [caps[0], old[1], old[2]]
            e = {"op": op, "node": c[1], "caps": caps, "route": route}
        elif op == "scribble":
            e = {"op": op, "what": c[1], "k": step}
            if c[1] in ("node_caps", "node_sliver"):
                e["node"] = c[2]
            elif c[1] == "label":
                e["svc"] = rng.choice([i for i in user if ts["svcs"][i]["ifs"] and not ts["svcs"][i].get("sub")
                                       and ts["svcs"][i]["t"] != "PortMirror"])
            elif c[1] != "passed":
                e["svc"] = rng.choice(user)
        elif op == "site":
            e = {"op": op, "node": c[1], "site": rng.choice(sites)}
        elif op == "rename":
            e = {"op": op, "node": c[1], "name": free_names[0]}
        elif op == "add_node":
            others = [nd["caps"] for nd in ts["nodes"] if nd["caps"] is not None]
            e = {"op": op, "name": free_names[0], "site": rng.choice(sites),
                 "caps": None if rng.random() < 0.2 else list(rng.choice(others)) if others and rng.random() < 0.5 else
                 [rng.choice([1, 2, 4]), rng.choice([8, 16]), rng.choice([10, 100])]}
        elif op == "add_svc":
            ded = [x for x in free if not ts["nodes"][x[0]]["comps"][x[1]]["model"].startswith("SharedNIC")]
            q = rng.random()
            if ded and q < 0.35:
                labelled = [s["labels"][0] for s in ts["svcs"] if s["labels"] and s["labels"][0] is not None and not s.get("sub")]
                mp = rng.choice(labelled) if labelled and rng.random() < 0.5 else rng.choice(T_PORT_FAM)
                sv = {"name": "hpm%d" % step, "t": "PortMirror", "ifs": [ded[0]], "labels": [None], "bw": rng.choice([None, 5]), "mp": mp,
                      "fac": None, "decl": False}
            elif q < 0.7:
                sv = {"name": "hex%d" % step, "t": rng.choice(["FABNetv4Ext", "FABNetv6Ext"]), "ifs": [rng.choice(free)], "labels": [None],
                      "bw": rng.choice([None, 2]), "mp": None, "fac": None, "decl": rng.random() < 0.3}
            else:
                sv = {"name": "hbr%d" % step, "t": "L2Bridge", "ifs": [rng.choice(free)], "labels": [rng.choice(T_PORT_FAM + [None])],
                      "bw": rng.choice([None, 1, 10]), "mp": None, "fac": None, "decl": rng.random() < 0.3}
            e = {"op": op, "svc": sv}
        elif op == "rm_svc":
            e = {"op": op, "svc": rng.choice(user)}
        elif op == "bw":
            e = {"op": op, "svc": rng.choice(user), "bw": rng.choice([1, 3, 25, 100]), "route": rng.choice(["set", "rmw", "rmw"])}
        elif op == "label":
            ok = [i for i in user if ts["svcs"][i]["ifs"] and not ts["svcs"][i].get("sub") and ts["svcs"][i]["t"] != "PortMirror"]
            e = {"op": op, "svc": rng.choice(ok), "label": rng.choice(T_PORT_FAM), "route": rng.choice(["set", "rmw"])}
        elif op == "add_fac":
            nm = [x for x in ["F1", "F10", "FF", "hf%d" % step] if x not in {f["name"] for f in ts["facs"]}][0]
            e = {"op": op, "name": nm, "site": rng.choice(sites + ["D"])}
        elif op == "add_switch":
            e = {"op": op, "name": "sw0", "site": rng.choice(sites)}
        else:
            e = {"op": op}
        edit_spec(ts, e)
        edits.append(e)
    return edits


def corner_histories():
    """(initial slice, edits): components attached to and detached from nodes that were collected before, and nothing else
    touched in between; a NIC (with its own service) attached and detached; a node's own property changed between
    (a slice growing on the nodes it has - NIC, labelled bridge, mirror of that port, bridge removed: corpus/C11/12)"""
    two = {"name": "c0", "model": "SmartNIC_ConnectX_6"}
    base = {"nodes": [{"name": "n1", "site": "RENC", "caps": [2, 8, 10], "hints": None, "comps": [dict(two)]},
                      {"name": "n2", "site": "UKY", "caps": [4, 16, 100], "hints": None, "comps": [dict(two, name="c1")]}],
            "switch": None, "facs": [], "svcs": []}
    return [
        (base, [{"op": "add_comp", "node": 0, "name": "gpu1", "model": "GPU_RTX6000"},
                {"op": "add_comp", "node": 0, "name": "fpga1", "model": "FPGA_Xilinx_U280"},
                {"op": "add_comp", "node": 1, "name": "nvme1", "model": "NVME_P4510"},
                {"op": "rm_comp", "node": 0}, {"op": "rm_comp", "node": 1},
                {"op": "add_comp", "node": 1, "name": "nic9", "model": "SharedNIC_ConnectX_6"},
                {"op": "caps", "node": 0, "caps": [8, 32, 500]}, {"op": "rm_comp", "node": 1}]),
        ({"nodes": [{"name": "n1", "site": "A", "caps": None, "hints": "fabric.c4.m16.d10", "comps": []}], "switch": None, "facs": [], "svcs": []},
         [{"op": "add_comp", "node": 0, "name": "c1", "model": "SmartNIC_ConnectX_6"},
          {"op": "add_svc", "svc": {"name": "hex", "t": "FABNetv4Ext", "ifs": [[0, 0, 0]], "labels": [None], "bw": 2, "mp": None,
                                    "fac": None, "decl": False}},
          {"op": "add_node", "name": "n10", "site": "AB", "caps": [1, 8, 10]}, {"op": "add_comp", "node": 1, "name": "c1", "model": "GPU_A30"},
          {"op": "rename", "node": 1, "name": "nn"}, {"op": "site", "node": 1, "site": "ABC"}, {"op": "add_fac", "name": "F1", "site": "D"},
          {"op": "rm_svc", "svc": 0}, {"op": "rm_node"}, {"op": "add_switch", "name": "sw0", "site": "A"}, {"op": "rm_fac"}]),
    ]


def run_history(ts0, edits, with_asm=True):
    """ONE topology object: build, validate, collect through every path; then after every edit validate and collect again
    through every path (the topology object itself, Node / service / component handles, the serialised model before and
    after validate()).  -> [(description at that stage, run)]; each stage is judged against the description as it is then."""
    import copy
    ts = _norm_ts(ts0)
    stages = []
    del _PASSED[:]
    no, so = list(range(len(ts["nodes"]))), list(range(len(ts["svcs"])))

    def case(i):
        return {"kind": "history", "tspec": ts0, "edits": edits[:i], "stage": i}
    try:
        t = build_topology(ts, no, so, validate=False)
    except Exception as e:
        return [(ts, {"node_order": no, "svc_order": so, "build_error": err_kind(e), "case": case(0)})]
    kept = {}
    try:
        for i in range(len(edits) + 1):
            run = {"node_order": no, "svc_order": so, "case": case(i)}
            try:
                if i > 0:
                    edit_topo(t, ts, edits[i - 1])
                    ts = copy.deepcopy(ts)
                    edit_spec(ts, edits[i - 1])
                pre = t.serialize()
                t.validate()
            except Exception as e:
                run["build_error"] = "edit:%s:%s" % (edits[i - 1]["op"] if i else "build", err_kind(e))
                stages.append((ts, run))
                break
            try:
                run["slice"] = model_of_tspec(ts, t)
                run["raw"] = raw_of_tspec(ts, run["slice"])
                # Node handles live as long as user code keeps them: each node is also collected through the handle
                # obtained at the first stage it was there
                cur = {n.node_id: n for n in t.nodes.values()}
                kept = {i: kept.get(i, h) for i, h in cur.items()}
                run["out"] = collect_real(t, with_asm, kept)
                if with_asm:
                    run["out"]["authz_asm_pre"], run["out"]["log_asm_pre"] = collect_asm(pre)
            except Exception as e:
                run["collect_error"] = "%s: %s" % (err_kind(e), e)
            stages.append((ts, run))
    finally:
        dispose(t)
    return stages


def _twin(ts, rng):
    """several elements with textually identical property values: every sized node gets the first one's size (a second node
    is added when there is one only), every service with a bandwidth the first one's"""
    sized = [n for n in ts["nodes"] if n["caps"] is not None]
    if not sized:
        ts["nodes"][0]["caps"], ts["nodes"][0]["hints"] = [2, 8, 10], None
        sized = [ts["nodes"][0]]
    for n in sized[1:]:
        n["caps"] = list(sized[0]["caps"])
    if len(sized) == 1:
        nm = [x for x in T_NODE_FAM + ["tw"] if x not in {n["name"] for n in ts["nodes"]}][0]
        ts["nodes"].append({"name": nm, "site": rng.choice([n["site"] for n in ts["nodes"]]), "caps": list(sized[0]["caps"]),
                            "hints": None, "comps": []})
    bws = [s for s in ts["svcs"] if s["bw"] is not None]
    for s in ts["svcs"]:
        if s.get("fac") is None and s["t"] != "PortMirror":
            s["bw"] = bws[0]["bw"] if bws else 10
    return ts


def history_runs(ctx, n=None, steps=None):
    """the edit histories of this check run, shared by correspondence and oracle -> [(description, [run])] like topo_runs"""
    key = ("hist", n, steps)
    cache = ctx.__dict__.setdefault("_c11_topo", {})
    if key not in cache:
        rng = ctx.sub_rng("history")
        hs = [(c["tspec"], c["edits"]) for _, c in load_corpus() if "edits" in c] + corner_histories()
        for i in range(n if n is not None else ctx.scale(4, 30)):
            ts = gen_tspec(rng, 1 + i % 2)
            if i % 2:
                _twin(ts, rng)
            k = steps or ctx.scale(5, 8)
            hs.append((ts, gen_edits(ts, rng, k, grow_at=rng.randrange(k))))
        # growth only, on a small slice that has no mirror yet (a mirror site listed already would hide a second one at the
        # same site): collected, grown on the nodes it has, collected after every step
        for i in range(ctx.scale(2, 12)):
            ts = gen_tspec(rng, 1 if ctx.scale(True, False) else 1 + i % 2)
            ts["svcs"] = [s for s in ts["svcs"] if s["t"] != "PortMirror"]
            hs.append((ts, growth_edits(_norm_ts(ts), rng, i)))
        out = []
        for ts0, edits in hs:
            for ts, run in run_history(ts0, edits):
                out.append((ts, [run]))
        cache[key] = out
    return cache[key]


def judge_tspec(ts, runs, res, with_asm=True):
    """Topology vs ASM; completeness / tallies against the description; equality across creation orders."""
    rows = []
    for run in runs:
        case = run.get("case") or {"kind": "topology", "tspec": ts, "node_order": run["node_order"], "svc_order": run["svc_order"]}
        if case["kind"] == "history":
            res.count("history:stage" if "out" in run else "history:stopped:" + run.get("build_error", "collect"))
            if case["edits"]:
                last = case["edits"][-1]
                res.count("history:edit:" + last["op"] + (":" + last["what"] if "what" in last else "")
                          + (":" + last["route"] if "route" in last else ""))
                sizes = [canon(n["caps"]) for n in ts["nodes"] if n["caps"] is not None]
                if len(sizes) != len(set(sizes)):
                    res.count("history:stage:nodes-with-identical-capacities")
        if "build_error" in run:
            res.count("topo-build-failed:" + run["build_error"])
            continue
        if "collect_error" in run:
            res.violation("C11:raises:" + run["collect_error"].split(":")[0], "collecting from a validated topology / its ASM raised "
                          + run["collect_error"], case)
            continue
        sl, out = run["slice"], run["out"]
        res.evaluations += 1
        if nontrivial(sl):
            res.nontrivial.add(canon(["topo", sl]))
        a = out["authz_topo"]
        if isinstance(a, tuple):
            check_authz(sl, a[0], a[1], a[2], res, case, "topo")
            a0 = a[0]
        else:
            res.violation("C11:raises:" + a[1], "PDP request raised", case)
            a0 = a
        check_log(sl, out["log_topo"], res, case, "topo")
        if with_asm:
            for key, lkey, tag, what in (("authz_asm", "log_asm", "topo-vs-asm", "its serialised model"),
                                         ("authz_asm_pre", "log_asm_pre", "topo-vs-asm-prevalidate",
                                          "the model serialised before validate() was run")):
                b = out[key]
                b0 = b[0] if isinstance(b, tuple) else b
                if isinstance(b, tuple):
                    # the request built from the model must be complete in its own right
                    check_authz(sl, b[0], b[1], b[2], res, case, tag)
                if a0[0] == "ok" and b0[0] == "ok":
                    x, y = canon_attrs(a0), canon_attrs(b0)
                    for k in sorted(set(x) | set(y)):
                        if x.get(k) != y.get(k):
                            res.violation("C11:%s:%s" % (tag, _short(k)), "attributes collected from the validated topology and from %s "
                                          "differ (%s)" % (what, _short(k)), case, expected=x.get(k), observed=y.get(k))
                elif a0[0] != b0[0]:
                    res.violation("C11:%s:raises" % tag, "collection succeeds on one of topology / model and raises on the other", case)
                if canon_log(out["log_topo"]) != canon_log(out[lkey]):
                    res.violation("C11:%s:log" % tag, "accounting summary from the validated topology and from %s differ" % what, case,
                                  expected=canon_log(out["log_topo"]), observed=canon_log(out[lkey]))
        if "authz_members" in out:
            msl, mcase = for_dispatch(sl), dict(case, entry="members")
            b = out["authz_members"]
            if isinstance(b, tuple):
                check_authz(msl, b[0], b[1], b[2], res, mcase, "members")
            else:
                res.violation("C11:raises:" + b[1], "PDP request raised (member-level sources)", mcase)
            check_log(msl, out["log_members"], res, mcase, "members")
            check_log(components_only(sl), out["log_components"], res, dict(case, entry="components"), "components")
        if "authz_members_kept" in out:
            msl, mcase = for_dispatch(sl), dict(case, entry="members-kept")
            b = out["authz_members_kept"]
            res.count("history:kept-handles")
            if isinstance(b, tuple):
                check_authz(msl, b[0], b[1], b[2], res, mcase, "members-kept")
            else:
                res.violation("C11:raises:" + b[1], "PDP request raised (Node handles kept from an earlier stage)", mcase)
            check_log(msl, out["log_members_kept"], res, mcase, "members-kept")
        rows.append((sl, a0, out["log_topo"]))
    if rows:
        check_orders(rows, res, "topology", "topo")


def eval_tspec(ts, rng, res, k, with_asm=True):
    judge_tspec(ts, run_tspec(ts, rng, k, with_asm), res, with_asm)


def topo_runs(ctx, n=None, k=None):
    """The real-topology runs of this check run, shared by correspondence and oracle (building is the expensive part)."""
    key = (n, k)
    cache = ctx.__dict__.setdefault("_c11_topo", {})
    if key not in cache:
        tcases, trng = _tcases(ctx, "topo", n or ctx.scale(12, 200))
        def weight(ts):
            return len(ts["nodes"]) + sum(len(n["comps"]) for n in ts["nodes"]) + len(ts["svcs"])
        # (every lookup of the topology API scans the whole store: the cost of one run grows with the square of the slice)
        cache[key] = [(ts, run_tspec(ts, trng, k or (ctx.scale(3, 4) if weight(ts) <= 8 else ctx.scale(2, 3)))) for ts in tcases]
    return cache[key]


# --------------------------------------------------------------------------
# value objects: a caller's history over the objects a slice of VMs hands out (Model/Authz.lean `VObj`)

VOBJ_SIZES = [[32, 128, 500], [32, 128, 500], [2, 8, 10], [1, 2, 10], [0, 8, 0], None]      # (all-zero capacities are stored as no capacities at all)
VOBJ_READS = ["attr", "get_property", "sliver"]
VOBJ_WRITES = ["attr", "set_property", "set_properties"]


def gen_vobj(rng, k, n):
    """k VMs (mostly equally sized), n operations: read an element's capacities (three routes), build an object, change a held
    object in place, write a held object to an element (three routes), unset. Handles count the objects in the order the caller
    obtained them (a read of an unset element hands out nothing)."""
    stored = [rng.choice(VOBJ_SIZES[:4] if rng.random() < 0.85 else VOBJ_SIZES) for _ in range(k)]
    cur, handles, ops, routes = list(stored), 0, [], []
    for _ in range(n):
        r = rng.random()
        if r < 0.35 or handles == 0:
            i = rng.randrange(k)
            ops.append(["read", i]); routes.append(rng.choice(VOBJ_READS))
            handles += cur[i] is not None
        elif r < 0.45:
            ops.append(["new", rng.choice(VOBJ_SIZES[:5])]); routes.append(None)
            handles += 1
        elif r < 0.75:
            ops.append(["poke", rng.randrange(handles + (rng.random() < 0.05)), [rng.choice([1, 3, 32, 64]), rng.choice([2, 128]), rng.choice([10, 500])]])
            routes.append(None)
        elif r < 0.95:
            i = rng.randrange(k)
            ops.append(["write", i, rng.randrange(handles + (rng.random() < 0.05))]); routes.append(rng.choice(VOBJ_WRITES))
            cur[i] = True if ops[-1][2] < handles else cur[i]
        else:
            i = rng.randrange(k)
            if cur[i] is None:
                continue        # (unsetting a property that is not set is refused by the graph layer)
            ops.append(["unset", i]); routes.append(None)
            cur[i] = None
    return {"stored": stored, "ops": ops, "routes": routes}


def corner_vobj():
    big = [32, 128, 500]
    return [
        # (seeded C11-r6-1 / corpus 11) two equal VMs, one shrunk by read - change - write back
        {"stored": [big, big], "ops": [["read", 1], ["poke", 0, [1, 2, 10]], ["write", 1, 0]], "routes": ["attr", None, "attr"]},
        # an object read and changed, never written back
        {"stored": [big], "ops": [["read", 0], ["poke", 0, [1, 2, 10]]], "routes": ["sliver", None]},
        # an object handed to the slice and changed afterwards; the same object written to two elements, changed between
        {"stored": [big, None, big], "ops": [["new", [2, 8, 10]], ["write", 0, 0], ["poke", 0, [64, 128, 500]], ["write", 1, 0],
                                             ["poke", 0, [3, 2, 10]], ["read", 2], ["write", 2, 1], ["unset", 0], ["read", 0]],
         "routes": [None, "set_property", None, "set_properties", None, "get_property", "attr", None, "attr"]},
    ]


def vobj_expect(case):
    """reference semantics, straight from the wording: an element stores a value; a read hands out a NEW object holding it; a
    write stores the value the object holds at that moment"""
    stored, heap = [None if c is None else list(c) for c in case["stored"]], []
    for op in case["ops"]:
        if op[0] == "read":
            if stored[op[1]] is not None:
                heap.append(list(stored[op[1]]))
        elif op[0] == "new":
            heap.append(list(op[1]))
        elif op[0] == "poke":
            if op[1] < len(heap):
                heap[op[1]] = list(op[2])
        elif op[0] == "write":
            if op[2] < len(heap):
                stored[op[1]] = list(heap[op[2]])
        elif op[0] == "unset":
            stored[op[1]] = None
    sized = [c for c in stored if c is not None]
    return {"presented": stored, "handles": len(heap), "cpu": [c[0] for c in sized], "ram": [c[1] for c in sized],
            "disk": [c[2] for c in sized], "cores": sum(c[0] for c in sized)}


def impl_vobj(case):
    from fim.user.topology import ExperimentTopology
    from fim.slivers.capacities_labels import Capacities
    from fim.authz.attribute_collector import ResourceAuthZAttributes as AZ
    from fim.logging.log_collector import LogCollector
    t = ExperimentTopology()
    try:
        nodes = [t.add_node(name="v%d" % i, site="S", **({"capacities": Capacities(core=c[0], ram=c[1], disk=c[2])} if c is not None else {}))
                 for i, c in enumerate(case["stored"])]
        heap = []
        for op, route in zip(case["ops"], case.get("routes") or [None] * len(case["ops"])):
            if op[0] == "read":
                n = nodes[op[1]]
                c = n.get_property("capacities") if route == "get_property" else n.get_sliver().capacities if route == "sliver" \
                    else n.capacities
                if c is not None:
                    heap.append(c)
            elif op[0] == "new":
                heap.append(Capacities(core=op[1][0], ram=op[1][1], disk=op[1][2]))
            elif op[0] == "poke":
                if op[1] < len(heap):
                    heap[op[1]].core, heap[op[1]].ram, heap[op[1]].disk = op[2]
            elif op[0] == "write":
                if op[2] < len(heap):
                    if route == "set_property":
                        nodes[op[1]].set_property("capacities", heap[op[2]])
                    elif route == "set_properties":
                        nodes[op[1]].set_properties(capacities=heap[op[2]])
                    else:
                        nodes[op[1]].capacities = heap[op[2]]
            elif op[0] == "unset":
                nodes[op[1]].unset_property("capacities")
        t.validate()
        presented = []
        for n in t.nodes.values():
            c = n.get_sliver().capacities
            presented.append(None if c is None else [c.core, c.ram, c.disk])
        az = AZ()
        az.collect_resource_attributes(source=t)
        lc = LogCollector()
        lc.collect_resource_attributes(source=t)
        return ["ok", {"presented": presented, "handles": len(heap), "cpu": list(az.attributes.get(AZ.RESOURCE_CPU, [])),
                       "ram": list(az.attributes.get(AZ.RESOURCE_RAM, [])), "disk": list(az.attributes.get(AZ.RESOURCE_DISK, [])),
                       "cores": lc.attributes["core_count"]}]
    except Exception as e:
        return ["err", err_kind(e)]
    finally:
        dispose(t)


def vobj_cases(ctx, n=None):
    key = ("vobj", n)
    cache = ctx.__dict__.setdefault("_c11_topo", {})
    if key not in cache:
        rng = ctx.sub_rng("vobj")
        cases = corner_vobj() + [gen_vobj(rng, 1 + i % 4, 3 + i % 9) for i in range(n if n is not None else ctx.scale(150, 1500))]
        cache[key] = [(c, impl_vobj(c)) for c in cases]
    return cache[key]


def eval_vobj(case, got, res):
    exp = vobj_expect(case)
    c = {"entry": "value-objects", "vobj": case}
    res.evaluations += 1
    sizes = [canon(x) for x in case["stored"] if x is not None]
    if len(sizes) != len(set(sizes)):
        res.count("value-objects:elements-with-identical-text")
    for op, route in zip(case["ops"], case.get("routes") or []):
        res.count("value-objects:%s%s" % (op[0], ":" + route if route else ""))
    if got[0] != "ok":
        res.violation("C11:raises:" + got[1], "collecting from a slice of VMs after a history over its value objects raised", c)
        return
    for k, what in (("cpu", "resource-cpu"), ("ram", "resource-ram"), ("disk", "resource-disk")):
        if sorted(got[1][k]) != sorted(exp[k]):
            res.violation("C11:value-objects:" + what, "after a caller's reads / in-place changes / writes of capacities objects the "
                          "request does not name the %s every node stores" % k, c, expected=exp[k], observed=got[1][k])
    if got[1]["cores"] != exp["cores"]:
        res.violation("C11:value-objects:log:cores", "accounting core count differs from a tally of the stored sizes", c,
                      expected=exp["cores"], observed=got[1]["cores"])
    if got[1]["presented"] != exp["presented"]:
        res.violation("C11:value-objects:presented", "get_sliver() of a node does not present the size the node stores", c,
                      expected=exp["presented"], observed=got[1]["presented"])


# --------------------------------------------------------------------------
# pipeline hooks

def _cases(ctx, tag, n, size=4):
    rng = ctx.sub_rng(tag)
    out = [{k: v for k, v in c.items() if k != "_what"} for _, c in load_corpus() if "nodes" in c] + corner_slices() + relation_slices()
    for i in range(n):
        out.append(gen_slice(rng, 1 + (i % size) + (2 if i % 7 == 0 else 0)))
    return out, rng


def _tcases(ctx, tag, n):
    rng = ctx.sub_rng(tag)
    out = [c["tspec"] for _, c in load_corpus() if "tspec" in c and "edits" not in c] + corner_tspecs()
    for i in range(n):
        out.append(gen_tspec(rng, 1 + i % 3))
    return out, rng


def _unordered_components(reply):
    if reply[0] != "ok":
        return reply
    d = json.loads(canon(reply[1]))
    if "components" in d:
        d["components"] = sorted(d["components"])
    for kv in d.get("attrs", []):
        if kv[0].endswith("resource-component"):
            kv[1].sort()
    for c in d.get("pdp", []):
        for a in c[1]:
            if a[0].endswith("resource-component"):
                a[2].sort()
    return [reply[0], d]


def correspondence(ctx, res):
    from core import Result
    scratch = Result()
    cases, rng = _cases(ctx, "corr", ctx.scale(150, 2500))
    reqs, impl = [], []
    for sl in cases:
        for entry in ("fold", "dispatch"):
            perms = permutations_of(sl, rng, ctx.scale(8, 24))
            for p in (perms if entry == "fold" else perms[:3]):
                q = p if entry == "fold" else for_dispatch(p)
                a, _, _ = impl_authz(q, entry)
                reqs.append(["authz", q]); impl.append(a)
                reqs.append(["log", q]); impl.append(impl_log(q, entry))
                res.count("entry:" + entry, 2)
    shared_at = {}
    for sl in cases:
        q = for_dispatch(sl)
        shared_at[len(reqs)] = True
        reqs.append(["shared", q]); impl.append(impl_shared(q))
        res.count("entry:shared-slivers")
    if legacy_writing_class() is not None:
        for sl in cases[:ctx.scale(120, 600)]:
            q = for_dispatch(sl)
            shared_at[len(reqs)] = True
            reqs.append(["shared-legacy", q]); impl.append(impl_shared(q, legacy_writing_class()))
            res.count("entry:shared-slivers-legacy")
    else:
        ctx.notes.append("collector before %s not available from git; svcStepObjLegacy not compared" % FIX2_COMMIT)
    if legacy_class() is not None:
        for sl in cases[:ctx.scale(60, 400)]:
            for p in permutations_of(sl, rng, 6):
                reqs.append(["authz-legacy", p]); impl.append(impl_authz_legacy(p))
                res.count("entry:legacy-fold")
    else:
        ctx.notes.append("pre-repair collector not available from git; collectLegacy not compared")
    n_exact = len(reqs)
    for ts, runs in topo_runs(ctx) + history_runs(ctx):
        for run in runs:
            if "out" not in run:
                res.count("topo-not-collected")
                continue
            raw, out = run["raw"], run["out"]
            for k in ("authz_topo", "authz_asm", "authz_asm_pre"):
                r = out[k]
                reqs.append(["authz-asm", raw]); impl.append(r[0] if isinstance(r, tuple) else r)
            for k in ("log_topo", "log_asm", "log_asm_pre"):
                reqs.append(["log-asm", raw]); impl.append(out[k])
            res.count("entry:topology", 2)
            res.count("entry:asm", 2)
            res.count("entry:asm-prevalidate", 2)
            if "authz_members" in out:
                msl = for_dispatch(run["slice"])
                r = out["authz_members"]
                reqs.append(["authz", msl]); impl.append(r[0] if isinstance(r, tuple) else r)
                reqs.append(["log", msl]); impl.append(out["log_members"])
                reqs.append(["log", components_only(run["slice"])]); impl.append(out["log_components"])
                res.count("entry:topology-members", 2)
                for u in out.get("unsupported", []):
                    res.count("members:handle-class-refused-by-dispatch:" + u)
                res.count("entry:components", 1)
    for c, got in vobj_cases(ctx):
        shared_at[len(reqs)] = True
        reqs.append(["vobj", c]); impl.append(got)
        res.count("entry:value-objects")
    model = LeanDriver("C11").run([json.dumps(r) for r in reqs])
    for idx, (r, i, m) in enumerate(zip(reqs, impl, model)):
        res.evaluations += 1
        res.count("op:" + r[0])
        if idx in shared_at:
            if json.loads(canon(json.loads(m))) != json.loads(canon(i)):
                res.disagreements.append({"case": r, "impl": i, "model": json.loads(m)})
            continue
        if i[0] == "err":
            res.count("err:" + i[1])
        else:
            if r[0].startswith("authz"):
                for k, _ in i[1]["attrs"]:
                    res.count("attr:" + _short(k))
        if nontrivial(r[1]):
            res.nontrivial.add(canon(r))
        mm = json.loads(m)
        if idx >= n_exact:
            # real topologies: the order of a node's components inside its sliver is the graph's neighbour order
            # (topology API, not the collectors) - compare the component values as a multiset
            i, mm = _unordered_components(i), _unordered_components(mm)
        if json.loads(canon(mm)) != json.loads(canon(i)):
            res.disagreements.append({"case": r, "impl": i, "model": mm})
    if reqs:
        res.sample({"request": reqs[0], "impl": impl[0], "model": json.loads(model[0])})
        res.sample({"request": reqs[-2], "impl": impl[-2], "model": json.loads(model[-2])})


def full_request(res):
    """One request with every setter used (lifetime, subject, action, resource subject/project) on top of a collected
    slice: every attribute the class can emit goes through transform_to_pdp_request."""
    from datetime import datetime, timedelta, timezone
    from fim.authz.attribute_collector import ResourceAuthZAttributes
    sl = corner_slices()[3]
    case = {"kind": "slice", "entry": "full-request", "slice": sl}
    az = ResourceAuthZAttributes()
    try:
        az._collect_attributes_from_topo(_Topo(sl))
        az.set_lifetime(datetime.now(timezone.utc) + timedelta(days=13, hours=11, minutes=7, seconds=4, milliseconds=10))
        az.set_subject_attributes(subject_id="user@example.org", project=["Project1"], project_tag=["Tag1", "Tag2"])
        az.set_action("create")
        az.set_resource_subject_and_project(subject_id="user@example.org", project="Project1")
        r = _authz_reply(az)
    except Exception as e:
        res.violation("C11:raises:" + err_kind(e), "building a full request raised %s" % type(e).__name__, case)
        return
    res.evaluations += 1
    if isinstance(r, tuple):
        check_authz(sl, r[0], r[1], r[2], res, case, "full-request")
    else:
        res.violation("C11:raises:" + r[1], "transform_to_pdp_request raised on a full request (attribute without a table row?)", case)


def _count_relations(res, sl, tag):
    for r in mirror_relations(sl):
        res.count("%s:mirrored-port-vs-in-slice-port:%s" % (tag, r))
    for r in site_relations(sl):
        res.count("%s:site-names:%s" % (tag, r))
    if any(n["t"] == "VM" and n.get("caps") is None and n.get("alloc") is None for n in sl["nodes"]):
        res.count("%s:vm-without-capacities" % tag)
    kinds = {}
    for s in sl["svcs"]:
        if s["t"] in LISTED and s["site"]:
            kinds.setdefault(s["site"], set()).add(s["t"])
    if any(len(v) >= 2 for v in kinds.values()):
        res.count("%s:several-listed-kinds-at-one-site" % tag)


def oracle(ctx, res, n=None, nt=None):
    cases, rng = _cases(ctx, "oracle", n or ctx.scale(250, 4000))
    full_request(res)
    for fn, c in load_corpus():
        res.count("corpus:" + fn)
    for sl in cases:
        _count_relations(res, sl, "slice")
        eval_slice(sl, rng, res, "fold", 24)
        eval_slice(sl, rng, res, "dispatch", 4)
        eval_shared(sl, res)
    for ts, runs in topo_runs(ctx, nt) + history_runs(ctx, None if nt is None else max(4, nt // 3)):
        for run in runs[:1]:
            if "slice" in run:
                _count_relations(res, run["slice"], "topology")
        if any(s.get("sub") for s in ts["svcs"]):
            res.count("topology:service-on-sub-interface")
        if any(not s["ifs"] for s in ts["svcs"]):
            res.count("topology:service-without-interfaces")
        judge_tspec(ts, runs, res)
    for c, got in vobj_cases(ctx, None if nt is None else max(60, nt * 20)):
        eval_vobj(c, got, res)
    res.sample({"slice": cases[len(cases) // 2], "checked": "completeness, order independence over stored orders, PDP request "
                "shape, accounting tallies; topology vs ASM on real topologies"})


def small_scope(res, rng):
    """Exhaustive over the port family: (two in-slice ports, one mirror) and (one in-slice port, two mirrors at two sites)."""
    for a in PORT_FAM:
        for b in PORT_FAM:
            for c in PORT_FAM:
                eval_slice({"nodes": [], "svcs": [_sv("pm", "PortMirror", "S", c)], "facs": [], "ifaces": [[a], [b]]}, rng, res, "fold", 2)
                eval_slice({"nodes": [], "svcs": [_sv("pm", "PortMirror", "S", b), _sv("pm2", "PortMirror", "T", c)], "facs": [],
                            "ifaces": [[a]]}, rng, res, "fold", 2)
    for x in SITE_FAM:
        for y in SITE_FAM:
            for t1 in LISTED:
                for t2 in LISTED:
                    eval_slice({"nodes": [], "svcs": [_sv("s1", t1, x, "o1"), _sv("s10", t2, y, "o2")], "facs": [], "ifaces": []},
                               rng, res, "fold", 2)


def search(ctx, res, broken):
    small_scope(res, ctx.sub_rng("small-scope"))
    oracle(ctx, res, n=ctx.scale(800, 6000), nt=ctx.scale(30, 200))


def replay(ctx, payload):
    from core import Result
    r = Result()
    c = payload["case"]
    rng = ctx.sub_rng("replay")
    if c.get("entry") == "full-request":
        full_request(r)
    elif c.get("entry") == "shared-slivers":
        eval_shared(c["slice"], r)
    elif c.get("entry") == "value-objects":
        eval_vobj(c["vobj"], impl_vobj(c["vobj"]), r)
    elif c.get("kind") == "history":
        for ts, run in run_history(c["tspec"], c["edits"]):
            judge_tspec(ts, [run], r)
    elif c.get("kind") == "topology":
        ts = c["tspec"]
        for s in ts["svcs"]:
            s["ifs"] = [tuple(x) for x in s["ifs"]]
        eval_tspec(ts, rng, r, 6)
    else:
        eval_slice(c["slice"], rng, r, c.get("entry", "fold"), 120)
        if "reordered" in c:
            eval_slice(c["reordered"], rng, r, c.get("entry", "fold"), 2)
    for v in r.violations:
        print("  ", v["signature"], v["what"])
    want = payload.get("signature")
    return any(v["signature"] == want for v in r.violations) if want else bool(r.violations)
