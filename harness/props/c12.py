"""C12 - delegations and pools survive encoding and regrouping unchanged."""
import copy
import json
import os

import core
from core import LeanDriver, err_kind, canon
from gen import delegconsts
from gen import fields as genfields

ID = "C12"
# Generated/Fields.lean (C03's class specifications of Capacities / Labels) is what the details of a delegation are
# modelled on: regenerate it in a C12 run too
def gen_delegconsts():
    return delegconsts.generate()


def gen_fields():
    return genfields.generate()


GENERATORS = [gen_delegconsts, gen_fields]
LEAN_MODULES = ["FimVerif.Proofs.C12"]
P = "FimVerif.C12."
THEOREMS = [P + t for t in (
    "delegations_roundtrip", "reserved_name_rejected", "constructed_pool_name", "det_roundtrip",
    # the reserved-name test is equality with the generated constant at every site (constructors, add_pool, decoder)
    "sentinel_exact_sites", "sentinel_exact_decode",
    "rejects_mixed_details", "rejects_mixed_container", "rejects_mixed_in_call", "rejects_mixed_pools", "decode_rejects_other_type",
    "add_delegations_accepts_iff", "rejects_duplicate_id", "rejects_duplicate_in_call", "rejects_duplicate_across_calls",
    "add_delegations_state", "rejects_details_on_reference", "decode_rejects_details_on_reference",
    "generate_ok_of_noClash", "generate_rejects_clash", "incorporate_any_arrangement", "incorporate_entries", "pools_roundtrip",
    "pools_roundtrip_any_order", "pools_roundtrip_text",
    # details = the C03 model of Capacities / Labels: the codec hypothesis discharged from C03's theorems
    "dict_roundtrip", "detOk_real", "delegations_roundtrip_real", "pools_roundtrip_text_real", "capReal_real", "labReal_real",
    # what the API can construct: invariants over all histories of calls
    "built_inv", "reachable_inv", "delegations_roundtrip_api", "delegations_roundtrip_api_real", "family_of_buildPools",
    "generate_rejects_mixed_pool_details",
    # single-resource delegations among the entries; annotate_delegations_and_pools / get_delegations
    "incorporate_with_singles", "generate_nodes", "annotate_readback", "annotate_rejects_shared_node", "annotate_readback_real",
    "singlesOf_spec", "single_delegation_readback", "single_delegation_both",
    # histories on one container with object identity: pools edited / replaced / completed between indexing runs
    "hist_index_fresh", "hist_pools_roundtrip", "hist_pools_roundtrip_any_history")]
TRUSTED_BASE = [
    "gen/delegconsts.py: key/sentinel constants by import; the strings to_json/from_json (and the module functions they call) can use "
    "as keys, resolved by value through any alias, are exactly these constants; behavioural probes of the dispatch (to_json writes the "
    "model's keys for every DelegationFormat member, from_json looks at FIELD_POOL_ID before FIELD_POOL, sentinels; the reserved-name test "
    "of Delegation(...), Pool(...), add_pool, to_json and from_json is EQUALITY with SINGLE_POOL_NAME: 13 names that start / end with, "
    "contain, double, pad or look like it, or spell NEO4j_NONE, are ordinary pool names at every site)",
    "gen/fields.py (C03's translator): field lists, defaults, _set_fields guard and to_dict drop rule of Capacities / Labels",
    "Model/Deleg.lean mirrors by hand Delegation/Delegations/Pool/Pools (constructor, set_details, add_delegations, to_json, from_json, "
    "add_pool, get_pool_by_id, validate_pool, build_index_by_delegation_id, generate_delegations_by_node_id, incorporate_delegation) and "
    "ABCARMPropertyGraph.annotate_delegations_and_pools / get_delegations (as the list of property writes / from_json of a property text) and "
    "SubstrateTopology.single_delegation / __copy_to_delegations over the list of model elements (node id, stitch flag, own capacities / "
    "labels - read from the real topology by the harness); the correspondence drives annotate on a recording stand-in for the graph and "
    "single_delegation on real substrate topologies (comparing every node's two delegation properties as stored in the graph); checked differentially",
    "json.dumps/json.loads are the identity on the JSON value handed over (objects = insertion-ordered dicts); JSON text is not modelled",
    "details: abstract in the generic theorems (kindOf/toDict/fromDict, the details' own round trip as hypothesis DetOk); the _real theorems "
    "and the driver use the C03 model of Capacities(**kw)/Labels(**kw)/to_dict (Model/Codec.lean on the regenerated class specifications) "
    "and discharge DetOk from C03's losslessness theorems; the label value validators (regex/range: C16's subject) are the abstract "
    "predicate `valid` in the theorems and accept-all in the driver",
    "Python sets (Pool.for_) are duplicate-free lists; dict iteration order = insertion order",
    "Model/DelegHeap.lean: Pool objects are numbered heap cells, pool_by_id and pools_by_delegation hold numbers, the setters of Pool "
    "rewrite a cell (hand-mirrored; the pseq stream of the correspondence edits, replaces and completes pools between indexing runs and "
    "generates with and without a fresh run)",
]
ASSUMPTIONS = [
    "delegation ids, pool ids and node ids are str; pool names read from JSON are str or null",
    "the pools clause is claimed for a generate that follows an indexing run with no setter call in between (a Pool edited after the "
    "run is generated under the delegation id it had at the run: modelled in Model/DelegHeap.lean and compared differentially, not "
    "judged); incorporate_delegation into an indexed container is judged by the oracle only, not modelled",
    "label values offered to the model are ones the Labels validators accept",
    "a Delegation object is not mutated after it was handed to add_delegations (the container aliases it; the model stores values)",
]
RULE = ("pool names and delegation ids in every stream are drawn about every third time from an alphabet related to the sentinels (the "
        "reserved name as prefix / suffix / infix / doubled / padded, unicode look-alikes, spellings of None, empty / blank, ids that are "
        "prefixes of one another; deterministic corner sets for each of them); "
        "delegation sets of 1..5 entries over 4 ids x 3 formats x capacity/label details (edge ints, validated and free label strings, lists), "
        "every order of the formats, built through the API and decoded from mutated JSON; add_delegations calls of 0..4 arguments with a "
        "duplicate / other-type argument at every position; pool families of 1..4 pools x 5 nodes x 3 delegation ids through both "
        "construction paths, read back in dictionary order and in given node orders (all orders for <= 3 nodes); per-node delegation lists for "
        "incorporate; families plus per-node single-resource delegations through annotate_delegations_and_pools; histories on one Pools object "
        "(1..4 pools, some unfinished; 1..3 rounds of 0..3 edits - re-delegation, completion, more / other nodes, another defining node, other "
        "details, a replaced or new pool, an incorporated node - each followed by an indexing run and generate; 20 deterministic histories "
        "per type). non-trivial = >= 2 entries or "
        ">= 1 pool with >= 2 reference nodes; distinct by canonical request")

CORPUS = os.path.join(core.CORPUS_DIR, "C12")
TYPES = ["CAPACITY", "LABEL"]
FORMATS = ["SinglePool", "PoolDefinition", "PoolReference"]
EDGE = [0, 1, 1, 2, 3, 8, 100, 4096, 2 ** 31, 2 ** 63, 2 ** 64 + 1, 10 ** 30]
LABEL_OK = {
    "bdf": ["0000:25:00.1", "00a1:41:00.0"], "mac": ["00:11:22:33:44:55", "04:3F:72:B7:19:5C"], "ipv4": ["192.168.1.1", "10.0.0.254"],
    "ipv4_range": ["192.168.1.1-192.168.1.10"], "ipv4_subnet": ["192.168.1.0/24"], "ipv6": ["2001:db8::1"],
    "ipv6_range": ["2001:db8::1-2001:db8::ff"], "ipv6_subnet": ["2001:db8::/48"], "asn": ["12345", "1"], "vlan": ["100", "0", "4096"],
    "vlan_range": ["100-200", "1-4096", "1500-2000"], "inner_vlan": ["3"], "bgp_key": ["abcdef12"], "account_id": ["acct-123"],
    "region": ["us-east-1"], "usb_id": ["1234:abcd"], "numa": ["3", "-1"],
}
FREE_STR = ["p1", "", " ", "HundredGigE0/0/0/5", "a\"b", "back\\slash", "line\nbreak", "café", "☃", "_", "None", "{}", "0", "null"]
POOL_NAMES = ["p1", "p2", "shared_pool", "pool-x", "p1", "p2", "", "ü-pool", "P1", "pool", "pool_id"]
IDS = ["del1", "del2", "primary", "dél", "", "pool_id"]
NODES = ["n1", "n2", "n3", "n4", "n5"]
_ADV = {}


def adv():
    """pool NAMES and delegation IDS from alphabets related to the codec's sentinels (SINGLE_POOL_NAME marks a single-resource
    delegation in the text, NEO4j_NONE an absent property): the sentinel as prefix / suffix / infix / doubled / padded, its
    unicode look-alikes, the spellings of None, the empty and blank name; ids additionally the sentinel itself (an id is never
    reserved) and ids that are prefixes / extensions of one another.  Only the exact name SINGLE_POOL_NAME is reserved (and only for
    pools), so every one of these must behave like any other name in every stream (cf. seeded C12-r4-1)."""
    if not _ADV:
        K = mods()[2]
        S, N = K.SINGLE_POOL_NAME, K.NEO4j_NONE
        rel = [S + "mgmt", S + "x", "x" + S, S + S, " " + S, S + " ", "a" + S + "b", S + "\u200b", "\uff3f", "\u2017", "\ufe4d", "x\u0332",
               S.upper() + "1", N, N.lower(), N.upper(), N + " ", " " + N, S + N, N + S, "null", "", " ", K.FIELD_POOL, K.FIELD_POOL_ID + S]
        _ADV["pools"] = [x for x in dict.fromkeys(rel) if x != S]
        _ADV["ids"] = list(dict.fromkeys([S] + rel + ["del1", "del", "del11", "del1 ", "Del1", "del1" + S, S + "del1"]))
    return _ADV


def name_class(names):
    """how the names of a failing case relate to the sentinels (part of the signature)"""
    K = mods()[2]
    S, N = K.SINGLE_POOL_NAME, K.NEO4j_NONE
    names = [n for n in names if isinstance(n, str)]
    if any(S in n and n != S for n in names):
        return ":name-contains-single-sentinel"
    if any(n.strip().lower() == N.lower() for n in names):
        return ":name-spelled-none"
    if any(n.strip() == "" for n in names):
        return ":name-blank"
    return ""


def names_in(x, out=None):
    """the pool names / delegation ids the specifications inside a request or case carry: [("pool" | "did", name)]"""
    out = [] if out is None else out
    if isinstance(x, dict):
        if "fmt" in x:                         # delegation specification
            out += [("pool", x.get("pool")), ("did", x.get("id"))]
        elif "mode" in x:                      # pool specification
            out += [("pool", x.get("id")), ("did", x.get("deleg"))]
        else:
            if "delegation" in x:              # topology specification
                out.append(("did", x["delegation"]))
            for v in x.values():
                names_in(v, out)
    elif isinstance(x, (list, tuple)):
        for v in x:
            names_in(v, out)
    return out


def count_names(res, x, where):
    """evidence: how many cases of a stream carry a pool name / delegation id of the adversarial alphabet"""
    A = adv()
    got = names_in(x)
    if any(k == "pool" and v in A["pools"] for k, v in got):
        res.count("adv-pool-name:" + where)
    if any(k == "did" and v in A["ids"] and not str(v).startswith("del") for k, v in got):
        res.count("adv-delegation-id:" + where)


def pick_pool(rng):
    return rng.choice(adv()["pools"]) if rng.random() < 0.35 else rng.choice(POOL_NAMES)


def id_choices(rng, base, k=3):
    """the ids a generator draws from: the ordinary ones, or (about every third time) ids of the adversarial alphabet"""
    if rng.random() < 0.35:
        return rng.sample(adv()["ids"], k)
    return list(base)


def mods():
    import fim.slivers.delegations as dm
    import fim.slivers.capacities_labels as cl
    from fim.graph.abc_property_graph_constants import ABCPropertyGraphConstants as K
    return dm, cl, K


# --------------------------------------------------------------------------
# wire forms


def to_wire(o):
    if isinstance(o, dict):
        return {"o": [[k, to_wire(v)] for k, v in o.items()]}
    if isinstance(o, list):
        return {"a": [to_wire(x) for x in o]}
    if isinstance(o, float):
        return {"f": 0}
    return o


def un_wire(w):
    if isinstance(w, dict):
        if "o" in w:
            return {k: un_wire(v) for k, v in w["o"]}
        if "a" in w:
            return [un_wire(x) for x in w["a"]]
        return 1.5
    return w


def kind_of(x, cl):
    return "CAPACITY" if isinstance(x, cl.Capacities) else "LABEL" if isinstance(x, cl.Labels) else "?" + type(x).__name__


def det_canon(x, cl):
    if x is None:
        return None
    return [kind_of(x, cl), [[k, v] for k, v in x.__dict__.items()]]


def deleg_canon(d, cl):
    return [d.delegation_id, d.format.name, d.pool_id, det_canon(d.delegation_details, cl), d.type.name]


def delegs_canon(ds, cl):
    return [ds.type.name, [deleg_canon(d, cl) for d in ds.delegations.values()]]


def pool_canon(p, cl):
    return [p.pool_id, p.type.name, p.delegation_id, p.on_, sorted(p.for_), det_canon(p.pool_details, cl)]


def pools_canon(ps, cl):
    return [pool_canon(p, cl) for _, p in sorted(ps.pool_by_id.items())]


def mk_det(det, cl):
    if det is None:
        return None
    cls = cl.Capacities if det[0] == "CAPACITY" else cl.Labels
    return cls(**un_wire(det[1]))


def build_delegs(cty, specs, dm, cl):
    """Delegations through the API: details object, Delegation(...), set_details, add_delegations - one after the other."""
    ds = dm.Delegations(atype=dm.DelegationType[cty])
    for s in specs:
        x = mk_det(s["det"], cl)
        d = dm.Delegation(atype=dm.DelegationType[s["ty"]], delegation_id=s["id"], aformat=dm.DelegationFormat[s["fmt"]],
                          pool_id=s["pool"])
        if x is not None:
            d.set_details(x)
        ds.add_delegations(d)
    return ds


def build_arg(s, dm, cl):
    x = mk_det(s["det"], cl)
    d = dm.Delegation(atype=dm.DelegationType[s["ty"]], delegation_id=s["id"], aformat=dm.DelegationFormat[s["fmt"]],
                      pool_id=s["pool"])
    if x is not None:
        d.set_details(x)
    return d


def build_pool(s, dm, cl):
    """Pool(...), the set_defined_for / add_defined_for calls of the spec, set_pool_details"""
    t = dm.DelegationType[s["ty"]]
    if s["mode"] == "ctor":
        p = dm.Pool(atype=t, pool_id=s["id"], delegation_id=s["deleg"], defined_on=s["on"], defined_for=list(s["for"]))
    else:
        p = dm.Pool(atype=t, pool_id=s["id"], delegation_id=s["deleg"])
        if s["on"] is not None:
            p.set_defined_on(s["on"])
        p.add_defined_for(list(s["for"]))
    for op in s.get("forops", []):
        if op[0] == "set":
            p.set_defined_for(list(op[1]))
        elif op[0] == "add1":
            p.add_defined_for(op[1])
        else:
            p.add_defined_for(list(op[1]))
    if s["det"] is not None:
        p.set_pool_details(mk_det(s["det"], cl))
    return p


def build_family(cty, specs, dm, cl):
    ps = dm.Pools(atype=dm.DelegationType[cty])
    for s in specs:
        ps.add_pool(pool=build_pool(s, dm, cl))
    ps.build_index_by_delegation_id()
    return ps


def eff_for(p):
    """the reference-node set a pool spec ends up with (None = construction asserts), computed from the spec"""
    nodes = set(p["for"]) - ({p["on"]} if p["mode"] == "ctor" else set())
    for op in p.get("forops", []):
        if op[0] == "set":
            if not op[1]:
                return None
            nodes = set(op[1])
        elif op[0] == "add1":
            nodes.add(op[1])
        else:
            nodes |= set(op[1])
    return nodes


class GraphStub:
    """stands in for the ARM graph in annotate_delegations_and_pools: records the property writes"""
    graph_id = "stub-graph"

    def __init__(self):
        self.writes = []

    def update_node_property(self, *, node_id, prop_name, prop_val):
        assert node_id is not None and prop_name is not None and prop_val is not None
        self.writes.append((node_id, prop_name, prop_val))


def annotate_writes(ps, dels):
    """ABCARMPropertyGraph.annotate_delegations_and_pools on a recording graph: [type whose property was written, [[node, value]...]]"""
    from fim.graph.resources.abc_arm import ABCARMPropertyGraph
    dm, cl, K = mods()
    g = GraphStub()
    ABCARMPropertyGraph.annotate_delegations_and_pools(g, dels=dels, pools=ps)
    inv = {v: k.name for k, v in ABCARMPropertyGraph.DELEGATION_TYPE_TO_PROP.items()}
    props = sorted({inv.get(p, "?" + str(p)) for _, p, _ in g.writes})
    if len(props) > 1:
        return ["mixed-properties", props]
    # the order of the writes follows the iteration order of Pool.for_ (a set): compare sorted by node
    return [props[0] if props else ps.get_type().name, sorted([n, to_wire(json.loads(v))] for n, _, v in g.writes)]


def node_order(order, nodes):
    """the nodes of a generated dictionary in the requested order: the listed ones first (as often as listed), the rest sorted"""
    return [n for n in order if n in nodes] + sorted(n for n in nodes if n not in order)


def impl_eval(req):
    dm, cl, K = mods()
    op, cty, x = req
    T = dm.DelegationType[cty]
    try:
        if op == "enc":
            return ["ok", to_wire(json.loads(build_delegs(cty, x, dm, cl).to_json()))]
        if op == "build":
            return ["ok", delegs_canon(build_delegs(cty, x, dm, cl), cl)]
        if op == "rt":
            t = build_delegs(cty, x, dm, cl).to_json()
            return ["ok", delegs_canon(dm.Delegations.from_json(json_str=t, atype=T), cl)]
        if op == "dec":
            return ["ok", delegs_canon(dm.Delegations.from_json(json_str=json.dumps(un_wire(x)), atype=T), cl)]
        if op == "pools":
            r = build_family(cty, x, dm, cl).generate_delegations_by_node_id()
            return ["ok", [[n, delegs_canon(ds, cl)] for n, ds in sorted(r.items())]]
        if op == "prt":
            r = build_family(cty, x, dm, cl).generate_delegations_by_node_id()
            back = [(n, dm.Delegations.from_json(json_str=ds.to_json(), atype=T)) for n, ds in r.items()]
            q = dm.Pools(atype=T)
            for n, ds in back:
                q.incorporate_delegation(node_id=n, deleg=ds)
            return ["ok", pools_canon(q, cl)]
        if op == "prto":
            r = build_family(cty, x["fam"], dm, cl).generate_delegations_by_node_id()
            back = {n: dm.Delegations.from_json(json_str=ds.to_json(), atype=T) for n, ds in r.items()}
            q = dm.Pools(atype=T)
            for n in node_order(x["order"], back):
                q.incorporate_delegation(node_id=n, deleg=back[n])
            return ["ok", pools_canon(q, cl)]
        if op == "topo":
            return ["ok", topo_eval(x)]
        if op == "ann":
            ps = build_family(cty, x["fam"], dm, cl)
            dels = {}
            for node, c, specs in x["dels"]:
                dels[node] = build_delegs(c, specs, dm, cl)
            return ["ok", annotate_writes(ps, dels)]
        if op == "calls":
            ds, err = dm.Delegations(atype=T), None
            for call in x:
                try:
                    ds.add_delegations(*[build_arg(s, dm, cl) for s in call])
                except Exception as e:
                    err = err_kind(e)
                    break
            return ["ok", [delegs_canon(ds, cl), err]]
        if op == "pseq":
            ps, out, objs = dm.Pools(atype=T), [], []
            for st in x:
                try:
                    if st[0] == "add":
                        p = build_pool(st[1], dm, cl)
                        objs.append(p)                      # the object exists (and can be edited later) even if add_pool refuses it
                        ps.add_pool(pool=p)
                        out.append(None)
                    elif st[0] == "mut":
                        if st[1] < len(objs):
                            apply_mut(objs[st[1]], st[2], st[3], cl)
                            out.append(None)
                        else:
                            out.append("skip")
                    elif st[0] == "index":
                        ps.build_index_by_delegation_id()
                        out.append(None)
                    else:
                        r = ps.generate_delegations_by_node_id()
                        out.append(["ok", [[n, delegs_canon(ds, cl)] for n, ds in sorted(r.items())]])
                except Exception as e:
                    out.append(err_kind(e) if st[0] != "gen" else ["err", err_kind(e)])
            return ["ok", out]
        if op == "inc":
            q = dm.Pools(atype=T)
            for node, c, specs in x:
                q.incorporate_delegation(node_id=node, deleg=build_delegs(c, specs, dm, cl))
            return ["ok", pools_canon(q, cl)]
    except Exception as e:
        return ["err", err_kind(e)]
    raise core.Infra("unknown op %s" % op)


# --------------------------------------------------------------------------
# generators


def gen_cap(rng, allow_empty=True):
    dm, cl, K = mods()
    fields = list(cl.Capacities().__dict__.keys())
    k = rng.random()
    if allow_empty and k < 0.06:
        return ["CAPACITY", to_wire({})]
    if allow_empty and k < 0.10:
        return ["CAPACITY", to_wire({rng.choice(fields): 0})]
    d = {}
    for f in rng.sample(fields, rng.randint(1, 4)):
        d[f] = rng.choice(EDGE) if rng.random() < 0.7 else rng.randrange(1, 50)
    if not allow_empty and not any(d.values()):
        d[fields[0]] = 1
    if rng.random() < 0.04:
        d[rng.choice(fields)] = True
    return ["CAPACITY", to_wire(d)]


def gen_lab(rng, allow_empty=True):
    dm, cl, K = mods()
    fields = list(cl.Labels().__dict__.keys())
    if allow_empty and rng.random() < 0.06:
        return ["LABEL", to_wire({})]
    d = {}
    for f in rng.sample(fields, rng.randint(1, 4)):
        if f in LABEL_OK:
            v = rng.choice(LABEL_OK[f])
            if rng.random() < 0.25:
                v = [v, rng.choice(LABEL_OK[f])]
        else:
            v = rng.choice(FREE_STR)
            if rng.random() < 0.2:
                v = [v] + [rng.choice(FREE_STR) for _ in range(rng.randint(0, 2))]
            elif rng.random() < 0.05:
                v = []
        d[f] = v
    return ["LABEL", to_wire(d)]


def gen_det(rng, ty, allow_empty=True):
    return gen_cap(rng, allow_empty) if ty == "CAPACITY" else gen_lab(rng, allow_empty)


def gen_bad_det(rng, ty):
    """keyword arguments the constructors reject (or accept in a degenerate way)"""
    if ty == "CAPACITY":
        return ["CAPACITY", to_wire(rng.choice([{"zz": 1}, {"core": -1}, {"core": None}, {"core": "a"}, {"core": 1.5}, {"core": [1]},
                                                {"core": 1, "zz": 2}, {"zz": -1}, {"core": {"a": 1}}, {"ram": 2, "cpu": None}]))]
    return ["LABEL", to_wire(rng.choice([{"zz": "a"}, {"local_name": None}, {"local_name": 5}, {"instance": True}, {"local_name": "a", "zz": "b"},
                                         {"zz": 5}, {"instance": {"a": "b"}}, {"device_name": 1.5}]))]


def other(ty):
    return "LABEL" if ty == "CAPACITY" else "CAPACITY"


def gen_dspecs(rng, cty, wellformed=False):
    n = rng.randint(1, 5)
    idpool = list(dict.fromkeys(IDS + id_choices(rng, [], 5)))
    ids = rng.sample(idpool, min(n, len(idpool))) if (wellformed or rng.random() < 0.8) else [rng.choice(idpool[:3]) for _ in range(n)]
    out = []
    for i in ids:
        fmt = rng.choice(["SinglePool", "PoolDefinition", "PoolReference"])
        s = {"ty": cty, "id": i, "fmt": fmt, "pool": None, "det": None}
        if fmt != "SinglePool":
            s["pool"] = pick_pool(rng)
        if fmt != "PoolReference":
            s["det"] = gen_det(rng, cty, allow_empty=not wellformed)
        if not wellformed:
            k = rng.random()
            if k < 0.04:
                s["ty"] = other(cty)
                if s["det"] is not None and rng.random() < 0.5:
                    s["det"] = gen_det(rng, s["ty"])
            elif k < 0.08 and fmt != "PoolReference":
                s["det"] = gen_det(rng, other(cty))
            elif k < 0.12 and fmt == "PoolReference":
                s["det"] = gen_det(rng, cty)
            elif k < 0.15 and fmt != "PoolReference":
                s["det"] = None
            elif k < 0.18 and fmt != "SinglePool":
                s["pool"] = None
            elif k < 0.21 and fmt == "SinglePool":
                s["pool"] = pick_pool(rng)
            elif k < 0.24 and fmt != "PoolReference":
                s["det"] = gen_bad_det(rng, cty)
            elif k < 0.27 and fmt == "PoolDefinition":
                s["pool"] = "_"
        out.append(s)
    return out


def corner_dspecs():
    c = ["CAPACITY", to_wire({"core": 2, "ram": 8})]
    l = ["LABEL", to_wire({"vlan_range": "1-100"})]
    out = []
    for cty, d in (("CAPACITY", c), ("LABEL", l)):
        three = [{"ty": cty, "id": "del1", "fmt": "SinglePool", "pool": None, "det": d},
                 {"ty": cty, "id": "del2", "fmt": "PoolDefinition", "pool": "pool1", "det": d},
                 {"ty": cty, "id": "del3", "fmt": "PoolReference", "pool": "pool1", "det": None}]
        out.append((cty, three))
        out.append((cty, three[:1]))
        out.append((cty, three[1:2] + [dict(three[1], id="del4", pool="pool2")]))
        out.append((cty, [dict(three[1], pool="_")]))                       # reserved name
        out.append((cty, [dict(three[2], pool="_")]))
        out.append((cty, three + [dict(three[0])]))                         # duplicate id
        out.append((cty, [dict(three[2], det=d)]))                          # details on a reference
        out.append((cty, [dict(three[0], det=(l if cty == "CAPACITY" else c))]))   # mixed details
        out.append((cty, [dict(three[0], ty=other(cty), det=(l if cty == "CAPACITY" else c))]))   # mixed container
        out.append((cty, [dict(three[0], det=None)]))
        out.append((cty, [dict(three[1], pool=None)]))
        out.append((cty, []))
        # every order of the three formats / of two of them: a single-resource delegation read after a definition or a
        # reference must not inherit anything from it (cf. seeded C12-r3-1), nor the other way round
        import itertools
        mk = {"SinglePool": lambda i: dict(three[0], id="s%d" % i), "PoolDefinition": lambda i: dict(three[1], id="d%d" % i, pool="pool%d" % i),
              "PoolReference": lambda i: dict(three[2], id="r%d" % i, pool="ref%d" % i)}
        for perm in itertools.permutations(FORMATS):
            out.append((cty, [mk[f](i) for i, f in enumerate(perm)]))
        for a, b in itertools.product(FORMATS, FORMATS):
            out.append((cty, [mk[a](0), mk[b](1)]))
        out.append((cty, [mk["PoolDefinition"](0), mk["SinglePool"](1), mk["PoolReference"](2), mk["SinglePool"](3), mk["SinglePool"](4)]))
        # names / ids that only resemble the sentinels: a definition and a reference of such a pool next to a real single-resource
        # delegation, under ordinary ids and under ids of the same alphabet (cf. seeded C12-r4-1)
        A = adv()
        for i, nm in enumerate(A["pools"]):
            out.append((cty, [dict(three[0], id="s"), dict(three[1], id="d", pool=nm), dict(three[2], id="r", pool=nm)]))
            i1, i2, i3 = (A["ids"][(3 * i + j) % len(A["ids"])] for j in range(3))
            out.append((cty, [dict(three[1], id=i1, pool=nm), dict(three[0], id=i2), dict(three[2], id=i3, pool=nm)]))
        # empty details (Capacities() / Labels(): to_dict() is None) on a single / a definition
        e = [cty, to_wire({})]
        out.append((cty, [dict(three[0], det=e)]))
        out.append((cty, [dict(three[1], det=e), dict(three[0])]))
        out.append((cty, [dict(three[0]), dict(three[1], det=[cty, to_wire({"core": 0} if cty == "CAPACITY" else {})])]))
    return out


def mutate_json(rng, obj, cty, K):
    """obj: a python dict as Delegations.to_json would emit; returns a damaged copy"""
    o = copy.deepcopy(obj)
    keys = list(o.keys())
    k = rng.random()
    dk, ok_ = (K.FIELD_CAPACITIES, K.FIELD_LABELS) if cty == "CAPACITY" else (K.FIELD_LABELS, K.FIELD_CAPACITIES)
    if not keys or k < 0.05:
        return rng.choice([[1], 5, "None", None, [], {"d": 5}, {"d": None}, {"d": "x"}, {"d": []}, {"d": {}}])
    e = rng.choice(keys)
    v = o[e]
    if k < 0.20:
        v.pop(rng.choice(list(v.keys())))
    elif k < 0.32:
        if K.FIELD_POOL in v:
            v[dk] = un_wire(gen_det(rng, cty)[1])                # reference carrying details
        else:
            v[K.FIELD_POOL] = pick_pool(rng)                     # both pool_id and pool
    elif k < 0.42:
        v[ok_] = un_wire(gen_det(rng, other(cty))[1])            # the other type's content next to ours
    elif k < 0.47:
        for kk in (K.FIELD_POOL_ID, K.FIELD_POOL):
            if kk in v:
                v[kk] = None
    elif k < 0.50:
        if K.FIELD_POOL in v:
            v[K.FIELD_POOL] = K.SINGLE_POOL_NAME        # a reference to the reserved name
        else:
            v[dk] = {}                                   # empty details
    elif k < 0.60:
        if dk in v:
            v[dk] = rng.choice([5, None, "x", [], [1], {}])
    elif k < 0.72:
        if dk in v:
            v[dk] = un_wire(gen_bad_det(rng, cty)[1])
    elif k < 0.80:
        v["extra"] = rng.choice([1, "x", None, {"a": 1}])
    elif k < 0.88:
        if K.FIELD_POOL_ID in v:
            if rng.random() < 0.5:
                v[K.FIELD_POOL_ID] = rng.choice(adv()["pools"])          # a name that only resembles the sentinel
            else:
                v[K.FIELD_POOL_ID] = K.SINGLE_POOL_NAME if v[K.FIELD_POOL_ID] != K.SINGLE_POOL_NAME else "p9"
        elif K.FIELD_POOL in v:
            v[K.FIELD_POOL] = rng.choice(adv()["pools"])
    elif k < 0.94:
        # key order inside the entry must not matter
        o[e] = dict(reversed(list(v.items())))
    else:
        o[e] = rng.choice([5, None, "x", [], {}])
    return o


def gen_pspecs(rng, cty, wellformed=False):
    k = rng.randint(1, 4)
    pids = rng.sample(adv()["pools"] if rng.random() < 0.35 else ["p1", "p2", "shared_pool", "ü-pool"], k)
    dids = id_choices(rng, ["del1", "del2", "primary"])
    out = []
    for pid in pids:
        on = rng.choice(NODES)
        fr = rng.sample(NODES, rng.randint(1, 4))
        mode = "ctor" if rng.random() < 0.6 else "set"
        if wellformed:
            fr = [n for n in fr if n != on] or [rng.choice([n for n in NODES if n != on])]
        s = {"ty": cty, "id": pid, "deleg": rng.choice(dids), "on": on, "for": fr,
             "det": gen_det(rng, cty, allow_empty=not wellformed), "mode": mode}
        if rng.random() < 0.3:
            # the same reference set reached through several setter calls instead of one list
            ops = []
            for _ in range(rng.randint(1, 3)):
                k = rng.random()
                pick = [n for n in NODES if wellformed and n != on or not wellformed]
                if k < 0.25:
                    ops.append(["set", rng.sample(pick, rng.randint(0 if not wellformed else 1, 3))])
                elif k < 0.65:
                    ops.append(["add1", rng.choice(pick)])
                else:
                    ops.append(["addl", rng.sample(pick, rng.randint(0, 3))])
            s["forops"] = ops
        if not wellformed:
            r = rng.random()
            if r < 0.04:
                s["deleg"] = None
            elif r < 0.08:
                s["on"] = None
            elif r < 0.12:
                s["for"] = [on] if mode == "ctor" else []
            elif r < 0.16:
                s["det"] = None
            elif r < 0.20:
                s["det"] = gen_det(rng, other(cty))
            elif r < 0.23:
                s["ty"] = other(cty)
            elif r < 0.27:
                s["id"] = rng.choice(pids)
            elif r < 0.30:
                s["id"] = "_"
            elif r < 0.33:
                s["for"] = fr + fr[:1]
        out.append(s)
    return out


def corner_pspecs():
    out = []
    for cty in TYPES:
        d1 = ["CAPACITY", to_wire({"core": 2, "ram": 8})] if cty == "CAPACITY" else ["LABEL", to_wire({"vlan_range": "1-100"})]
        d2 = ["CAPACITY", to_wire({"unit": 1})] if cty == "CAPACITY" else ["LABEL", to_wire({"vlan_range": "101-200", "ipv4_range": "192.168.1.1-192.168.1.10"})]

        def pool(pid, deleg, on, fr, det=d1, mode="ctor", ty=cty):
            return {"ty": ty, "id": pid, "deleg": deleg, "on": on, "for": fr, "det": det, "mode": mode}
        out += [
            (cty, [pool("pool1", "del1", "node1", ["node1", "node2", "node3"]), pool("pool2", "del2", "node2", ["node1", "node3"], d2)]),
            (cty, [pool("pool1", "del1", "node1", ["node2"])]),
            # a node defining one pool and referencing another: different delegation ids (fine), same id (clash)
            (cty, [pool("pool1", "del1", "node1", ["node2"]), pool("pool2", "del2", "node2", ["node1"], d2)]),
            (cty, [pool("pool1", "del1", "node1", ["node2"]), pool("pool2", "del1", "node2", ["node1"], d2)]),
            # several pools under one delegation id, disjoint nodes
            (cty, [pool("pool1", "del1", "node1", ["node2", "node3"]), pool("pool2", "del1", "node4", ["node5"], d2)]),
            # two pools referenced from the same node under different / the same delegation id
            (cty, [pool("pool1", "del1", "node1", ["node3"]), pool("pool2", "del2", "node2", ["node3"], d2)]),
            (cty, [pool("pool1", "del1", "node1", ["node3"]), pool("pool2", "del1", "node2", ["node3"], d2)]),
            # defining node also listed as reference node through the setters (clash with itself)
            (cty, [pool("pool1", "del1", "node1", ["node1", "node2"], mode="set")]),
            # three pools sharing defining and reference nodes (cf. seeded C12-r3-3; Lean `sharedEx`)
            (cty, [pool("pa", "d1", "n1", ["n2", "n3"]), pool("pb", "d2", "n2", ["n3", "n1"], d2), pool("pc", "d3", "n1", ["n3", "n2"])]),
            # one node defines several pools and references several others
            (cty, [pool("pa", "d1", "n1", ["n2"]), pool("pb", "d2", "n1", ["n2"], d2), pool("pc", "d3", "n2", ["n1"]), pool("pd", "d4", "n2", ["n1"], d2)]),
            (cty, [pool("_", "del1", "node1", ["node2"])]),
        ]
        # pools whose names / delegation ids only resemble the sentinels, three at a time sharing nodes
        A = adv()
        for i in range(0, len(A["pools"]) - 2, 3):
            a, b, c = A["pools"][i:i + 3]
            i1, i2, i3 = (A["ids"][(i + j) % len(A["ids"])] for j in range(3))
            out.append((cty, [pool(a, i1, "n1", ["n2", "n3"]), pool(b, i2, "n2", ["n3", "n1"], d2), pool(c, i3, "n3", ["n1", "n2"])]))
            out.append((cty, [pool(a, i1, "n1", ["n2"]), pool(b, i1, "n3", ["n4"], d2), pool(c, i2, "n1", ["n4"])]))
        out += [
            (cty, [pool("pool1", "del1", "node1", ["node2"], det=None)]),
            (cty, [pool("pool1", None, "node1", ["node2"])]),
            (cty, [pool("pool1", "del1", "node1", ["node2"], ty=other(cty))]),
            (cty, [pool("pool1", "del1", "node1", ["node2"], det=(d1 if False else (["LABEL", to_wire({"vlan": "3"})] if cty == "CAPACITY" else ["CAPACITY", to_wire({"core": 1})])))]),
            (cty, []),
        ]
    return out


def gen_inc(rng, cty):
    """per-node delegation lists as a model would carry them (plus damaged ones)"""
    k = rng.random()
    if k < 0.55:
        # start from a generated family, then perturb the per-node lists
        dm, cl, K = mods()
        for _ in range(5):
            fam = gen_pspecs(rng, cty, wellformed=True)
            try:
                r = build_family(cty, fam, dm, cl).generate_delegations_by_node_id()
            except Exception:
                continue
            nodes = []
            for n, ds in sorted(r.items()):
                specs = []
                for d in ds.delegations.values():
                    det = None
                    if d.delegation_details is not None:
                        det = [kind_of(d.delegation_details, cl), to_wire(d.delegation_details.to_dict() or {})]
                    specs.append({"ty": cty, "id": d.delegation_id, "fmt": d.format.name, "pool": d.pool_id, "det": det})
                nodes.append([n, cty, specs])
            rng.shuffle(nodes)
            r2 = rng.random()
            if r2 < 0.2 and nodes:
                nodes.append(copy.deepcopy(rng.choice(nodes)))       # a node twice: second definition of a pool
            elif r2 < 0.35 and nodes:
                n = rng.choice(nodes)
                for s in n[2]:
                    s["id"] = rng.choice(["del1", "del2", "other"] + adv()["ids"][:8])   # references under another delegation id
                    break
            elif r2 < 0.45 and nodes:
                nodes.pop(rng.randrange(len(nodes)))
            elif r2 < 0.5 and nodes:
                rng.choice(nodes)[1] = other(cty)
                for s in nodes[-1][2]:
                    pass
            return nodes
    nodes = []
    two = rng.sample(adv()["pools"], 2) if rng.random() < 0.35 else ["p1", "p2"]
    for n in rng.sample(NODES, rng.randint(1, 4)):
        c = cty if rng.random() < 0.93 else other(cty)
        specs = gen_dspecs(rng, c, wellformed=rng.random() < 0.7)
        for s in specs:
            if s["pool"] is not None and rng.random() < 0.7:
                s["pool"] = rng.choice(two)
        if len(specs) >= 2 and rng.random() < 0.4:
            # the same delegations handed over in several incorporate calls for the node instead of one
            cut = rng.randrange(1, len(specs))
            nodes.append([n, c, specs[:cut]])
            nodes.append([n, c, specs[cut:]])
        else:
            nodes.append([n, c, specs])
    if rng.random() < 0.3:
        rng.shuffle(nodes)
    return nodes


def gen_ann(rng, cty):
    """a pool family plus the per-node single-resource delegations single_delegation hands to annotate_delegations_and_pools"""
    fam = gen_pspecs(rng, cty, wellformed=rng.random() < 0.75)
    used = {p["on"] for p in fam} | {n for p in fam for n in p["for"]}
    for p in fam:
        for op in p.get("forops", []):
            used |= set([op[1]] if isinstance(op[1], str) else op[1])
    free = [n for n in NODES + ["n6", "n7"] if n not in used]
    dels = []
    did = rng.choice(id_choices(rng, ["del1", "primary"], 2))
    for n in rng.sample(free, rng.randint(0, len(free))):
        dels.append([n, cty, [{"ty": cty, "id": did, "fmt": "SinglePool", "pool": None, "det": gen_det(rng, cty, allow_empty=rng.random() < 0.1)}]])
    r = rng.random()
    if r < 0.12 and used:
        # a node that also carries pool entries
        dels.insert(rng.randint(0, len(dels)), [rng.choice(sorted(u for u in used if u)), cty,
                                                 [{"ty": cty, "id": did, "fmt": "SinglePool", "pool": None, "det": gen_det(rng, cty, allow_empty=False)}]])
    elif r < 0.18 and dels:
        dels[-1][1] = other(cty)                         # delegations of the other type handed over with these pools
        for s_ in dels[-1][2]:
            s_["ty"] = other(cty)
            s_["det"] = gen_det(rng, other(cty), allow_empty=False)
    elif r < 0.24 and dels:
        dels[0][2] = gen_dspecs(rng, cty, wellformed=True)   # not only single-resource delegations
    return {"fam": fam, "dels": dels}


def call_arg(cty, ident, k, ty=None):
    """argument number k of a call: the three formats in turn, valid details"""
    fmt = ["SinglePool", "PoolReference", "PoolDefinition"][k % 3]
    det = None if fmt == "PoolReference" else (["CAPACITY", to_wire({"core": k + 1})] if (ty or cty) == "CAPACITY"
                                                else ["LABEL", to_wire({"vlan": str(k + 1)})])
    return {"ty": ty or cty, "id": ident, "fmt": fmt, "pool": None if fmt == "SinglePool" else "p%d" % k, "det": det}


def call_shapes():
    """(n, dup, mismatch, held): one call of n = 0..4 arguments; dup = None or (i, j): argument j repeats the id of argument i;
    mismatch = None or position of an argument of the other type; held = None or position of an argument whose id the
    container already holds (from an earlier call)"""
    out = []
    for n in range(5):
        pairs = [None] + [(i, j) for i in range(n) for j in range(i + 1, n)]
        for dup in pairs:
            for mm in [None] + list(range(n)):
                for held in [None] + (list(range(n)) if dup is None and mm is None else []):
                    out.append((n, dup, mm, held))
    return out


def shape_calls(cty, shape):
    n, dup, mm, held = shape
    ids = ["id%d" % k for k in range(n)]
    if dup:
        ids[dup[1]] = ids[dup[0]]
    args = [call_arg(cty, ids[k], k, ty=other(cty) if mm == k else None) for k in range(n)]
    calls = []
    if held is not None:
        calls.append([call_arg(cty, ids[held], 7)])
    calls.append(args)
    return calls


def gen_calls(rng, cty):
    calls = []
    ids = ["a", "b", "c", "d", "e", "f"] if rng.random() < 0.65 else rng.sample(adv()["ids"], 6)
    for _ in range(rng.randint(1, 3)):
        n = rng.randint(0, 4)
        pick = rng.sample(ids, n) if rng.random() < 0.6 else [rng.choice(ids) for _ in range(n)]
        call = []
        for k, i in enumerate(pick):
            a = call_arg(cty, i, rng.randrange(6), ty=other(cty) if rng.random() < 0.06 else None)
            r = rng.random()
            if r < 0.04 and a["fmt"] == "PoolReference":
                a["det"] = gen_det(rng, cty)
            elif r < 0.08 and a["det"] is not None:
                a["det"] = gen_det(rng, other(cty))
            elif r < 0.11 and a["fmt"] != "SinglePool":
                a["pool"] = None
            call.append(a)
        calls.append(call)
    return calls


def gen_pseq(rng, cty):
    fam = gen_pspecs(rng, cty, wellformed=rng.random() < 0.5)
    steps = [["add", p] for p in fam]
    more = gen_pspecs(rng, cty, wellformed=rng.random() < 0.7)
    k = rng.random()
    if k < 0.3:
        steps += [["index"], ["gen"]] + [["add", p] for p in more] + [["gen"], ["index"], ["gen"]]
    elif k < 0.5:
        steps = steps[:1] + [["index"]] + steps[1:] + [["index"], ["index"], ["gen"]]
    elif k < 0.7:
        steps += [["gen"], ["index"], ["gen"], ["gen"]]
    else:
        steps.insert(rng.randrange(len(steps) + 1), ["index"])
        steps += [["gen"], ["index"], ["gen"]]
    return steps


def nontrivial(req):
    op, cty, x = req
    if op in ("enc", "build", "rt"):
        return len(x) >= 2
    if op == "dec":
        return isinstance(x, dict) and "o" in x and len(x["o"]) >= 2
    if op in ("pools", "prt"):
        return any(len((eff_for(p) or set()) - {p["on"]}) >= 2 for p in x)
    if op == "prto":
        return any(len((eff_for(p) or set()) - {p["on"]}) >= 2 for p in x["fam"])
    if op == "ann":
        return len(x["fam"]) >= 1 and len(x["dels"]) >= 1
    if op == "topo":
        return sum(len(v) for v in x["spec"]["families"].values()) >= 1
    if op == "calls":
        return sum(len(c) for c in x) >= 2
    if op == "pseq":
        return sum(1 for st in x if st[0] == "add") >= 2
    if op == "inc":
        return sum(len(n[2]) for n in x) >= 2
    return False


def corpus_cases():
    out = []
    if os.path.isdir(CORPUS):
        for fn in sorted(os.listdir(CORPUS)):
            if fn.endswith(".json"):
                with open(os.path.join(CORPUS, fn)) as f:
                    out.append(json.load(f))
    return out


def gen_requests(ctx, n_sets, n_fams):
    dm, cl, K = mods()
    reqs = []
    for c in corpus_cases():
        if c.get("request"):
            reqs.append(c["request"])
    for cty, specs in corner_dspecs():
        for op in ("build", "enc", "rt"):
            reqs.append([op, cty, specs])
    import itertools
    for cty, fam in corner_pspecs():
        reqs.append(["pools", cty, fam])
        reqs.append(["prt", cty, fam])
        nodes = sorted({p["on"] for p in fam if p["on"]} | {n for p in fam for n in p["for"]})
        if 2 <= len(nodes) <= 3:
            # every order in which the nodes can be read back
            for perm in itertools.permutations(nodes):
                reqs.append(["prto", cty, {"fam": fam, "order": list(perm)}])
        elif nodes:
            reqs.append(["prto", cty, {"fam": fam, "order": list(reversed(nodes))}])
    for cty, fam in corner_pspecs():
        c = ["CAPACITY", to_wire({"core": 4})] if cty == "CAPACITY" else ["LABEL", to_wire({"local_name": "eth0"})]
        one = lambda n, t=cty, d=c: [n, t, [{"ty": t, "id": "del1", "fmt": "SinglePool", "pool": None, "det": d}]]
        reqs.append(["ann", cty, {"fam": fam, "dels": [one("x1"), one("x2")]}])
        reqs.append(["ann", cty, {"fam": fam, "dels": []}])
        reqs.append(["ann", cty, {"fam": fam, "dels": [one("x1"), one("node1"), one("n1")]}])     # node1 / n1 carry pool entries
    for cty in TYPES:
        for shape in call_shapes():
            reqs.append(["calls", cty, shape_calls(cty, shape)])
    rng = ctx.sub_rng("corr-calls")
    for i in range(n_sets // 3):
        cty = rng.choice(TYPES)
        reqs.append(["calls", cty, gen_calls(rng, cty)])
    for cty, steps in corner_phists():
        if all(st[0] != "inc" for st in steps):
            reqs.append(["pseq", cty, steps])
    rng = ctx.sub_rng("corr-pseq")
    for i in range(n_fams // 2):
        cty = rng.choice(TYPES)
        reqs.append(["pseq", cty, gen_pseq(rng, cty)])
    rng = ctx.sub_rng("corr-phist")
    for i in range(n_fams // 2):
        # kept pools edited / replaced / completed between indexing runs; generate also WITHOUT a fresh run (stale keys, partial index)
        cty = rng.choice(TYPES)
        steps = gen_phist(rng, cty, with_inc=False)
        if rng.random() < 0.4:
            steps.insert(rng.randrange(len(steps) + 1), ["gen"])
        reqs.append(["pseq", cty, steps])
    rng = ctx.sub_rng("corr-sets")
    for i in range(n_sets):
        cty = rng.choice(TYPES)
        specs = gen_dspecs(rng, cty, wellformed=rng.random() < 0.45)
        reqs.append(["rt", cty, specs])
        if i % 3 == 0:
            reqs.append(["enc", cty, specs])
        if i % 5 == 0:
            reqs.append(["build", cty, specs])
        # decoder stream: the encoding of a well-formed set, damaged (or decoded under the other type)
        wf = gen_dspecs(rng, cty, wellformed=True)
        try:
            obj = json.loads(build_delegs(cty, wf, dm, cl).to_json())
        except Exception:
            continue
        r = rng.random()
        if r < 0.15:
            reqs.append(["dec", cty, to_wire(obj)])
        elif r < 0.25:
            reqs.append(["dec", other(cty), to_wire(obj)])
        else:
            reqs.append(["dec", cty, to_wire(mutate_json(rng, obj, cty, K))])
    rng = ctx.sub_rng("corr-topo")
    reqs.append(["topo", "CAPACITY", topo_request(gen_topo_spec(None, fixed=True))])
    for i in range(max(8, n_fams // 12)):
        reqs.append(["topo", "CAPACITY", topo_request(gen_topo_adv(rng))])
    rng = ctx.sub_rng("corr-pools")
    for i in range(n_fams):
        cty = rng.choice(TYPES)
        fam = gen_pspecs(rng, cty, wellformed=rng.random() < 0.5)
        reqs.append(["prt", cty, fam])
        if i % 2 == 0:
            reqs.append(["pools", cty, fam])
        order = list(NODES)
        rng.shuffle(order)
        if rng.random() < 0.05:
            order.append(rng.choice(order))       # a node handed over twice
        elif rng.random() < 0.2:
            order = order[:rng.randint(0, 4)]
        reqs.append(["prto", cty, {"fam": fam, "order": order}])
        reqs.append(["inc", cty, gen_inc(rng, cty)])
        if i % 2 == 1:
            reqs.append(["ann", cty, gen_ann(rng, cty)])
    return reqs


def request_verdict(r, impl, res):
    """the property's own verdict on a correspondence request (independent of the model)"""
    op, cty, x = r
    if op == "dec":
        check_dec_verdict(cty, un_wire(x), res, observed=impl)
    elif op in ("build", "enc", "rt"):
        if impl[0] == "ok" and spec_expected_reject(cty, x):
            check_specs_verdict(cty, [[s_] for s_ in x], res)
    elif op == "calls":
        if impl[1][1] is None and spec_expected_reject(cty, [s_ for c in x for s_ in c]):
            check_specs_verdict(cty, x, res)


def correspondence(ctx, res):
    reqs = gen_requests(ctx, ctx.scale(700, 7000), ctx.scale(350, 3500))
    impl = [impl_eval(r) for r in reqs]
    model = LeanDriver("C12").run([json.dumps(r) for r in reqs])
    for r, i, m in zip(reqs, impl, model):
        res.evaluations += 1
        res.count("op:" + r[0])
        res.count("result:" + (i[0] if i[0] == "ok" else "err:" + i[1]))
        if r[0] in ("topo", "ann", "prto"):
            res.count("%s:%s" % (r[0], i[0] if i[0] == "ok" else "err:" + i[1]))
        if nontrivial(r):
            res.nontrivial.add(canon(r))
        if r[0] == "pseq" and any(st[0] == "mut" for st in r[2]):
            res.count("pseq:with-edits-of-kept-pools")
        count_names(res, r, r[0])
        request_verdict(r, i, res)
        mj = json.loads(m)
        if mj == ["err", "unmodelled"]:
            res.count("unmodelled")
            continue
        if json.loads(canon(i)) != mj:
            res.disagreements.append({"case": r, "impl": i, "model": mj})
    k = next((j for j, r in enumerate(reqs) if r[0] == "prto" and impl[j][0] == "ok" and nontrivial(r)), 0)
    res.sample({"request": reqs[k], "impl": impl[k], "model": json.loads(model[k])})
    k = next((j for j, r in enumerate(reqs) if r[0] == "dec" and impl[j][0] == "err"), 0)
    res.sample({"request": reqs[k], "impl": impl[k], "model": json.loads(model[k])})
    if res.hist.get("unmodelled", 0) * 50 > res.evaluations:
        res.disagreements.append({"case": "too many requests outside the model", "impl": res.hist.get("unmodelled"), "model": None})


# --------------------------------------------------------------------------
# the property itself, evaluated on the implementation


def det_eq(a, b):
    if a is None or b is None:
        return a is None and b is None
    return type(a) is type(b) and a.__dict__ == b.__dict__ and all(type(x) is type(y) for x, y in zip(a.__dict__.values(), b.__dict__.values()))


def raises(fn):
    try:
        fn()
    except Exception as e:
        return type(e).__name__
    return None


def check_codec(cty, specs, res):
    """well-formed delegation set -> text -> the same delegations"""
    dm, cl, K = mods()
    T = dm.DelegationType[cty]
    case = {"kind": "codec", "cty": cty, "specs": specs}
    reserved = [s_ for s_ in specs if s_["fmt"] != "SinglePool" and s_["pool"] == K.SINGLE_POOL_NAME]
    try:
        ds = build_delegs(cty, specs, dm, cl)
    except dm.DelegationException as e:
        if reserved:
            # the name that marks a single-resource delegation in the text cannot name a pool: refusing to construct such a
            # delegation is the repaired behaviour (/repo ac819ce); had it been constructed, it would have to round trip (below)
            res.count("codec:reserved-pool-name-rejected")
            return
        res.violation("C12:codec:raises:%s" % err_kind(e), "well-formed delegation set cannot be built: %s" % e, case)
        return
    except Exception as e:
        res.violation("C12:codec:raises:%s" % err_kind(e), "well-formed delegation set cannot be built: %s" % e, case)
        return
    try:
        snap = delegs_canon(ds, cl)
        text = ds.to_json()
        back = dm.Delegations.from_json(json_str=text, atype=T)
    except Exception as e:
        res.violation("C12:codec:raises:%s" % err_kind(e), "well-formed delegation set does not encode/decode: %s" % e, case)
        return
    if delegs_canon(ds, cl) != snap:
        res.violation("C12:codec:encoder-mutates-input", "to_json changed the delegations", case)
    if not isinstance(text, str):
        res.violation("C12:codec:not-text", "to_json did not return text", case)
    if back is None or back.type != T:
        res.violation("C12:codec:type", "decoded container has another type", case)
        return
    if list(back.delegations.keys()) != list(ds.delegations.keys()):
        res.violation("C12:codec:ids", "ids differ after the round trip", case,
                      expected=list(ds.delegations.keys()), observed=list(back.delegations.keys()))
        return
    sentinel_only = []
    for k, d in ds.delegations.items():
        b = back.delegations[k]
        diffs = [what for what, x, y in (("id", d.delegation_id, b.delegation_id), ("format", d.format, b.format),
                                         ("pool", d.pool_id, b.pool_id), ("type", d.type, b.type)) if x != y]
        if not det_eq(d.delegation_details, b.delegation_details):
            diffs.append("details")
        if not diffs:
            continue
        if d.format == dm.DelegationFormat.PoolDefinition and d.pool_id == K.SINGLE_POOL_NAME and diffs == ["format", "pool"] \
                and b.format == dm.DelegationFormat.SinglePool and b.pool_id is None:
            # exactly the reserved-name confusion and nothing else
            sentinel_only.append(k)
            continue
        res.violation("C12:codec:" + "+".join(diffs) + name_class([d.pool_id] if "pool" in diffs or "format" in diffs else [d.delegation_id]),
                      "%s of a delegation differ(s) after the round trip" % "/".join(diffs), case,
                      expected=deleg_canon(d, cl), observed=deleg_canon(b, cl))
    if sentinel_only:
        res.violation("C12:codec:definition-of-pool-named-single-sentinel",
                      "a definition of a pool named %r decodes as a single-resource delegation" % K.SINGLE_POOL_NAME, case,
                      expected="PoolDefinition of pool %r" % K.SINGLE_POOL_NAME, observed="SinglePool, pool None (ids %s)" % sentinel_only)
    # second encoding is the same text (ids, order)
    if back.to_json() != text:
        res.violation("C12:codec:reencode", "re-encoding the decoded delegations gives another text", case)


def check_rejections(cty, det, odet, res):
    """mixing, duplicate ids, details on a reference - API and decoder"""
    dm, cl, K = mods()
    T, O = dm.DelegationType[cty], dm.DelegationType[other(cty)]
    F = dm.DelegationFormat
    case = {"kind": "reject", "cty": cty, "det": det, "odet": odet}
    x, y = mk_det(det, cl), mk_det(odet, cl)
    for fmt in (F.SinglePool, F.PoolDefinition):
        d = dm.Delegation(atype=T, delegation_id="a", aformat=fmt, pool_id=None if fmt == F.SinglePool else "p")
        if raises(lambda: d.set_details(y)) is None or d.get_details() is not None:
            res.violation("C12:reject:mixed-details:%s:%s" % (cty, fmt.name), "details of the other kind accepted by set_details", case)
    # container of one type, delegation of the other
    ds = dm.Delegations(atype=T)
    d = dm.Delegation(atype=O, delegation_id="a")
    d.set_details(y)
    if raises(lambda: ds.add_delegations(d)) is None or len(ds.delegations) != 0:
        res.violation("C12:reject:mixed-container:" + cty, "delegation of the other type accepted by add_delegations", case)
    # duplicate id
    d1 = dm.Delegation(atype=T, delegation_id="a")
    d1.set_details(x)
    d2 = dm.Delegation(atype=T, delegation_id="a", aformat=F.PoolReference, pool_id="p")
    d3 = dm.Delegation(atype=T, delegation_id="b", aformat=F.PoolReference, pool_id="p")
    ds = dm.Delegations(atype=T)
    ds.add_delegations(d1)
    if raises(lambda: ds.add_delegations(d3, d2)) is None or ds.delegations.get("a") is not d1:
        res.violation("C12:reject:duplicate-id:" + cty, "second delegation with an id already present accepted", case)
    # details on a reference: API
    r = dm.Delegation(atype=T, delegation_id="a", aformat=F.PoolReference, pool_id="p")
    if raises(lambda: r.set_details(x)) is None or r.get_details() is not None:
        res.violation("C12:reject:details-on-reference:api:" + cty, "set_details accepted on a pool reference", case)
    # details on a reference: decoder
    dk = K.FIELD_CAPACITIES if cty == "CAPACITY" else K.FIELD_LABELS
    text = json.dumps({"a": {K.FIELD_POOL: "p", dk: x.to_dict() or {}}})
    got = []
    if raises(lambda: got.append(dm.Delegations.from_json(json_str=text, atype=T))) is None:
        d = got[0].delegations.get("a")
        res.violation("C12:reject:details-on-reference:decoder:" + cty,
                      "a pool reference carrying details is accepted from JSON (details silently dropped)", dict(case, text=text),
                      expected="rejected", observed=deleg_canon(d, cl) if d is not None else None)
    # text written for one type read as the other: content of the other kind must not come through
    for fmt in (F.SinglePool, F.PoolDefinition):
        d = dm.Delegation(atype=T, delegation_id="a", aformat=fmt, pool_id=None if fmt == F.SinglePool else "p")
        if x.to_dict() is None:
            continue
        d.set_details(x)
        ds = dm.Delegations(atype=T)
        ds.add_delegations(d)
        got = []
        if raises(lambda: got.append(dm.Delegations.from_json(json_str=ds.to_json(), atype=O))) is None:
            res.violation("C12:reject:mixed-decode:" + cty, "text of one delegation type decodes under the other type", case)
    # pools
    ps = dm.Pools(atype=T)
    if raises(lambda: ps.add_pool(pool=dm.Pool(atype=O, pool_id="p"))) is None or ps.pool_by_id:
        res.violation("C12:reject:mixed-pool:" + cty, "pool of the other type accepted by add_pool", case)
    ods = dm.Delegations(atype=O)
    od = dm.Delegation(atype=O, delegation_id="a", aformat=F.PoolDefinition, pool_id="p")
    od.set_details(y)
    ods.add_delegations(od)
    if raises(lambda: ps.incorporate_delegation(node_id="n", deleg=ods)) is None or ps.pool_by_id:
        res.violation("C12:reject:mixed-incorporate:" + cty, "delegations of the other type accepted by incorporate_delegation", case)
    # a pool carrying details of the other kind never turns into a delegation
    p = dm.Pool(atype=T, pool_id="p", delegation_id="a", defined_on="n1", defined_for=["n2"])
    p.set_pool_details(y)
    ps = dm.Pools(atype=T)
    ps.add_pool(pool=p)
    ps.build_index_by_delegation_id()
    if raises(ps.generate_delegations_by_node_id) is None:
        res.violation("C12:reject:mixed-pool-details:" + cty, "pool with details of the other kind turned into delegations", case)


def check_reserved(cty, res):
    """the name that marks a single-resource delegation in the text (SINGLE_POOL_NAME) on a pool: every way of getting such
    a pool / pool delegation is either refused (DelegationException / PoolException) or the object survives the round trip"""
    dm, cl, K = mods()
    T, F = dm.DelegationType[cty], dm.DelegationFormat
    R = K.SINGLE_POOL_NAME
    det = ["CAPACITY", to_wire({"core": 2})] if cty == "CAPACITY" else ["LABEL", to_wire({"vlan": "3"})]
    for fmt in ("PoolDefinition", "PoolReference"):
        spec = {"ty": cty, "id": "a", "fmt": fmt, "pool": R, "det": det if fmt == "PoolDefinition" else None}
        case = {"kind": "codec", "cty": cty, "specs": [spec]}
        try:
            ds = build_delegs(cty, [spec], dm, cl)
        except dm.DelegationException:
            res.count("reserved:%s:rejected" % fmt)
            continue
        except Exception as e:
            res.violation("C12:reserved-name:%s:raises:%s" % (fmt, err_kind(e)), "constructing a %s of pool %r raises %s" % (fmt, R, type(e).__name__), case)
            continue
        try:
            back = dm.Delegations.from_json(json_str=ds.to_json(), atype=T)
            same = delegs_canon(back, cl) == delegs_canon(ds, cl)
        except Exception:
            same = False
        if not same:
            res.violation("C12:codec:definition-of-pool-named-single-sentinel" if fmt == "PoolDefinition" else "C12:reserved-name:reference:lost",
                          "a %s of a pool named %r is accepted and does not survive the round trip" % (fmt, R), case)
    fam = [{"ty": cty, "id": R, "deleg": "del1", "on": "n1", "for": ["n2"], "det": det, "mode": "ctor"}]
    for path in ("ctor", "set", "renamed"):
        case = {"kind": "pools", "cty": cty, "family": [dict(fam[0], mode="set" if path == "set" else "ctor")], "path": path}
        try:
            if path == "renamed":
                # the name assigned after construction: add_pool is the last gate
                p = build_pool(dict(fam[0], id="tmp"), dm, cl)
                p.pool_id = R
                ps = dm.Pools(atype=T)
                ps.add_pool(pool=p)
                ps.build_index_by_delegation_id()
            else:
                ps = build_family(cty, case["family"], dm, cl)
        except dm.PoolException:
            res.count("reserved:pool-%s:rejected" % path)
            continue
        except Exception as e:
            res.violation("C12:reserved-name:pool-%s:raises:%s" % (path, err_kind(e)), "a pool named %r through %s raises %s" % (R, path, type(e).__name__), case)
            continue
        want = pools_canon(ps, cl)
        try:
            q = dm.Pools(atype=T)
            for n, ds in ps.generate_delegations_by_node_id().items():
                q.incorporate_delegation(node_id=n, deleg=dm.Delegations.from_json(json_str=ds.to_json(), atype=T))
            same = pools_canon(q, cl) == want
        except Exception:
            same = False
        if not same:
            res.violation("C12:pools:pool-named-single-sentinel", "a pool named %r is accepted (%s) and is not read back" % (R, path), case)


def check_call(cty, shape, res):
    """one add_delegations(*args) call: a duplicate id (two arguments of the call, or an argument and the container) and an
    argument of the other type are rejected wherever they stand; a call without either is accepted and stores every argument"""
    dm, cl, K = mods()
    n, dup, mm, held = shape
    case = {"kind": "call", "cty": cty, "shape": [n, list(dup) if dup else None, mm, held]}
    calls = shape_calls(cty, shape)
    ds = dm.Delegations(atype=dm.DelegationType[cty])
    try:
        for c in calls[:-1]:
            ds.add_delegations(*[build_arg(a, dm, cl) for a in c])
        args = [build_arg(a, dm, cl) for a in calls[-1]]
    except Exception as e:
        res.violation("C12:call:setup-raises:" + err_kind(e), "building valid delegations raised: %s" % e, case)
        return
    before = dict(ds.delegations)
    r = raises(lambda: ds.add_delegations(*args))
    where = "same-call" if dup else "earlier-call"
    if (dup or held is not None) and r is None:
        res.violation("C12:reject:duplicate-id:%s:%s" % (where, cty),
                      "add_delegations accepted two delegations with one id (%s)" % where, case,
                      expected="rejected", observed=delegs_canon(ds, cl))
    elif mm is not None and r is None:
        res.violation("C12:reject:mixed-container:in-call:" + cty, "add_delegations accepted an argument of the other type", case)
    if dup is None and held is None and mm is None:
        if r is not None:
            res.violation("C12:call:valid-call-rejected:" + r, "a call with distinct ids and the right type was rejected", case)
        elif list(ds.delegations.values()) != list(before.values()) + args or list(ds.delegations.keys()) != list(before.keys()) + [a.delegation_id for a in args]:
            res.violation("C12:call:arguments-not-stored", "an accepted call did not store exactly its arguments", case)
    # whatever happened, an id never silently changes hands
    for k, d in before.items():
        if ds.delegations.get(k) is not d:
            res.violation("C12:reject:duplicate-id:replaced:" + cty, "a delegation already in the container was replaced or lost", case)


CONTENTS = ["own", "other", "both", "none"]
def matrix_verdict(fmt, content):
    """Expected verdict from the property text: 'mixing label and capacity content ... or details on a reference are always
    rejected'; a single-resource delegation / pool definition with details of its own type is the well-formed case.
    None = the text gives no verdict (a single / definition without details is not in the property's quantifier)."""
    if fmt == "PoolReference":
        return "accept" if content == "none" else "reject"
    return {"own": "accept", "other": "reject", "both": "reject", "none": None}[content]


def entry_class(cty, v, K):
    """(format, content) of one decoded JSON entry, or None when it is not a recognisable delegation entry"""
    if not isinstance(v, dict):
        return None
    own_k, oth_k = (K.FIELD_CAPACITIES, K.FIELD_LABELS) if cty == "CAPACITY" else (K.FIELD_LABELS, K.FIELD_CAPACITIES)
    own, oth = own_k in v, oth_k in v
    content = "both" if own and oth else "own" if own else "other" if oth else "none"
    if K.FIELD_POOL_ID in v:
        return ("SinglePool" if v[K.FIELD_POOL_ID] == K.SINGLE_POOL_NAME else "PoolDefinition"), content
    if K.FIELD_POOL in v:
        return "PoolReference", content
    return None


def check_dec_verdict(cty, obj, res, observed=None):
    """a JSON text in which some entry must be rejected (by the matrix) must not decode"""
    dm, cl, K = mods()
    if not isinstance(obj, dict):
        return
    bad = None
    for k, v in obj.items():
        c = entry_class(cty, v, K)
        if c is not None and matrix_verdict(*c) == "reject":
            bad = (k, c)
            break
    if bad is None:
        return
    if observed is None:
        try:
            observed = ["ok", delegs_canon(dm.Delegations.from_json(json_str=json.dumps(obj), atype=dm.DelegationType[cty]), cl)]
        except Exception as e:
            observed = ["err", err_kind(e)]
    if observed[0] == "ok":
        res.violation("C12:matrix:decoder:%s:%s:%s" % (bad[1][0], bad[1][1], cty),
                      "from_json accepts an entry that is a %s with %s-type details" % bad[1],
                      {"kind": "dec", "cty": cty, "obj": obj}, expected="rejected (entry %r)" % bad[0], observed=observed[1])


def spec_expected_reject(cty, specs):
    """API-built delegation list: must some step be rejected by the property's rules?"""
    seen = set()
    for s in specs:
        if s["ty"] != cty:
            return "mixed-container"
        if s["det"] is not None and s["fmt"] == "PoolReference":
            return "details-on-reference"
        if s["det"] is not None and s["det"][0] != s["ty"]:
            return "mixed-details"
        if s["id"] in seen:
            return "duplicate-id"
        seen.add(s["id"])
    return None


def check_specs_verdict(cty, calls, res):
    """calls: list of argument lists for add_delegations"""
    dm, cl, K = mods()
    why = spec_expected_reject(cty, [s for c in calls for s in c])
    if why is None:
        return
    ds = dm.Delegations(atype=dm.DelegationType[cty])
    try:
        for c in calls:
            ds.add_delegations(*[build_arg(s, dm, cl) for s in c])
    except Exception:
        return
    res.violation("C12:matrix:api:%s:%s" % (why, cty), "delegations that must be rejected (%s) were accepted through the API" % why,
                  {"kind": "specs", "cty": cty, "calls": calls}, expected="rejected", observed=delegs_canon(ds, cl))


def check_matrix(cty, res):
    """every format x {own, other, both, none} details x API / decoder, verdicts from matrix_verdict"""
    dm, cl, K = mods()
    T = dm.DelegationType[cty]
    own_d = ["CAPACITY", to_wire({"core": 2})] if cty == "CAPACITY" else ["LABEL", to_wire({"vlan": "3"})]
    oth_d = ["LABEL", to_wire({"vlan": "3"})] if cty == "CAPACITY" else ["CAPACITY", to_wire({"core": 2})]
    own_k, oth_k = (K.FIELD_CAPACITIES, K.FIELD_LABELS) if cty == "CAPACITY" else (K.FIELD_LABELS, K.FIELD_CAPACITIES)
    for fmt in FORMATS:
        for content in CONTENTS:
            verdict = matrix_verdict(fmt, content)
            sig = "%s:%s:%s" % (fmt, content, cty)
            case = {"kind": "matrix", "cty": cty}
            res.count("matrix:" + str(verdict))
            # ---- API: set_details calls, own first then other and the other way round
            orders = {"own": [["own"]], "other": [["other"]], "both": [["own", "other"], ["other", "own"]], "none": [[]]}[content]
            for order in orders:
                x, y = mk_det(own_d, cl), mk_det(oth_d, cl)
                d = dm.Delegation(atype=T, delegation_id="a", aformat=dm.DelegationFormat[fmt], pool_id=None if fmt == "SinglePool" else "p")
                outcome = [raises(lambda w=w: d.set_details(x if w == "own" else y)) for w in order]
                for w, r in zip(order, outcome):
                    must_reject = fmt == "PoolReference" or w == "other"
                    if must_reject and r is None:
                        res.violation("C12:matrix:api:" + sig, "set_details accepted %s-type details on a %s" % (w, fmt), case)
                    if not must_reject and r is not None:
                        res.violation("C12:matrix:api-valid-rejected:" + sig, "set_details rejected own-type details on a %s" % fmt, case)
                want = x if (fmt != "PoolReference" and "own" in order) else None
                if d.get_details() is not want:
                    res.violation("C12:matrix:api-state:" + sig, "details after the set_details calls are not the accepted ones", case)
                if verdict == "accept" or (verdict == "reject" and fmt != "PoolReference" and "own" in order):
                    # what was accepted encodes and decodes to itself, carrying nothing of the rejected content
                    try:
                        ds = dm.Delegations(atype=T)
                        ds.add_delegations(d)
                        back = dm.Delegations.from_json(json_str=ds.to_json(), atype=T)
                        if delegs_canon(back, cl) != delegs_canon(ds, cl):
                            res.violation("C12:matrix:api-roundtrip:" + sig, "accepted delegation does not round trip", case)
                    except Exception as e:
                        res.violation("C12:matrix:api-roundtrip-raises:" + sig, "accepted delegation does not encode/decode: %s" % e, case)
            # ---- decoder
            entry = {K.FIELD_POOL: "p"} if fmt == "PoolReference" else {K.FIELD_POOL_ID: K.SINGLE_POOL_NAME if fmt == "SinglePool" else "p"}
            if content in ("own", "both"):
                entry[own_k] = un_wire(own_d[1])
            if content in ("other", "both"):
                entry[oth_k] = un_wire(oth_d[1])
            for e in ([entry, dict(reversed(list(entry.items())))] if len(entry) > 1 else [entry]):
                text = json.dumps({"a": e})
                got = []
                r = raises(lambda: got.append(dm.Delegations.from_json(json_str=text, atype=T)))
                dcase = {"kind": "dec", "cty": cty, "obj": {"a": e}}
                if verdict == "reject" and r is None:
                    res.violation("C12:matrix:decoder:" + sig, "from_json accepts an entry that is a %s with %s-type details" % (fmt, content),
                                  dcase, expected="rejected", observed=delegs_canon(got[0], cl))
                if verdict == "accept":
                    if r is not None:
                        res.violation("C12:matrix:decoder-valid-rejected:" + sig, "from_json rejects a well-formed %s entry (%s)" % (fmt, r), dcase)
                    else:
                        d = got[0].delegations.get("a")
                        okd = d is not None and d.format.name == fmt and d.type == T and \
                            (d.delegation_details is None) == (fmt == "PoolReference") and \
                            (fmt == "PoolReference" or det_eq(d.delegation_details, mk_det(own_d, cl)))
                        if not okd:
                            res.violation("C12:matrix:decoder-wrong:" + sig, "a well-formed %s entry decodes to something else" % fmt, dcase)


def clash_free(fam):
    """no node needs two entries under one delegation id (independent of the implementation)"""
    seen = set()
    for p in fam:
        nodes = eff_for(p)
        if p["on"] in nodes:
            return False
        for n in [p["on"]] + sorted(nodes):
            if (n, p["deleg"]) in seen:
                return False
            seen.add((n, p["deleg"]))
    return True


def check_pools(cty, fam, res, order_rng=None):
    """valid family -> per-node delegations -> text -> delegations -> the same pools; clash -> rejected"""
    dm, cl, K = mods()
    T = dm.DelegationType[cty]
    case = {"kind": "pools", "cty": cty, "family": fam}
    try:
        ps = build_family(cty, fam, dm, cl)
        ps.validate_pools()
    except dm.PoolException as e:
        if any(p["id"] == K.SINGLE_POOL_NAME for p in fam):
            # a pool cannot carry the name reserved for single-resource delegations (repaired, /repo ac819ce); had it
            # been accepted, it would have to be read back (below)
            res.count("pools:reserved-pool-name-rejected")
            return
        res.violation("C12:pools:valid-family-rejected:" + err_kind(e), "a valid pool family is rejected by add_pool/build_index/validate: %s" % e, case)
        return
    except Exception as e:
        res.violation("C12:pools:valid-family-rejected:" + err_kind(e), "a valid pool family is rejected by add_pool/build_index/validate: %s" % e, case)
        return
    want = pools_canon(ps, cl)
    if sum(len(p["for"]) for p in fam) % 2 == 0:
        # re-indexing (as the substrate ads do after adding pools) must not change anything
        try:
            ps.build_index_by_delegation_id()
        except Exception as e:
            res.violation("C12:pools:reindex-raises:" + err_kind(e), "a second build_index_by_delegation_id raises: %s" % e, case)
            return
    if not clash_free(fam):
        got = []
        if raises(lambda: got.append(ps.generate_delegations_by_node_id())) is None:
            res.violation("C12:pools:clash-not-rejected", "a node needs two entries under one delegation id and generate did not raise", case,
                          observed=[[n, delegs_canon(d, cl)] for n, d in sorted(got[0].items())])
        return
    try:
        r = ps.generate_delegations_by_node_id()
    except Exception as e:
        res.violation("C12:pools:generate-raises:%s" % err_kind(e), "generate raises on a valid clash-free family: %s" % e, case)
        return
    if pools_canon(ps, cl) != want:
        res.violation("C12:pools:generate-mutates", "generate changed the pools", case)
    # shape: one definition per pool on its defining node, one reference on each node it applies to, nothing else
    entries = 0
    for n, ds in r.items():
        entries += len(ds.delegations)
        if ds.type != T:
            res.violation("C12:pools:shape:type", "generated Delegations of another type", case)
    if entries != sum(1 + len(p.for_) for p in ps.pool_by_id.values()):
        res.violation("C12:pools:shape:count", "number of generated entries is not one per pool and node", case)
    for p in ps.pool_by_id.values():
        d = r.get(p.on_) and r[p.on_].delegations.get(p.delegation_id)
        if d is None or d.format != dm.DelegationFormat.PoolDefinition or d.pool_id != p.pool_id or \
                not det_eq(d.delegation_details, p.pool_details) or d.delegation_id != p.delegation_id:
            res.violation("C12:pools:shape:definition", "no faithful definition on the defining node", case)
        for n in p.for_:
            d = r.get(n) and r[n].delegations.get(p.delegation_id)
            if d is None or d.format != dm.DelegationFormat.PoolReference or d.pool_id != p.pool_id or d.delegation_details is not None:
                res.violation("C12:pools:shape:reference", "no faithful reference on a node the pool applies to", case)
    # text and back
    items = list(r.items())
    if order_rng is not None:
        order_rng.shuffle(items)
    try:
        q = dm.Pools(atype=T)
        for n, ds in items:
            q.incorporate_delegation(node_id=n, deleg=dm.Delegations.from_json(json_str=ds.to_json(), atype=T))
    except Exception as e:
        res.violation("C12:pools:readback-raises:%s" % err_kind(e), "reading the generated delegations back raises: %s" % e, case)
        return
    got = pools_canon(q, cl)
    if got != want:
        rest_w = [w for w in want if w[0] != K.SINGLE_POOL_NAME]
        rest_g = [g for g in got if g[0] != K.SINGLE_POOL_NAME]
        if rest_w == rest_g and len(rest_w) != len(want):
            # every other pool is read back faithfully; only the pool carrying the reserved name is not
            res.violation("C12:pools:pool-named-single-sentinel",
                          "a pool named %r is not read back (its definition decodes as a single-resource delegation)" % K.SINGLE_POOL_NAME,
                          case, expected=[w for w in want if w[0] == K.SINGLE_POOL_NAME], observed=[g for g in got if g[0] == K.SINGLE_POOL_NAME])
            return
        what = "pools"
        if [g[0] for g in got] == [w[0] for w in want]:
            what = next(nm for i, nm in enumerate(["id", "type", "delegation-id", "defined-on", "defined-for", "details"])
                        if any(g[i] != w[i] for g, w in zip(got, want)))
        odd = [w[0] for w in want if w not in got] + [w[2] for w in want if w not in got]
        res.violation("C12:pools:roundtrip:%s%s" % (what, name_class(odd)), "pools read back differ (%s)" % what, case, expected=want, observed=got)
        return
    for w, p in zip(sorted(ps.pool_by_id.items()), sorted(q.pool_by_id.items())):
        if not det_eq(w[1].pool_details, p[1].pool_details):
            res.violation("C12:pools:roundtrip:details", "pool details read back differ", case)


# --------------------------------------------------------------------------
# histories on ONE Pools object: pools kept in the container are mutated (re-delegated, completed, given more nodes), replaced or
# added between indexing runs, an indexing run is rejected half-way and repeated, nodes are incorporated into an indexed container.
# The property is evaluated at every generate that directly follows an indexing run that returned (cf. seeded C12-r6-1).


def apply_mut(p, what, val, cl):
    """one setter call on a Pool object that may already sit in a container"""
    if what == "deleg":
        p.set_delegation_id(delegation_id=val)
    elif what == "on":
        p.set_defined_on(val)
    elif what == "det":
        p.set_pool_details(mk_det(val, cl))
    elif what == "add1":
        p.add_defined_for(val)
    elif what == "addl":
        p.add_defined_for(list(val))
    elif what == "setfor":
        p.set_defined_for(list(val))
    else:
        raise core.Infra("unknown pool mutation %s" % what)


def pool_finished(p, T, cl):
    """the property's quantifier for one pool, read off the object: of the container's type, delegation id, defining node,
    at least one node it applies to, non-empty details of the right kind"""
    if p.type != T or p.delegation_id is None or p.on_ is None or not p.for_ or p.pool_details is None:
        return False
    if kind_of(p.pool_details, cl) != T.name:
        return False
    return any(v is not None and v != 0 for v in (p.pool_details.to_dict() or {}).values())


def pools_clash_free(pools):
    seen = set()
    for p in pools:
        if p.on_ in p.for_:
            return False
        for n in [p.on_] + sorted(p.for_):
            if (n, p.delegation_id) in seen:
                return False
            seen.add((n, p.delegation_id))
    return True


def exc_of(fn):
    try:
        fn()
    except Exception as e:
        return e
    return None


def check_phist(cty, steps, res, order_rng=None):
    """steps: ["add", pool spec] | ["mut", k, what, value] (k-th constructed pool object) | ["inc", node, delegation specs] |
    ["index"] | ["gen"].  After an indexing run that RETURNED, with nothing done to the pools since, and all pools finished:
    the index names exactly the delegation ids / nodes of the pools as they are now, generate yields one definition per pool
    on its defining node and one reference per node it applies to (or raises when a node would need two entries under one
    delegation id), and reading that back through the text reconstructs the pools as they are now."""
    dm, cl, K = mods()
    T = dm.DelegationType[cty]
    ps, objs = dm.Pools(atype=T), []
    fresh, attempts, prev_failed, since = False, 0, False, []

    def tag():
        if attempts <= 1:
            return "first-index"
        return "reindex-after-" + ("failed-index+" if prev_failed else "") + ("+".join(sorted(set(since))) or "nothing")
    last_tag = "never-indexed"
    for i, st in enumerate(steps):
        case = {"kind": "phist", "cty": cty, "steps": steps[:i + 1]}
        k = st[0]
        if k == "add":
            fresh = False
            since.append("add")
            try:
                p = build_pool(st[1], dm, cl)
            except Exception:
                continue
            objs.append(p)
            try:
                ps.add_pool(pool=p)
            except Exception:
                pass
        elif k == "mut":
            if st[1] < len(objs):
                fresh = False
                since.append("re-delegation" if st[2] == "deleg" else "pool-edit")
                try:
                    apply_mut(objs[st[1]], st[2], st[3], cl)
                except Exception:
                    pass
        elif k == "inc":
            fresh = False
            since.append("incorporate")
            try:
                ps.incorporate_delegation(node_id=st[1], deleg=build_delegs(cty, st[2], dm, cl))
            except Exception:
                pass
        elif k == "index":
            attempts += 1
            last_tag = tag()
            finished = all(pool_finished(p, T, cl) for p in ps.pool_by_id.values())
            e = exc_of(ps.build_index_by_delegation_id)
            res.count("phist:index:" + last_tag.split("+")[0] + (":raises" if e else ":returns"))
            if e is not None and finished:
                res.violation("C12:phist:finished-pools-rejected:%s:%s" % (err_kind(e), last_tag),
                              "build_index_by_delegation_id raises although every pool of the container is finished: %s" % e, case)
            fresh = e is None
            prev_failed, since = e is not None, []
        elif k == "gen":
            pools = list(ps.pool_by_id.values())
            if not (fresh and pools and all(pool_finished(p, T, cl) for p in pools)):
                res.count("phist:gen:not-judged")
                raises(ps.generate_delegations_by_node_id)
                continue
            res.count("phist:gen:judged:" + last_tag.split("+")[0])
            want = pools_canon(ps, cl)
            ids = {p.delegation_id for p in pools}
            try:
                got_ids = ps.get_delegation_ids()
                got_nodes = {d: ps.get_node_ids(delegation_id=d) for d in ids}
            except Exception as e:
                res.violation("C12:phist:index-queries-raise:%s:%s" % (err_kind(e), last_tag), "get_delegation_ids/get_node_ids raise after indexing: %s" % e, case)
                return
            want_nodes = {d: set().union(*[set(p.for_) for p in pools if p.delegation_id == d]) for d in ids}     # the nodes the pools apply to
            if got_ids != ids or got_nodes != want_nodes:
                res.violation("C12:phist:index-stale:%s" % last_tag, "after build_index_by_delegation_id the index does not name the delegation ids / "
                              "nodes of the pools as they are now", case, expected=[sorted(ids), sorted((d, sorted(n)) for d, n in want_nodes.items())],
                              observed=[sorted(got_ids), sorted((d, sorted(n)) for d, n in got_nodes.items())])
                return
            got = []
            e = exc_of(lambda: got.append(ps.generate_delegations_by_node_id()))
            if not pools_clash_free(pools):
                if e is None:
                    res.violation("C12:phist:clash-not-rejected:%s" % last_tag, "a node needs two entries under one delegation id and generate did not raise", case)
                    return
                continue
            if e is not None:
                res.violation("C12:phist:generate-raises:%s:%s" % (err_kind(e), last_tag), "generate raises on finished clash-free pools: %s" % e, case)
                return
            r = got[0]
            bad = None
            if sum(len(ds.delegations) for ds in r.values()) != sum(1 + len(p.for_) for p in pools):
                bad = "count"
            for p in pools:
                d = r.get(p.on_) and r[p.on_].delegations.get(p.delegation_id)
                if d is None or d.format != dm.DelegationFormat.PoolDefinition or d.pool_id != p.pool_id or not det_eq(d.delegation_details, p.pool_details):
                    bad = bad or "definition"
                for n in p.for_:
                    d = r.get(n) and r[n].delegations.get(p.delegation_id)
                    if d is None or d.format != dm.DelegationFormat.PoolReference or d.pool_id != p.pool_id or d.delegation_details is not None:
                        bad = bad or "reference"
            if bad:
                res.violation("C12:phist:shape:%s:%s" % (bad, last_tag), "generate after a repeated indexing run: not one definition per pool on its defining "
                              "node and one reference on each node it applies to, under the pool's delegation id", case, expected=want,
                              observed=[[n, delegs_canon(d, cl)] for n, d in sorted(r.items())])
                return
            items = list(r.items())
            if order_rng is not None:
                order_rng.shuffle(items)
            try:
                q = dm.Pools(atype=T)
                for n, ds in items:
                    q.incorporate_delegation(node_id=n, deleg=dm.Delegations.from_json(json_str=ds.to_json(), atype=T))
            except Exception as e:
                res.violation("C12:phist:readback-raises:%s:%s" % (err_kind(e), last_tag), "reading the generated delegations back raises: %s" % e, case)
                return
            if pools_canon(q, cl) != want:
                res.violation("C12:phist:roundtrip:%s" % last_tag, "pools read back differ from the pools as they are now", case, expected=want, observed=pools_canon(q, cl))
                return
            if pools_canon(ps, cl) != want:
                res.violation("C12:phist:generate-mutates:%s" % last_tag, "generate changed the pools", case)
                return


def corner_phists():
    out = []
    for cty in TYPES:
        d1 = ["CAPACITY", to_wire({"core": 32, "ram": 128})] if cty == "CAPACITY" else ["LABEL", to_wire({"vlan_range": "1-100"})]
        d2 = ["CAPACITY", to_wire({"disk": 1000, "unit": 2})] if cty == "CAPACITY" else ["LABEL", to_wire({"vlan_range": "101-200", "ipv4_range": "192.168.1.1-192.168.1.10"})]

        def pool(pid, deleg, on, fr, det=d1, mode="ctor"):
            return {"ty": cty, "id": pid, "deleg": deleg, "on": on, "for": fr, "det": det, "mode": mode}
        two = [["add", pool("pool1", "del1", "n1", ["n2", "n3"])], ["add", pool("pool2", "del2", "n2", ["n1", "n4"], d2)]]
        ig = [["index"], ["gen"]]
        out += [
            # a pool of the container is re-delegated (to a new id / to the id of its neighbour / back) between two indexing runs
            (cty, two + ig + [["mut", 1, "deleg", "del3"]] + ig),
            (cty, two + ig + [["mut", 0, "deleg", "del3"]] + ig + [["mut", 0, "deleg", "del1"]] + ig),
            (cty, two + ig + [["mut", 1, "deleg", "del1"]] + ig),
            (cty, [["add", pool("pool1", "del1", "n1", ["n2"])], ["add", pool("pool2", "del1", "n3", ["n4"], d2)]] + ig + [["mut", 1, "deleg", "del2"]] + ig),
            # an indexing run is rejected on an unfinished pool that follows finished ones; the pool is completed in place
            (cty, [two[0], ["add", pool("pool2", "del2", "n2", ["n1", "n3"], None)], ["index"], ["mut", 1, "det", d2]] + ig),
            (cty, [two[0], ["add", pool("pool2", None, "n2", ["n1", "n3"], d2)], ["index"], ["gen"], ["mut", 1, "deleg", "del2"]] + ig),
            (cty, [two[0], ["add", pool("pool2", "del2", None, ["n1", "n3"], d2, "set")], ["index"], ["mut", 1, "on", "n2"]] + ig),
            (cty, [two[0], ["add", pool("pool2", "del2", "n2", [], d2, "set")], ["index"], ["mut", 1, "add1", "n4"]] + ig),
            (cty, [["add", pool("pool0", "del0", "n5", ["n4"], None)]] + two + [["index"], ["mut", 0, "det", d2]] + ig),
            # the pool is moved / gets more nodes / other details / is replaced by a new object of the same name between two runs
            (cty, two + ig + [["mut", 0, "on", "n5"]] + ig),
            (cty, two + ig + [["mut", 0, "add1", "n5"], ["mut", 1, "addl", ["n3", "n5"]]] + ig),
            (cty, two + ig + [["mut", 0, "setfor", ["n4"]]] + ig),
            (cty, two + ig + [["mut", 1, "det", d1]] + ig),
            (cty, two + ig + [["add", pool("pool2", "del3", "n4", ["n5"], d1)]] + ig),
            (cty, two + ig + [["add", pool("pool3", "del1", "n4", ["n5"], d2)]] + ig),
            # the replaced object is re-delegated afterwards: it is no longer in the container
            (cty, two + ig + [["add", pool("pool2", "del3", "n4", ["n5"], d1)], ["mut", 1, "deleg", "del9"]] + ig),
            # a re-delegation that makes a node need two entries under one id: generate has to raise after the second run
            (cty, [["add", pool("pool1", "del1", "n1", ["n2"])], ["add", pool("pool2", "del2", "n2", ["n1"], d2)]] + ig + [["mut", 1, "deleg", "del1"]] + ig),
            # nodes incorporated into an indexed container (a reference under another delegation id re-delegates the pool)
            (cty, two + ig + [["inc", "n5", [{"ty": cty, "id": "del7", "fmt": "PoolReference", "pool": "pool2", "det": None}]]] + ig),
            (cty, two + ig + [["inc", "n5", [{"ty": cty, "id": "del2", "fmt": "PoolReference", "pool": "pool2", "det": None}]]] + ig),
            # three runs in a row, nothing in between
            (cty, two + ig + ig + ig),
        ]
    return out


def gen_phist(rng, cty, with_inc=True):
    """a history: a mostly finished family, an indexing run, then rounds of edits (re-delegation, completion of an unfinished
    pool, more nodes, another defining node, other details, a replaced or a new pool, incorporated nodes) each followed by a run"""
    fam = gen_pspecs(rng, cty, wellformed=True)
    dids = sorted({p["deleg"] for p in fam}) + rng.sample(id_choices(rng, ["del1", "del2", "primary", "del9"], 3), 2)
    undone = {}
    for k, p in enumerate(fam):
        r = rng.random()
        if r < 0.10:
            undone[k], p["det"] = ["det", p["det"]], None
        elif r < 0.18:
            undone[k], p["deleg"] = ["deleg", p["deleg"]], None
        elif r < 0.24 and p["mode"] == "set":
            undone[k], p["on"] = ["on", p["on"]], None
        elif r < 0.30 and p["mode"] == "set" and not p.get("forops"):
            undone[k], p["for"] = ["addl", p["for"]], []
    steps = [["add", p] for p in fam]
    if rng.random() < 0.15:
        steps.insert(rng.randrange(len(steps) + 1), ["index"])
    nobj = len(fam)
    for rnd in range(rng.randint(1, 3)):
        steps += [["index"], ["gen"]] if rng.random() < 0.85 else [["index"]]
        for _ in range(rng.randint(0 if rnd else 1, 3)):
            r = rng.random()
            k = rng.randrange(nobj)
            if undone and r < 0.45:
                k = rng.choice(sorted(undone))
                steps.append(["mut", k] + undone.pop(k))
            elif r < 0.5:
                steps.append(["mut", k, "deleg", rng.choice(dids)])
            elif r < 0.6:
                steps.append(["mut", k, "add1", rng.choice(NODES)])
            elif r < 0.65:
                steps.append(["mut", k, "addl", rng.sample(NODES, rng.randint(0, 2))])
            elif r < 0.7:
                steps.append(["mut", k, "setfor", rng.sample(NODES, rng.randint(1, 3))])
            elif r < 0.77:
                steps.append(["mut", k, "on", rng.choice(NODES)])
            elif r < 0.84:
                steps.append(["mut", k, "det", gen_det(rng, cty, allow_empty=rng.random() < 0.1)])
            elif r < 0.93 or not with_inc:
                p = gen_pspecs(rng, cty, wellformed=True)[0]
                if rng.random() < 0.4:
                    p["id"] = rng.choice(fam)["id"]
                p["deleg"] = rng.choice(dids)
                steps.append(["add", p])
                nobj += 1
            else:
                p = rng.choice(fam)
                steps.append(["inc", rng.choice(NODES), [{"ty": cty, "id": rng.choice(dids + [p["deleg"] or "del1"] * 3), "fmt": "PoolReference", "pool": p["id"], "det": None}]])
    steps += [["index"], ["gen"]]
    return steps


def gen_topo_adv(rng):
    """gen_topo_spec plus what single_delegation must refuse or treat differently: a pool on a node that has capacities / labels of
    its own, a switch that is not a stitch node with labelled ports, a clash inside the pools"""
    spec = gen_topo_spec(rng)
    r = rng.random()
    if r < 0.2:
        fam = spec["families"][rng.choice(TYPES)]
        if fam:
            fam[0]["for"] = fam[0]["for"] + [rng.choice(["N1", "N1-nic1", "I1"])]
    elif r < 0.4:
        spec["stitch"] = False
        spec["port_labels"] = rng.sample(range(spec["ports"]), rng.randint(0, spec["ports"]))
    elif r < 0.5:
        fam = spec["families"][rng.choice(TYPES)]
        if len(fam) >= 2:
            fam[1]["for"] = fam[1]["for"] + [fam[0]["on"]]
    return spec


def gen_topo_spec(rng, fixed=False):
    nports = 4 if fixed else rng.randint(3, 6)
    ports = ['SWP%d' % i for i in range(nports)]
    did = "primary" if fixed else rng.choice(id_choices(rng, ["primary", "del1", "dél"]))
    fams = {}
    for cty in TYPES:
        k = 1 if fixed else rng.randint(0, 2)
        free = list(ports)
        fam = []
        names = ["%s-pool%d" % (cty.lower(), j) for j in range(k)]
        if not fixed and rng.random() < 0.35:
            names = rng.sample(adv()["pools"], k)
        for j in range(k):
            if len(free) < 2:
                break
            mine = [free.pop(0) for _ in range(min(len(free), 2 if fixed else rng.randint(2, 3)))]
            fam.append({"ty": cty, "id": names[j], "deleg": did, "on": mine[0], "for": mine,
                        "det": gen_det(rng, cty, allow_empty=False) if not fixed else
                        (["CAPACITY", to_wire({"bw": 100})] if cty == "CAPACITY" else ["LABEL", to_wire({"vlan_range": "100-200"})]),
                        "mode": "ctor"})
        fams[cty] = fam
    cap_w = ["CAPACITY", to_wire({"core": 32, "ram": 128})] if fixed else gen_cap(rng, allow_empty=False)
    return {"kind": "topology", "ports": nports, "delegation": did, "families": fams, "cap_w": cap_w}


def build_topo(case):
    """a small substrate: a worker with capacities and a SmartNIC (capacities, labels, two labelled ports) and a stitch switch with
    `ports` trunk ports (the nodes the pools of the case live on)"""
    import fim.user as f
    dm, cl, K = mods()
    topo = f.SubstrateTopology()
    w = topo.add_node(name='w1', model='R7525', site='S', node_id='N1', ntype=f.NodeType.Server, capacities=mk_det(case["cap_w"], cl))
    w.add_component(name='w1-nic1', model='ConnectX-6', node_id='N1-nic1', network_service_node_id='N1-nic1-sf',
                    interface_node_ids=['I1', 'I2'],
                    interface_labels=[f.Labels(mac='04:3F:72:B7:19:5C', vlan_range='1-4096'),
                                      f.Labels(mac='04:3F:72:B7:19:5D', vlan_range='1-4096')],
                    ctype=f.ComponentType.SmartNIC, capacities=f.Capacities(unit=1),
                    labels=f.Labels(bdf=['0000:41:00.0', '0000:41:00.1']))
    stitch = case.get("stitch", True)
    sw = topo.add_node(name='sw', node_id='SW', site='S', ntype=f.NodeType.Switch, stitch_node=stitch)
    ns = sw.add_network_service(name='sw-ns', node_id='SW-ns', nstype=f.ServiceType.MPLS, stitch_node=stitch)
    for i in range(case["ports"]):
        kw = {}
        if case.get("port_labels") and i in case["port_labels"]:
            kw["labels"] = f.Labels(local_name="p%d" % i)
        ns.add_interface(name='p%d' % i, itype=f.InterfaceType.TrunkPort, node_id='SWP%d' % i, stitch_node=stitch, **kw)
    return topo


def topo_elements(topo):
    """node id -> model element, by an own traversal of the topology"""
    elements = {}
    for n in topo.nodes.values():
        elements[n.node_id] = n
        for c in n.components.values():
            elements[c.node_id] = c
            for i in c.interface_list:
                elements[i.node_id] = i
        for s_ in n.network_services.values():
            elements[s_.node_id] = s_
            for i in s_.interface_list:
                elements[i.node_id] = i
    return elements


def topo_request(spec):
    """the request for the model: the spec plus the elements as the topology really has them (node id, stitch flag, own capacities / labels)"""
    dm, cl, K = mods()
    topo = build_topo(spec)
    try:
        elems = []
        for nid, el in topo_elements(topo).items():
            row = [nid, bool(el.get_property("stitch_node"))]
            for pname, kind in (("capacities", "CAPACITY"), ("labels", "LABEL")):
                x = el.get_property(pname=pname)
                row.append(None if x is None else [kind_of(x, cl), to_wire(x.to_dict() or {})])
            elems.append(row)
    finally:
        try:
            topo.graph_model.delete_graph()
        except Exception:
            pass
    return {"spec": spec, "elems": elems}


def topo_eval(x):
    """single_delegation on the real topology; then every node's two delegation properties as stored in the graph"""
    dm, cl, K = mods()
    spec = x["spec"]
    topo = build_topo(spec)
    try:
        pools = {cty: build_family(cty, spec["families"][cty], dm, cl) for cty in TYPES}
        topo.single_delegation(delegation_id=spec["delegation"], label_pools=pools["LABEL"], capacity_pools=pools["CAPACITY"])
        arm = topo.as_arm()
        out = []
        for cty, prop in (("CAPACITY", K.PROP_CAPACITY_DELEGATIONS), ("LABEL", K.PROP_LABEL_DELEGATIONS)):
            rows = []
            for nid in sorted(topo_elements(topo)):
                _, props = arm.get_node_properties(node_id=nid)
                v = props.get(prop, None)
                if v is not None and v != K.NEO4j_NONE:
                    rows.append([nid, to_wire(json.loads(v))])
            out.append([cty, sorted(rows)])
        return out
    finally:
        try:
            topo.graph_model.delete_graph()
        except Exception:
            pass


def check_topology(case, res):
    """through Topology.single_delegation / annotate_delegations_and_pools on a small substrate topology"""
    import fim.user as f
    dm, cl, K = mods()
    nports, did, fams = case["ports"], case["delegation"], case["families"]
    topo = build_topo(case)
    try:
        pools = {cty: build_family(cty, fams[cty], dm, cl) for cty in TYPES}
        want = {cty: pools_canon(pools[cty], cl) for cty in TYPES}
        topo.single_delegation(delegation_id=did, label_pools=pools["LABEL"], capacity_pools=pools["CAPACITY"])
        arm = topo.as_arm()
        elements = topo_elements(topo)
        for cty in TYPES:
            T = dm.DelegationType[cty]
            q = dm.Pools(atype=T)
            for nid in sorted(arm.get_all_nodes_by_class(label='NetworkNode') + arm.get_all_nodes_by_class(label='Component') +
                              arm.get_all_nodes_by_class(label='NetworkService') + arm.get_all_nodes_by_class(label='ConnectionPoint')):
                ds = arm.get_delegations(node_id=nid, delegation_type=T)
                el = elements.get(nid)
                own = None
                if el is not None and not el.get_property("stitch_node"):
                    own = el.get_property(pname='capacities' if cty == "CAPACITY" else 'labels')
                if own is not None:
                    d = ds and ds.delegations.get(did)
                    if d is None or d.format != dm.DelegationFormat.SinglePool or not det_eq(d.delegation_details, own) or len(ds.delegations) != 1:
                        res.violation("C12:topology:single:" + cty, "element's own %s not readable back as its single delegation" % cty.lower(),
                                      dict(case, node=nid))
                if ds is not None:
                    q.incorporate_delegation(node_id=nid, deleg=ds)
            if pools_canon(q, cl) != want[cty]:
                res.violation("C12:topology:pools:" + cty, "pools read back from the annotated model differ", case,
                              expected=want[cty], observed=pools_canon(q, cl))
    except Exception as e:
        res.violation("C12:topology:raises:" + err_kind(e), "single_delegation / read back raised %s: %s" % (type(e).__name__, e), case)
    finally:
        try:
            topo.graph_model.delete_graph()     # the in-memory store is shared: keep it from growing with every case
        except Exception:
            pass
    return case


def run_case(case, res):
    k = case["kind"]
    if k == "codec":
        check_codec(case["cty"], case["specs"], res)
    elif k == "reject":
        check_rejections(case["cty"], case["det"], case["odet"], res)
    elif k == "pools":
        if case.get("path"):
            check_reserved(case["cty"], res)
        else:
            check_pools(case["cty"], case["family"], res)
    elif k == "dec":
        check_dec_verdict(case["cty"], case["obj"], res)
    elif k == "specs":
        check_specs_verdict(case["cty"], case["calls"], res)
    elif k == "matrix":
        check_matrix(case["cty"], res)
    elif k == "call":
        sh = case["shape"]
        check_call(case["cty"], (sh[0], tuple(sh[1]) if sh[1] else None, sh[2], sh[3]), res)
    elif k == "topology":
        check_topology(case, res)
    elif k == "phist":
        check_phist(case["cty"], case["steps"], res)


def set_wf(cty, specs):
    """the property's quantifier for delegation sets, computed from the specification of the set"""
    if len({s["id"] for s in specs}) != len(specs):
        return False
    for s in specs:
        if not wf_spec(s, None) or s["ty"] != cty:
            return False
        if s["det"] is not None:
            d = un_wire(s["det"][1])
            if s["det"][0] != cty or not isinstance(d, dict) or not any(v is not None and v != 0 for v in d.values()):
                return False
    return True


def wf_spec(s, K):
    """the property's well-formed classes (the reserved pool name is *not* excluded here: the property does not exclude it)"""
    if s["fmt"] == "SinglePool":
        return s["pool"] is None and s["det"] is not None
    if s["fmt"] == "PoolDefinition":
        return s["pool"] is not None and s["det"] is not None
    return s["pool"] is not None and s["det"] is None


def oracle(ctx, res, n=None):
    dm, cl, K = mods()
    n = n or ctx.scale(1500, 15000)
    # corpus / deterministic cases first
    for c in corpus_cases():
        if c.get("case"):
            res.evaluations += 1
            run_case(c["case"], res)
    for cty, specs in corner_dspecs():
        if specs and set_wf(cty, specs):
            res.evaluations += 1
            check_codec(cty, specs, res)
    for cty in TYPES:
        res.evaluations += 1
        check_rejections(cty, ["CAPACITY", to_wire({"core": 2})] if cty == "CAPACITY" else ["LABEL", to_wire({"vlan": "3"})],
                         ["LABEL", to_wire({"vlan": "3"})] if cty == "CAPACITY" else ["CAPACITY", to_wire({"core": 2})], res)
    for cty in TYPES:
        res.evaluations += len(FORMATS) * len(CONTENTS) * 2
        check_matrix(cty, res)
        res.evaluations += 5
        check_reserved(cty, res)
    for cty in TYPES:
        for shape in call_shapes():
            res.evaluations += 1
            res.count("call:" + ("dup" if shape[1] else "held" if shape[3] is not None else "mixed" if shape[2] is not None else "valid"))
            check_call(cty, shape, res)
    for cty, fam in corner_pspecs():
        if fam and family_valid(cty, fam):
            res.evaluations += 1
            check_pools(cty, fam, res)
    for cty, steps in corner_phists():
        res.evaluations += 1
        check_phist(cty, steps, res)
    res.evaluations += 1
    check_topology(gen_topo_spec(None, fixed=True), res)
    # random
    rng = ctx.sub_rng("oracle-phist")
    for i in range(n // 3):
        cty = rng.choice(TYPES)
        steps = gen_phist(rng, cty)
        res.evaluations += 1
        if sum(1 for st in steps if st[0] == "index") >= 2 and sum(1 for st in steps if st[0] == "add") >= 2:
            res.nontrivial.add(canon(["phist", cty, steps]))
        count_names(res, steps, "oracle-phist")
        check_phist(cty, steps, res, order_rng=rng if i % 2 else None)
    rng = ctx.sub_rng("oracle")
    for i in range(n):
        cty = rng.choice(TYPES)
        specs = gen_dspecs(rng, cty, wellformed=True)
        if rng.random() < 0.03:
            d = rng.choice([s for s in specs if s["fmt"] == "PoolDefinition"] or [None])
            if d:
                d["pool"] = K.SINGLE_POOL_NAME
        res.evaluations += 1
        if len(specs) >= 2:
            res.nontrivial.add(canon(["codec", cty, specs]))
        count_names(res, specs, "oracle-codec")
        check_codec(cty, specs, res)
        if i % 10 == 0:
            res.evaluations += 1
            check_rejections(cty, gen_det(rng, cty, allow_empty=False), gen_det(rng, other(cty), allow_empty=False), res)
    for i in range(n // 2):
        cty = rng.choice(TYPES)
        fam = gen_pspecs(rng, cty, wellformed=rng.random() < 0.6)
        if not family_valid(cty, fam):
            continue
        res.evaluations += 1
        if any(len(eff_for(p) - {p["on"]}) >= 2 for p in fam):
            res.nontrivial.add(canon(["pools", cty, fam]))
        res.count("pools:" + ("clash" if not clash_free(fam) else "clash-free"))
        count_names(res, fam, "oracle-pools")
        check_pools(cty, fam, res, order_rng=rng if i % 2 else None)
    for i in range(ctx.scale(40, 400)):
        res.evaluations += 1
        tspec = gen_topo_spec(rng)
        count_names(res, tspec, "oracle-topology")
        check_topology(tspec, res)
    res.sample({"oracle": "codec round trip, rejection rules, pools -> node delegations -> text -> pools, single_delegation on a substrate topology",
                "example": ["pools", "LABEL", corner_pspecs()[0][1]]})


def family_valid(cty, fam):
    """the property's quantifier: pools of the container's type passing validate_pool, distinct pool ids,
    details of the right kind and not empty (computed from the specification of the family, not by the implementation)"""
    if len({p["id"] for p in fam}) != len(fam):
        return False
    for p in fam:
        if p["ty"] != cty or p["deleg"] is None or p["on"] is None or p["det"] is None or p["det"][0] != cty:
            return False
        nodes = eff_for(p)
        if not nodes:
            return False
        d = un_wire(p["det"][1])
        if not any(v is not None and v != 0 for v in d.values()):
            return False
    return True


def search(ctx, res, broken):
    for link, detail in broken:
        if link == "correspondence" and isinstance(detail, list):
            for dis in detail:
                r = dis.get("case")
                if isinstance(r, list) and len(r) == 3:
                    res.evaluations += 1
                    request_verdict(r, impl_eval(r), res)
    for cty in TYPES:
        check_matrix(cty, res)
    oracle(ctx, res, n=ctx.scale(15000, 60000))


def replay(ctx, payload):
    r = core.Result()
    run_case(payload["case"], r)
    for v in r.violations:
        print("  ", v["signature"], v["what"])
    return bool(r.violations)
