"""C07 - every model the topology API builds satisfies the published graph rules; views are exact and read-only."""
import glob
import json
import os

import core
from core import LeanDriver, canon
from gen import rules
import lib_topo as T
from props import c09

ID = "C07"
GENERATORS = [rules.generate]
LEAN_MODULES = ["FimVerif.Proofs.C07", "FimVerif.Drivers.TopoRun"]
P = "FimVerif.C07."
THEOREMS = [P + t for t in (
    "vocab_covers_enums", "rules_pinned", "wf_empty", "views_exact_nodes", "views_exact_facilities", "views_exact_links",
    "views_exact_services", "views_partition_nodes", "id_guard_any_class", "wf_addGNode", "wf_setEdge", "wf_dropNode",
    "wf_mapNodes", "pw_addEdge", "pw_deleteNode", "pw_updateProps", "pw_mapNodes",
    "inv_empty", "invS_iff", "links_only_interfaces", "inv_op", "invD_op", "inv_history_partial", "invD_history_partial",
    "inv_history_from_empty", "invD_history_from_empty", "invN_op", "invN_history_partial", "invN_history_from_empty",
    "inv_setProps", "inv_unsetProp", "inv_addNode",
    "rename_names_counterexample", "nsAddInterface_names_counterexample", "nsAddInterface_sp_counterexample",
    "addLink_sp_counterexample", "connect_names_counterexample")] + ["FimVerif.Topo." + t for t in (
    "invS_grow", "invD_grow", "invD_dropNode", "invS_mapNodes", "namesOk_mapNodes", "invS_addNode", "invS_nsAddInterface", "invS_addLink",
    "invS_connect", "invS_addComponent", "invS_addStorage", "invS_addService", "invS_nodeAddService", "invD_addService",
    "invD_nodeAddService", "invD_addComponent", "svcLoop_ok", "svcLoop_invD", "catalog_ok", "invS_addFacility", "invS_addSwitch",
    "invD_addFacility", "invD_addSwitch", "addFacility_shape", "addSwitch_shape", "namesCore_attach", "namesCore_grow_cp_link",
    "namesCore_pushNode", "kids_sub_childrenOf", "sibling_free", "invSN_addComponent", "invSN_addFacility", "invSN_connect",
    "invSN_addService", "invSN_nodeAddService", "svcLoop_okP", "svcNew_ok_invP", "connect_grow_spec")]
TRUSTED_BASE = [
    "Model/Topo.lean (hand-mirrored topology API, see C09) - checked differentially call by call, including the four name views",
    "Topo.Inv (Proofs/Lemmas/TopoInv.lean) is the reading of the statement's conjuncts on the model state; edges are read container-first "
    "(the order in which every building call passes the two ends) - tied to the published rules by evaluating every conjunct on every "
    "state of the correspondence run in the Lean driver and comparing the verdicts with the rule oracle's on the implementation's graph",
    "gen/rules.py: regexes that read the vocabularies out of graph_validation_rules.json and pin the list of rule kinds; enum members by import",
    "the Python transliteration of the 11 non-cardinality rules + containment/name-scope rules in props/c07.py (the oracle)",
    "post-state lemmas of the C09 development (Proofs/Lemmas/TopoAtomic*.lean: ifaceNew_cases, linkNew_cases, connect_spec) - proved, "
    "imported read-only",
]
ASSUMPTIONS = [
    "NetworkX backend, single thread, ASCII names; uuid4 freshness (guard FreshTwo in CoveredS/CoveredD)",
    "the two cardinality rules (L2PTP/L2Path connect two, PortMirror connects one) constrain finished slices (C10) and are not demanded after every call",
    "PARTIAL: (1) the downward-closed invariant InvD (ids distinct, no dangling edge, vocabularies, containment structure, AT MOST one "
    "owner / parent / peer) is proved for every history over ALL 23 building calls of the model, any state, any outcome, under the "
    "decidable guard CoveredD (argument types from the API enums, handles refer to elements of their class, fresh uuids, no ServicePort "
    "handed to add_link/connect); (2) InvS (EXACTLY one owner / parent / peer) is proved for every history of the creating and property "
    "calls under CoveredS (additionally: add_interface not used to create a ServicePort; a service constructor or composite that raises "
    "after its rollback ran left the model unchanged - C09 proves that for at most one interface); (3) InvS together with four of the six name scopes (nodes, components of a node, "
    "services of a node/component, top-level services: NamesCore) for every history of the creating calls except rename (CoveredN = CoveredS "
    "minus rename; the sibling-name guards of the code are read through "
    "kids_sub_childrenOf / sibling_free); (4) the full Inv with all six name scopes only for add_node, set/unset property",
    "NOT proved (oracle + correspondence only): 'exactly one' after removing calls / disconnect / remove_interface (C08's subject); the "
    "Link and interface-of-a-service name scopes (broken by the code: known findings with _counterexample theorems); every name scope "
    "under rename (known finding); the name scopes under removals",
    "building calls not in the model: peer/unpeer, add_child_interface/remove_child_interface, add_port_mirror_service, prune",
]
RULE = ("call histories over both flavours (caller-supplied and generated ids), mostly valid calls with 15% rejected ones; after every call "
        "all rules are evaluated on the graph extracted from the store; non-trivial = the history reaches >= 1 service with >= 1 connected "
        "interface; distinct by op-kind sequence hash")

CORPUS = os.path.join(core.CORPUS_DIR, "C07")
CONTAINMENT = {tuple(sorted([a, b])) + (rel,) for a, rel, b in (
    ("NetworkNode", "has", "Component"), ("NetworkNode", "has", "NetworkService"), ("CompositeNode", "has", "Component"),
    ("CompositeNode", "has", "NetworkService"), ("Component", "has", "NetworkService"), ("NetworkService", "connects", "ConnectionPoint"),
    ("ConnectionPoint", "connects", "ConnectionPoint"), ("Link", "connects", "ConnectionPoint"))}
# conjunct of Topo.Inv (Proofs/Lemmas/TopoInv.lean) that a rule of the oracle belongs to
CONJ = {"has-props": "vocab", "class-vocab": "vocab", "type-vocab": "vocab", "ids-distinct": "ids", "component-one-owner": "compOwned",
        "interface-one-parent": "ifaceOwned", "serviceport-one-peer": "spPeer", "link-only-interfaces": "schema", "containment": "schema"}
NAME_CONJ = {"NetworkNode": "nodeNames", "Link": "linkNames", "Component-in-NetworkNode": "compNames",
             "NetworkService-in-NetworkNode": "svcNames", "NetworkService-in-Component": "svcNames",
             "NetworkService-top-level": "topSvcNames", "ConnectionPoint-in-NetworkService": "cpNames"}
CONJUNCTS = ["ids", "closed", "vocab", "schema", "compOwned", "ifaceOwned", "spPeer", "nodeNames", "linkNames", "compNames", "svcNames",
             "topSvcNames", "cpNames"]


def py_verdicts(snap):
    """the oracle's verdict per conjunct of Topo.Inv on a snapshot of the implementation's graph"""
    v = {c: True for c in CONJUNCTS}
    for rule, cls, _ in check_rules(snap):
        v[NAME_CONJ[cls] if rule == "names-unique" else CONJ[rule]] = False
    v["inv"] = all(v.values())
    return v

_VOCAB = None


def vocab():
    global _VOCAB
    if _VOCAB is None:
        _VOCAB = rules.read_rules()
    return _VOCAB


# --------------------------------------------------------------------------
# the rules, transliterated, on a canonical snapshot

def check_rules(snap):
    """-> list of (rule, class, detail)"""
    v = vocab()
    out = []
    nodes = snap["nodes"]
    key = lambda n: (n[0], n[1])
    by_id = {}
    for n in nodes:
        by_id.setdefault(n[1], []).append(n)
    adj = {}
    for a, b, rel in snap["edges"]:
        adj.setdefault(tuple(a), []).append((tuple(b), rel))
        adj.setdefault(tuple(b), []).append((tuple(a), rel))
    cls_of = {key(n): n[0] for n in nodes}
    node_of = {key(n): n for n in nodes}
    for n in nodes:
        c, nid, name, typ = n[0], n[1], n[2], n[3]
        if c is None or nid is None or name is None or typ is None:
            out.append(("has-props", str(c), n[:4]))
            continue
        if c not in v["classes"]:
            out.append(("class-vocab", c, n[:4]))
        elif c in v["types"] and typ not in v["types"][c]:
            out.append(("type-vocab", "%s:%s" % (c, typ), n[:4]))
    for nid, l in by_id.items():
        if len(l) > 1:
            out.append(("ids-distinct", "+".join(sorted(x[0] for x in l)), nid))
    for n in nodes:
        k = key(n)
        nb = adj.get(k, [])
        if n[0] == "Component":
            owners = [x for x, rel in nb if rel == "has" and x[0] in ("NetworkNode", "CompositeNode")]
            if len(owners) != 1:
                out.append(("component-one-owner", "Component", [n[:4], owners]))
        if n[0] == "ConnectionPoint":
            # "each interface [belongs] to exactly one service or parent interface": a sub-interface hangs off its parent
            # interface (the parent's own children are not its parents), anything else off a service
            parents = [x for x, rel in nb if rel == "connects" and x[0] == "NetworkService"]
            if n[3] == "SubInterface":
                parents += [x for x, rel in nb if rel == "connects" and x[0] == "ConnectionPoint"]
            if len(parents) != 1:
                out.append(("interface-one-parent", "ConnectionPoint:" + str(n[3]), [n[:4], parents]))
            if n[3] == "ServicePort":
                peers = []
                for l, rel in nb:
                    if rel == "connects" and l[0] == "Link":
                        peers += [x for x, r2 in adj.get(l, []) if r2 == "connects" and x[0] == "ConnectionPoint" and x != k]
                if len(peers) != 1:
                    out.append(("serviceport-one-peer", "ConnectionPoint:ServicePort", [n[:4], peers]))
        if n[0] == "Link":
            for x, rel in nb:
                if x[0] != "ConnectionPoint":
                    out.append(("link-only-interfaces", x[0], [n[:4], list(x)]))
    # containment structure (what may hang off what)
    for a, b, rel in snap["edges"]:
        pair = tuple(sorted([a[0], b[0]])) + (rel,)
        if pair not in CONTAINMENT and "Link" not in pair[:2]:
            out.append(("containment", "%s-%s-%s" % (a[0], rel, b[0]), [list(a), list(b), rel]))
    # names unique in scope

    def dup(names):
        s, d = set(), set()
        for x in names:
            (d if x in s else s).add(x)
        return sorted(d)
    for c in ("NetworkNode", "Link"):
        d = dup([n[2] for n in nodes if n[0] == c])
        if d:
            out.append(("names-unique", c, d))
    top = []
    for n in nodes:
        k = key(n)
        nb = adj.get(k, [])
        if n[0] == "NetworkService" and not [x for x, rel in nb if rel == "has"]:
            top.append(n[2])
        if n[0] in ("NetworkNode", "Component"):
            for cc in ("Component", "NetworkService"):
                d = dup([node_of[x][2] for x, rel in nb if rel == "has" and x[0] == cc and x in node_of and
                         (cc != "Component" or n[0] == "NetworkNode")])
                if d and not (n[0] == "Component" and cc == "Component"):
                    out.append(("names-unique", cc + "-in-" + n[0], d))
        if n[0] == "NetworkService":
            d = dup([node_of[x][2] for x, rel in nb if rel == "connects" and x[0] == "ConnectionPoint" and x in node_of])
            if d:
                out.append(("names-unique", "ConnectionPoint-in-NetworkService", d))
    d = dup(top)
    if d:
        out.append(("names-unique", "NetworkService-top-level", d))
    return out


def expected_views(snap):
    nodes = snap["nodes"]
    adj = {}
    for a, b, rel in snap["edges"]:
        adj.setdefault(tuple(a), []).append((tuple(b), rel))
        adj.setdefault(tuple(b), []).append((tuple(a), rel))
    ev = {"nodes": sorted(n[2] for n in nodes if n[0] == "NetworkNode" and n[3] != "Facility"),
          "facilities": sorted(n[2] for n in nodes if n[0] == "NetworkNode" and n[3] == "Facility"),
          "links": sorted(n[2] for n in nodes if n[0] == "Link"),
          "services": sorted(n[2] for n in nodes if n[0] == "NetworkService")}
    ifs = []
    for n in nodes:
        if n[0] == "NetworkNode" and n[3] != "Facility":
            k = (n[0], n[1])
            holders = [k] + [x for x, rel in adj.get(k, []) if rel == "has" and x[0] == "Component"]
            for h in holders:
                for ns, rel in adj.get(h, []):
                    if rel == "has" and ns[0] == "NetworkService":
                        ifs += [x[1] for x, r2 in adj.get(ns, []) if x[0] == "ConnectionPoint" and x != h]
    ev["interface_list"] = sorted(ifs)
    return ev


def check_views(sess, snap, res, case, opname):
    t = sess.topo
    ev = expected_views(snap)
    names_dup = len(set(ev["nodes"])) != len(ev["nodes"]) or len(set(ev["links"])) != len(ev["links"]) or \
        len(set(ev["services"])) != len(ev["services"]) or len(set(ev["facilities"])) != len(ev["facilities"])
    try:
        with T.det_uuids():
            got = {"nodes": sorted(t.nodes.keys()), "facilities": sorted((t.facilities or {}).keys()),
                   "links": sorted(t.links.keys()), "services": sorted(t.network_services.keys()),
                   "interface_list": sorted(i.node_id for i in t.interface_list)}
    except Exception as e:
        res.violation("C07:views:raise:%s:%s" % (core.err_kind(e), opname), "a read-only view raised %s after %s" % (type(e).__name__, opname), case,
                      observed=str(e)[:300])
        return
    if names_dup:
        return      # a name-keyed dictionary cannot list two elements of one name: reported by names-unique
    for k in ev:
        if ev[k] != got[k]:
            res.violation("C07:views:%s:%s" % (k, opname), "view %s does not list exactly the elements in the model" % k, case,
                          expected=ev[k], observed=got[k])
    # mutation through a view must raise and change nothing
    views = {"nodes": t.nodes, "links": t.links, "services": t.network_services, "facilities": t.facilities}
    for vn, v in views.items():
        if v is None:
            continue
        attempts = {"setitem": lambda: v.__setitem__("zz", 1), "delitem": lambda: v.__delitem__(next(iter(v), "zz")),
                    "update": lambda: v.update({"zz": 1}), "pop": lambda: v.pop(next(iter(v), "zz")), "clear": lambda: v.clear(),
                    "setdefault": lambda: v.setdefault("zz", 1)}
        for an, f in attempts.items():
            try:
                f()
                raised = False
            except Exception:
                raised = True
            after = T.snapshot(t)
            if not raised or after != snap or sorted(v.keys()) != got[vn]:
                res.violation("C07:views:mutable:%s:%s" % (vn, an), "mutation through view %s via %s did not raise or changed something" % (vn, an), case)


def non_trivial(steps):
    for st in steps:
        for n in st["after"]["nodes"]:
            if n[0] == "ConnectionPoint" and n[3] == "ServicePort":
                return True
    return False


def scripted(ops):
    """ops list -> callable for run_history; the pseudo-op {"op": "_harvest", "h": key} picks up the interface handles of
    a service / node handle (fresh lookups through the API, as a caller would) and is not a building call"""
    it = iter(list(ops))

    def nxt(sess):
        for op in it:
            if op["op"] == "_harvest":
                sess.harvest(op["h"])
                continue
            return op
        return None
    return nxt


def run_and_check(fl, ops_or_gen, res, label, nmax=None, views_every=3):
    ops_done = []
    cnt = [0]
    script = None if callable(ops_or_gen) else list(ops_or_gen)
    if script is not None:
        ops_or_gen = scripted(script)

    def on_step(sess, st):
        ops_done.append(st["op"])
        res.evaluations += 1
        res.count("op:" + st["op"]["op"])
        case = {"flavour": fl, "ops": list(ops_done) if script is None else script[:script.index(st["op"]) + 1], "label": label}
        before = {(r, c) for r, c, _ in check_rules(st["before"])}
        for rule, cls, detail in check_rules(st["after"]):
            if (rule, cls) in before:
                continue            # report a breach at the call that introduced it
            res.violation("C07:%s:%s:%s" % (rule, cls, st["op"]["op"]), "after %s the model breaks rule '%s' (%s)" % (st["op"]["op"], rule, cls),
                          case, observed=detail)
        cnt[0] += 1
        if cnt[0] % views_every == 0 and not check_rules(st["after"]):
            check_views(sess, st["after"], res, case, st["op"]["op"])
    steps = c09.run_history(fl, ops_or_gen, on_step=on_step, nmax=nmax)
    if non_trivial(steps):
        res.nontrivial.add(core.sha(canon([s["op"]["op"] for s in steps])))
    return steps


def deterministic_cases():
    base = c09.base_ops("exp")
    out = []
    out.append(("remove_link-of-connection", "exp", base + [
        {"op": "add_service", "name": "s1", "nstype": "L2Bridge", "ifs": ["h3"], "kw": []},
        {"op": "remove_link", "name": "n1-nic1-p1-link"}]))
    out.append(("add_interface-same-name-twice", "exp", base + [
        {"op": "add_service", "name": "s1", "nstype": "L2Bridge", "ifs": [], "kw": []},
        {"op": "ns_add_interface", "svc": "h10", "name": "ii", "itype": "TrunkPort", "kw": []},
        {"op": "ns_add_interface", "svc": "h10", "name": "ii", "itype": "TrunkPort", "kw": []}]))
    out.append(("rename-to-existing", "exp", base + [{"op": "rename", "h": "h1", "name": "n1"}]))
    out.append(("facility-dup-iface-names", "exp", base + [
        {"op": "add_facility", "name": "fac", "site": "RENC", "ifs": [["fi", ["lab", {"vlan": "100"}], ["cap", {"bw": 10}]], ["fi", ["lab", {"vlan": "101"}], ["cap", {"bw": 10}]]]}]))
    out.append(("add_link-on-service-port", "exp", base + [
        {"op": "add_service", "name": "s1", "nstype": "L2Bridge", "ifs": ["h3"], "kw": []},        # h10
        {"op": "_harvest", "h": "h10"},                                                           # h11 = the ServicePort
        {"op": "add_link", "name": "lx", "ltype": "L2Path", "ifs": ["h11", "h6"], "kw": []}]))
    out.append(("add_interface-service-port", "exp", base + [
        {"op": "add_service", "name": "s1", "nstype": "L2Bridge", "ifs": [], "kw": []},
        {"op": "ns_add_interface", "svc": "h10", "name": "spx", "itype": "ServicePort", "kw": []}]))
    out.append(("add_interface-sub-interface-type", "exp", base + [
        {"op": "add_service", "name": "s1", "nstype": "L2Bridge", "ifs": [], "kw": []},
        {"op": "ns_add_interface", "svc": "h10", "name": "subx", "itype": "SubInterface", "kw": []}]))
    out.append(("connect-same-derived-name", "exp", base + [
        {"op": "node_add_service", "parent": "h0", "name": "nsa", "nstype": "OVS", "kw": []},     # h10
        {"op": "node_add_service", "parent": "h0", "name": "nsb", "nstype": "OVS", "kw": []},     # h11
        {"op": "ns_add_interface", "svc": "h10", "name": "ii", "itype": "TrunkPort", "kw": []},   # h12
        {"op": "ns_add_interface", "svc": "h11", "name": "ii", "itype": "TrunkPort", "kw": []},   # h13
        {"op": "add_service", "name": "s1", "nstype": "L2Bridge", "ifs": ["h12"], "kw": []},       # h14
        {"op": "connect", "svc": "h14", "if": "h13"}]))
    out.append(("add_service-same-derived-name", "exp", base + [
        {"op": "node_add_service", "parent": "h0", "name": "nsa", "nstype": "OVS", "kw": []},     # h10
        {"op": "node_add_service", "parent": "h0", "name": "nsb", "nstype": "OVS", "kw": []},     # h11
        {"op": "ns_add_interface", "svc": "h10", "name": "ii", "itype": "TrunkPort", "kw": []},   # h12
        {"op": "ns_add_interface", "svc": "h11", "name": "ii", "itype": "TrunkPort", "kw": []},   # h13
        {"op": "add_service", "name": "s1", "nstype": "L2Bridge", "ifs": ["h12", "h13"], "kw": []}]))
    out.append(("node-named-like-facility", "exp", base + [
        {"op": "add_facility", "name": "fx", "site": "RENC", "kw": []},
        {"op": "add_node", "name": "fx", "site": "RENC", "ntype": "VM", "kw": []},
        {"op": "add_facility", "name": "n1", "site": "RENC", "kw": []}]))
    out.append(("multisite-type", "exp", base + [{"op": "add_service", "name": "ms", "nstype": "L2Multisite", "ifs": ["h3", "h6"], "kw": []}]))
    out.append(("all-ops", "sub", c09.base_ops("sub") + [
        {"op": "add_switch", "name": "sw1", "nid": "swid", "site": "RENC", "nports": 2},
        {"op": "add_facility", "name": "fac", "nid": "facid", "site": "RENC", "ifs": [["fi0", ["lab", {"vlan": "100"}], ["cap", {"bw": 10}]], ["fi1", ["lab", {"vlan": "101"}], ["cap", {"bw": 10}]]]},
        {"op": "add_link", "name": "l1", "nid": "l1id", "ltype": "L2Path", "ifs": ["h3", "h6"], "kw": []},
        {"op": "remove_link", "name": "l1"}, {"op": "remove_switch", "name": "sw1"}, {"op": "remove_facility", "name": "fac"},
        {"op": "remove_component", "parent": "h0", "name": "nic1"}, {"op": "remove_node", "name": "n2"}]))
    return out


def corpus_cases():
    out = []
    for fn in sorted(glob.glob(os.path.join(CORPUS, "*.json"))):
        with open(fn) as f:
            c = json.load(f)
        out.append((os.path.basename(fn), c["flavour"], c["ops"]))
    return out


def correspondence(ctx, res):
    hs = []
    for name, fl, ops in corpus_cases() + deterministic_cases():
        hs.append(c09.run_history(fl, scripted(ops)))
    n = ctx.scale(24, 110)
    for i in range(n):
        fl = "exp" if i % 4 else "sub"
        hs.append(c09.random_history(ctx, "c07corr/%d" % i, fl, ctx.scale(25, 40), 0.15))
    c09.compare_with_model(hs, res)
    # the views as pure functions of the state, and the verdict of every conjunct of Topo.Inv on every state of the run:
    # the model's (Lean predicate on the model state) against the oracle's (published rules on the implementation's graph)
    hsel = hs[: ctx.scale(45, 150)]
    for lo in range(0, len(hsel), 60):
        lines, want = [], []
        for h in hsel[lo:lo + 60]:
            if not h:
                continue
            lines.append(json.dumps({"op": "reset"}))
            want.append(None)
            for i, st in enumerate(h):
                lines.append(json.dumps({"op": "covered", "call": st["line"]}, sort_keys=True))
                want.append(("covered", st["op"]["op"], None))
                lines.append(T.lean_line(st["line"]))
                want.append(None)
                lines.append(json.dumps({"op": "inv"}))
                want.append(("inv", py_verdicts(st["after"]), {"ops": [x["op"] for x in h[:i + 1]], "flavour": st["line"]["fl"]}))
            lines.append(json.dumps({"op": "views"}))
            ev = expected_views(h[-1]["after"])
            want.append(("views", {k: ev[k] for k in ("nodes", "facilities", "links", "services")}, None))
        rep = LeanDriver("C07").run(lines)
        pending = None
        for w, r in zip(want, rep):
            if w is None:
                continue
            res.evaluations += 1
            j = json.loads(r)
            if w[0] == "covered":
                # the guards of the history theorems, evaluated by the driver in the state before the call
                pending = (w[1], j[1])
                for k in ("coveredS", "coveredD", "coveredN"):
                    res.count("%s:%s:%s" % (k, "yes" if j[1][k] else "no", w[1]))
                continue
            if w[0] == "views":
                res.count("op:views")
                got = {k: sorted(v) for k, v in j[1].items()}
                if got != w[1]:
                    res.disagreements.append({"case": "views", "impl": w[1], "model": got})
            else:
                res.count("op:inv")
                got = {k: j[1][k] for k in w[1]}
                if j[1]["closed"] is not True:
                    got["closed"] = False
                if pending is not None:
                    # an instance of inv_op / invD_op on the executable model: guard and invariant before => invariant after
                    opk, pre = pending
                    for cov, inv in (("coveredS", "invS"), ("coveredD", "invD"), ("coveredN", "invSN")):
                        if pre[cov] and pre[inv]:
                            res.count("theorem-instance:" + inv)
                            if not j[1][inv]:
                                res.disagreements.append({"case": dict(w[2], what="%s held and %s covered the call, but %s fails after it" % (inv, cov, inv)),
                                                          "impl": None, "model": j[1]})
                    pending = None
                for k in w[1]:
                    if not w[1][k]:
                        res.count("inv-false:" + k)
                if got != w[1]:
                    res.disagreements.append({"case": dict(w[2], what="verdict of Topo.Inv differs from the rule oracle's",
                                                           differ=sorted(k for k in w[1] if got[k] != w[1][k])),
                                              "impl": w[1], "model": got})
    res.nontrivial = {x for x in res.nontrivial}
    for h in hs:
        if non_trivial(h):
            res.nontrivial.add(core.sha(canon([s["op"]["op"] for s in h])))


# --------------------------------------------------------------------------
# sub-interfaces (add_child_interface / remove_child_interface are not in the Lean model): oracle only, directly on the API

def child_history(rng, nsteps, record):
    """Build a small slice whose dedicated ports carry sub-interfaces, connect some of them, then remove carriers.
    `record(call, topo)` is called after every building call.  Every choice comes from `rng`; returns the list of calls."""
    import fim.user as f
    topo = T.new_topology("exp")
    calls = []

    def did(call):
        calls.append(call)
        record(list(calls), topo)
    try:
        with T.det_uuids():
            nodes, carriers, kids = [], [], []
            for k in range(2):
                n = topo.add_node(name="n%d" % k, site=rng.choice(T.SITES))
                nodes.append(n)
                did(["add_node", n.name])
                c = n.add_component(name="nic%d" % k, model_type=rng.choice(
                    [f.ComponentModelType.SmartNIC_ConnectX_6, f.ComponentModelType.SmartNIC_ConnectX_5, f.ComponentModelType.FPGA_Xilinx_U280]))
                carriers.append(("comp", n, c))
                did(["add_component", n.name, c.name])
            sw = topo.add_switch(name="sw", site="RENC", nports=2)
            carriers.append(("switch", None, sw))
            did(["add_switch", "sw"])
            vlan = [100]
            for _ in range(nsteps):
                k = rng.choice(["child", "child", "child", "connect", "rm_child", "rm_carrier", "rm_service"])
                try:
                    if k == "child" and carriers:
                        kind, n, c = rng.choice(carriers)
                        port = rng.choice(list(c.interface_list))
                        vlan[0] += 1
                        name = "sub%d" % vlan[0]
                        ch = port.add_child_interface(name=name, labels=f.Labels(vlan=str(vlan[0])))
                        kids.append((port, ch))
                        did(["add_child_interface", c.name, port.name, name])
                    elif k == "connect" and kids:
                        port, ch = rng.choice(kids)
                        sname = "s%d" % len(calls)
                        topo.add_network_service(name=sname, nstype=f.ServiceType.L2Bridge, interfaces=[ch])
                        did(["add_network_service", sname, ch.name])
                    elif k == "rm_child" and kids:
                        port, ch = kids.pop(rng.randrange(len(kids)))
                        port.remove_child_interface(name=ch.name)
                        did(["remove_child_interface", port.name, ch.name])
                    elif k == "rm_carrier" and carriers:
                        kind, n, c = carriers.pop(rng.randrange(len(carriers)))
                        if kind == "switch":
                            topo.remove_switch(name=c.name)
                            did(["remove_switch", c.name])
                        elif rng.random() < 0.5:
                            n.remove_component(name=c.name)
                            did(["remove_component", n.name, c.name])
                        else:
                            topo.remove_node(name=n.name)
                            carriers[:] = [x for x in carriers if x[1] is not n]
                            did(["remove_node", n.name])
                        alive = set()
                        for _, _, cc in carriers:
                            alive.update(i.node_id for i in cc.interface_list)
                        kids[:] = [(p, x) for p, x in kids if p.node_id in alive]
                    elif k == "rm_service" and topo.network_services:
                        cand = [x for x in topo.network_services if x.startswith("s") and not x.startswith("sw")]
                        if cand:
                            sname = rng.choice(sorted(cand))
                            topo.remove_network_service(name=sname)
                            did(["remove_network_service", sname])
                except Exception as e:       # a rejected call: the model must still satisfy the rules
                    did(["rejected:" + k, core.err_kind(e)])
    finally:
        T.drop_topology(topo)
    return calls


def oracle_children(ctx, res, n):
    for i in range(n):
        rng = ctx.sub_rng("c07children/%d" % i)
        seen = set()

        def record(calls, topo, i=i):
            res.evaluations += 1
            res.count("child-op:" + calls[-1][0])
            snap = T.snapshot(topo)
            for rule, cls, detail in check_rules(snap):
                if (rule, cls) in seen:
                    continue
                seen.add((rule, cls))
                res.violation("C07:%s:%s:%s" % (rule, cls, calls[-1][0]), "after %s the model breaks rule '%s' (%s)" % (calls[-1][0], rule, cls),
                              {"children": True, "stream": i, "calls": calls}, observed=detail)
            if any(n[3] == "SubInterface" for n in snap["nodes"]):
                res.nontrivial.add("children:" + core.sha(canon([c[0] for c in calls])))
        child_history(rng, ctx.scale(8, 14), record)


def oracle(ctx, res, budget=None):
    for name, fl, ops in corpus_cases():
        run_and_check(fl, ops, res, "corpus:" + name, views_every=1)
    for name, fl, ops in deterministic_cases():
        run_and_check(fl, ops, res, name, views_every=1)
    n = budget or ctx.scale(30, 200)
    for i in range(n):
        fl = "exp" if i % 4 else "sub"
        rng = ctx.sub_rng("c07oracle/%d" % i)
        names = T.Names(rng)
        run_and_check(fl, lambda sess: T.gen_op(rng, sess, names, 0.15), res, "random", nmax=ctx.scale(25, 40))
    oracle_children(ctx, res, ctx.scale(12, 80) if budget is None else budget // 4)
    res.sample({"oracle": "rules of graph_validation_rules.json (minus the two slice cardinality rules) + containment + name scopes on the "
                          "extracted graph after every call; views vs class listings; mutation through views"})


def search(ctx, res, broken):
    oracle(ctx, res, budget=ctx.scale(500, 3000))


def replay(ctx, payload):
    c = payload["case"]
    r = core.Result()
    if c.get("children"):
        oracle_children(ctx, r, c["stream"] + 1)
        hit = [v for v in r.violations if v["signature"] == payload.get("signature")]
        for v in hit:
            print("  ", v["signature"], v["what"], json.dumps(v.get("observed"))[:600])
        return bool(hit)
    run_and_check(c["flavour"], c["ops"], r, "replay", views_every=1)
    hit = [v for v in r.violations if v["signature"] == payload.get("signature")] or r.violations
    for v in hit:
        print("  ", v["signature"], v["what"], json.dumps(v.get("observed"))[:600])
    return bool(hit)
