"""C07 - every model the topology API builds satisfies the published graph rules; views are exact and read-only."""
import glob
import json
import os
import re

import core
from core import LeanDriver, canon
from gen import rules, viewdict, detachprobe
import lib_topo as T
from props import c09

ID = "C07"
GENERATORS = [rules.generate, viewdict.generate, detachprobe.generate]
LEAN_MODULES = ["FimVerif.Proofs.C07", "FimVerif.Drivers.TopoRun"]
P = "FimVerif.C07."
THEOREMS = [P + t for t in (
    "vocab_covers_enums", "rules_pinned", "wf_empty", "views_exact_nodes", "views_exact_facilities", "views_exact_links",
    "views_exact_services", "views_partition_nodes", "id_guard_any_class", "wf_addGNode", "wf_setEdge", "wf_dropNode",
    "wf_mapNodes", "pw_addEdge", "pw_deleteNode", "pw_updateProps", "pw_mapNodes",
    "inv_empty", "invS_iff", "links_only_interfaces", "inv_op", "invD_op", "inv_history_partial", "invD_history_partial",
    "inv_history_from_empty", "invD_history_from_empty", "invN_op", "invN_history_partial", "invN_history_from_empty",
    "inv_setProps", "inv_unsetProp", "inv_addNode",
    "view_mutators_refused", "view_mutators_complete", "view_lists_immutable", "verdict_not_ok", "view_call_readOnly",
    "views_cannot_modify", "view_stays_exact",
    "invD_xop", "inv_xop", "invN_xop", "invD_call", "inv_call", "invN_call", "history_of_step", "invD_calls_partial", "inv_calls_partial",
    "invN_calls_partial", "invD_calls_from_empty",
    "rename_names_counterexample", "nsAddInterface_names_counterexample", "nsAddInterface_sp_counterexample",
    "addLink_sp_counterexample", "connect_names_counterexample", "setName_names_counterexample", "setType_sp_counterexample", "peer_self_names_counterexample",
    "setPropsNT_eq_setProps", "svcNew_top_name_unused", "addService_name_unused", "addPortMirror_name_unused",
    "nodeAddService_topwide_counterexample", "sweepAll_true", "catalogue_teardown_keeps_invS",
    "teardown_clean_every_catalogue_entry")] + ["FimVerif.Topo." + t for t in (
    "invS_grow", "invD_grow", "invD_dropNode", "invS_mapNodes", "namesOk_mapNodes", "invS_addNode", "invS_nsAddInterface", "invS_addLink",
    "invS_connect", "invS_addComponent", "invS_addStorage", "invS_addService", "invS_nodeAddService", "invD_addService",
    "invD_nodeAddService", "invD_addComponent", "svcLoop_ok", "svcLoop_invD", "catalog_ok", "invS_addFacility", "invS_addSwitch",
    "invD_addFacility", "invD_addSwitch", "addFacility_shape", "addSwitch_shape", "namesCore_attach", "namesCore_grow_cp_link",
    "namesCore_pushNode", "kids_sub_childrenOf", "sibling_free", "invSN_addComponent", "invSN_addFacility", "invSN_connect",
    "invSN_addService", "invSN_nodeAddService", "svcLoop_okP", "svcNew_ok_invP", "connect_grow_spec",
    "inv_addChildInterface", "preserves_removeChildInterface", "preserves_unpeer", "preserves_prune", "svcNew_rou", "addService_rou",
    "nodeAddService_rou", "addFacility_rou", "addSwitch_rou", "invD_addPortMirror", "invS_addPortMirror", "invSN_addPortMirror",
    "handleOk_of_childrenOf", "inv_addComponentMT", "inv_addComponent_anyHandle", "inv_addStorage_anyHandle", "peer_ok_state", "invS_peerState",
    "invD_peerState", "namesCore_peerState", "peer_inv", "invS_peer", "invD_peer", "invSN_peer")]
TRUSTED_BASE = [
    "Model/Topo.lean (hand-mirrored topology API, both alphabets TopoOp / XOp, see C09), Model/TopoExt.lean (set_property with the keywords "
    "name / type), Model/TopoView.lean (a view object and the calls on it) - checked differentially call by call",
    "Topo.Inv (Proofs/Lemmas/TopoInv.lean) is the reading of the statement's conjuncts on the model state; edges are read container-first "
    "(the order in which every building call passes the two ends) - tied to the published rules by evaluating every conjunct on every "
    "state of the correspondence run in the Lean driver and comparing the verdicts with the rule oracle's on the implementation's graph",
    "gen/rules.py: regexes that read the vocabularies out of graph_validation_rules.json and pin the list of rule kinds; enum members by import",
    "gen/viewdict.py: ast reading of class ViewOnlyDict (one base, defined methods, __init__ shape) + behaviour probe of every in-place "
    "method of dict on an instance and of the sequence type of every interface_list",
    "gen/detachprobe.py: behaviour probe only (no source text) - every catalogue entry under every name attached, connected (port / "
    "sub-interface / port mirror) and removed through remove_component / remove_storage / remove_node / prune on a 2-node experiment "
    "topology; `clean` is the probe's own reading of 'nothing of the component left, every ServicePort one peer'",
    "the Python transliteration of the 11 non-cardinality rules + containment/name-scope rules in props/c07.py (the oracle); the scope "
    "'NetworkService-topology-wide' (a topology-level service shares its name with no other service, owned ones included) is the oracle's and "
    "TopSvcWide's reading of what Topology.network_services / remove_network_service(name) need - it is not a conjunct of Topo.Inv",
    "post-state / atomicity lemmas of the C09 development (Proofs/Lemmas/TopoAtomic*.lean: ifaceNew_cases, linkNew_cases, connect_spec, "
    "svcNew_atomic, addFacility_fs, addSwitch_fs, peer_fs) - proved, imported read-only",
]
ASSUMPTIONS = [
    "both in-memory NetworkX backends (the default shared store and, for about half of every history stream and every scripted "
    "history, the one-graph-per-model store selected with importer=NetworkXGraphImporterDisjoint(); the model is the same - the store "
    "must not show), single thread, ASCII names; uuid4 freshness (guards FreshTwo / FreshFromC / PeerGuard in CoveredS / CoveredD)",
    "the two cardinality rules (L2PTP/L2Path connect two, PortMirror connects one) constrain finished slices (C10) and are not demanded after every call",
    "PARTIAL: (1) the downward-closed invariant InvD (ids distinct, no dangling edge, vocabularies, containment structure, AT MOST one "
    "owner / parent / peer) is proved for every history over ALL 30 building calls of both alphabets (invD_calls_partial), any state, any "
    "outcome, under decidable guards on the ARGUMENTS only (types from the API enums, service / interface / port handles refer to "
    "elements of their class, fresh uuids, no ServicePort handed to add_link/connect); (2) InvS (EXACTLY one owner / parent / peer) is "
    "proved for every history of the creating and property calls of both alphabets (inv_calls_partial: add_node, add_component also "
    "model_type=, add_storage, add_network_service on topology and node, add_port_mirror_service, add_facility, add_switch, add_interface "
    "not of type ServicePort, add_child_interface, add_link, connect_interface, peer, set/unset property, rename) - the former side "
    "condition ReturnsOrUnchanged is now a consequence of the invariant (C09's atomicity theorems); (3) InvS together with four of the "
    "six name scopes (NamesCore) for the same calls except rename (invN_calls_partial); (4) the full Inv with all six name scopes only "
    "for add_node, set/unset property (keywords other than name / type)",
    "NOT proved (oracle + correspondence only): 'exactly one' after the REMOVING calls (remove_*, disconnect, remove_interface, "
    "remove_child_interface, unpeer, prune: that removals leave no orphan is C08's subject; here every rule is evaluated after every "
    "call of histories that interleave additions and removals); the Link and interface-of-a-service name scopes and every name scope "
    "under rename / set_property('name') (broken by the code: known findings with _counterexample theorems); the name scopes under removals",
    "views: the dictionary views are modelled as objects over the four top-level listings; the per-element views (components, interfaces, "
    "network_services, interface_list of nodes / components / services / links / ports) are checked by the oracle only",
]
RULE = ("call histories over both flavours (caller-supplied and generated ids), both in-memory stores and both alphabets, mostly valid calls "
        "with 15% rejected ones plus taken names / taken ids; 35% of the caller-supplied names of creating / renaming calls (and, in the oracle "
        "streams, of set_property(name=)) are drawn from the names the model already holds - any class and scope, library-derived names of owned "
        "services, ports and links included; every call that is not a removal must leave every other element and relationship in place; scripted histories interleaving additions and removals around sub-interfaces, peerings and mirrors; "
        "after every call all rules are evaluated on the graph extracted from the store, every few calls all views (topology and per element) "
        "are compared with the graph and every in-place method of dict / list is tried on them; non-trivial = the history reaches >= 1 "
        "service with >= 1 connected interface; distinct by op-kind sequence hash")

CORPUS = os.path.join(core.CORPUS_DIR, "C07")
CONTAINMENT = {tuple(sorted([a, b])) + (rel,) for a, rel, b in (
    ("NetworkNode", "has", "Component"), ("NetworkNode", "has", "NetworkService"), ("CompositeNode", "has", "Component"),
    ("CompositeNode", "has", "NetworkService"), ("Component", "has", "NetworkService"), ("NetworkService", "connects", "ConnectionPoint"),
    ("ConnectionPoint", "connects", "ConnectionPoint"), ("Link", "connects", "ConnectionPoint"))}
# conjunct of Topo.Inv (Proofs/Lemmas/TopoInv.lean) that a rule of the oracle belongs to
CONJ = {"has-props": "vocab", "class-vocab": "vocab", "type-vocab": "vocab", "ids-distinct": "ids", "component-one-owner": "compOwned",
        "interface-one-parent": "ifaceOwned", "serviceport-one-peer": "spPeer", "link-only-interfaces": "schema", "containment": "schema"}
NAME_CONJ = {"NetworkNode": "nodeNames", "Link": "linkNames", "Component-in-NetworkNode": "compNames",
             "NetworkService-in-NetworkNode": "svcNames", "NetworkService-in-Component": "svcNames",
             "NetworkService-top-level": "topSvcNames", "ConnectionPoint-in-NetworkService": "cpNames"}
CONJUNCTS = ["ids", "closed", "vocab", "schema", "compOwned", "ifaceOwned", "spPeer", "nodeNames", "linkNames", "compNames", "svcNames",
             "topSvcNames", "cpNames"]


def py_verdicts(snap):
    """the oracle's verdict per conjunct of Topo.Inv on a snapshot of the implementation's graph"""
    v = {c: True for c in CONJUNCTS}
    for rule, cls, _ in check_rules(snap):
        if rule == "name-vocab":
            continue                # the name language of a class is not a conjunct of Topo.Inv (the model's calls guard it: validName)
        if rule == "names-unique" and cls not in NAME_CONJ:
            continue                # NetworkService-topology-wide: not a conjunct of Topo.Inv (Lean: TopSvcWide, addService_name_unused)
        v[NAME_CONJ[cls] if rule == "names-unique" else CONJ[rule]] = False
    v["inv"] = all(v.values())
    return v

_VOCAB = None
_NAME_RX = None


def name_rules():
    """class -> NAME_REGEX of its sliver class"""
    global _NAME_RX
    if _NAME_RX is None:
        from fim.slivers.network_node import NodeSliver
        from fim.slivers.attached_components import ComponentSliver
        from fim.slivers.network_service import NetworkServiceSliver
        from fim.slivers.interface_info import InterfaceSliver
        from fim.slivers.network_link import NetworkLinkSliver
        _NAME_RX = {"NetworkNode": NodeSliver.NAME_REGEX, "Component": ComponentSliver.NAME_REGEX, "NetworkService": NetworkServiceSliver.NAME_REGEX,
                    "ConnectionPoint": InterfaceSliver.NAME_REGEX, "Link": NetworkLinkSliver.NAME_REGEX}
    return _NAME_RX


def vocab():
    global _VOCAB
    if _VOCAB is None:
        _VOCAB = rules.read_rules()
    return _VOCAB


# --------------------------------------------------------------------------
# the rules, transliterated, on a canonical snapshot

def check_rules(snap):
    """-> list of (rule, class, detail)"""
    v = vocab()
    out = []
    nodes = snap["nodes"]
    key = lambda n: (n[0], n[1])
    by_id = {}
    for n in nodes:
        by_id.setdefault(n[1], []).append(n)
    adj = {}
    for a, b, rel in snap["edges"]:
        adj.setdefault(tuple(a), []).append((tuple(b), rel))
        adj.setdefault(tuple(b), []).append((tuple(a), rel))
    cls_of = {key(n): n[0] for n in nodes}
    node_of = {key(n): n for n in nodes}
    for n in nodes:
        c, nid, name, typ = n[0], n[1], n[2], n[3]
        if c is None or nid is None or name is None or typ is None:
            out.append(("has-props", str(c), n[:4]))
            continue
        if c not in v["classes"]:
            out.append(("class-vocab", c, n[:4]))
        elif c in v["types"] and typ not in v["types"][c]:
            out.append(("type-vocab", "%s:%s" % (c, typ), n[:4]))
        # "... and name from the allowed vocabularies": the name language of the element's class (NAME_REGEX of its sliver class,
        # what every naming entry point validates against), read from the tree under test
        rx = name_rules().get(c)
        if rx is not None and not re.fullmatch(rx, name):
            out.append(("name-vocab", c, n[:4]))
    for nid, l in by_id.items():
        if len(l) > 1:
            out.append(("ids-distinct", "+".join(sorted(x[0] for x in l)), nid))
    for n in nodes:
        k = key(n)
        nb = adj.get(k, [])
        if n[0] == "Component":
            owners = [x for x, rel in nb if rel == "has" and x[0] in ("NetworkNode", "CompositeNode")]
            if len(owners) != 1:
                out.append(("component-one-owner", "Component", [n[:4], owners]))
        if n[0] == "ConnectionPoint":
            # "each interface [belongs] to exactly one service or parent interface": a sub-interface hangs off its parent
            # interface (the parent's own children are not its parents), anything else off a service
            parents = [x for x, rel in nb if rel == "connects" and x[0] == "NetworkService"]
            if n[3] == "SubInterface":
                parents += [x for x, rel in nb if rel == "connects" and x[0] == "ConnectionPoint"]
            if len(parents) != 1:
                out.append(("interface-one-parent", "ConnectionPoint:" + str(n[3]), [n[:4], parents]))
            if n[3] == "ServicePort":
                peers = []
                for l, rel in nb:
                    if rel == "connects" and l[0] == "Link":
                        peers += [x for x, r2 in adj.get(l, []) if r2 == "connects" and x[0] == "ConnectionPoint" and x != k]
                if len(peers) != 1:
                    out.append(("serviceport-one-peer", "ConnectionPoint:ServicePort", [n[:4], peers]))
        if n[0] == "Link":
            for x, rel in nb:
                if x[0] != "ConnectionPoint":
                    out.append(("link-only-interfaces", x[0], [n[:4], list(x)]))
    # containment structure (what may hang off what)
    for a, b, rel in snap["edges"]:
        pair = tuple(sorted([a[0], b[0]])) + (rel,)
        if pair not in CONTAINMENT and "Link" not in pair[:2]:
            out.append(("containment", "%s-%s-%s" % (a[0], rel, b[0]), [list(a), list(b), rel]))
    # names unique in scope

    def dup(names):
        s, d = set(), set()
        for x in names:
            (d if x in s else s).add(x)
        return sorted(d)
    for c in ("NetworkNode", "Link"):
        d = dup([n[2] for n in nodes if n[0] == c])
        if d:
            out.append(("names-unique", c, d))
    top = []
    for n in nodes:
        k = key(n)
        nb = adj.get(k, [])
        if n[0] == "NetworkService" and not [x for x, rel in nb if rel == "has"]:
            top.append(n[2])
        if n[0] in ("NetworkNode", "Component"):
            for cc in ("Component", "NetworkService"):
                d = dup([node_of[x][2] for x, rel in nb if rel == "has" and x[0] == cc and x in node_of and
                         (cc != "Component" or n[0] == "NetworkNode")])
                if d and not (n[0] == "Component" and cc == "Component"):
                    out.append(("names-unique", cc + "-in-" + n[0], d))
        if n[0] == "NetworkService":
            d = dup([node_of[x][2] for x, rel in nb if rel == "connects" and x[0] == "ConnectionPoint" and x in node_of])
            if d:
                out.append(("names-unique", "ConnectionPoint-in-NetworkService", d))
    d = dup(top)
    if d:
        out.append(("names-unique", "NetworkService-top-level", d))
    # a topology-level service is addressed by its name among ALL services of the topology (the network_services view is keyed by
    # name over every service, remove_network_service(name) looks the name up over every service, and add_network_service refuses a
    # name any service carries): its name is not the name of an owned service either
    owned = {n[2] for n in nodes if n[0] == "NetworkService"
             and [x for x, rel in adj.get(key(n), []) if rel == "has"]}
    w = sorted(set(top) & owned)
    if w:
        out.append(("names-unique", "NetworkService-topology-wide", w))
    return out


def expected_views(snap):
    nodes = snap["nodes"]
    adj = {}
    for a, b, rel in snap["edges"]:
        adj.setdefault(tuple(a), []).append((tuple(b), rel))
        adj.setdefault(tuple(b), []).append((tuple(a), rel))
    ev = {"nodes": sorted(n[2] for n in nodes if n[0] == "NetworkNode" and n[3] != "Facility"),
          "facilities": sorted(n[2] for n in nodes if n[0] == "NetworkNode" and n[3] == "Facility"),
          "links": sorted(n[2] for n in nodes if n[0] == "Link"),
          "services": sorted(n[2] for n in nodes if n[0] == "NetworkService")}
    ifs = []
    for n in nodes:
        if n[0] == "NetworkNode" and n[3] != "Facility":
            k = (n[0], n[1])
            holders = [k] + [x for x, rel in adj.get(k, []) if rel == "has" and x[0] == "Component"]
            for h in holders:
                for ns, rel in adj.get(h, []):
                    if rel == "has" and ns[0] == "NetworkService":
                        ifs += [x[1] for x, r2 in adj.get(ns, []) if x[0] == "ConnectionPoint" and x != h]
    ev["interface_list"] = sorted(ifs)
    return ev


def _adj(snap):
    adj = {}
    for a, b, rel in snap["edges"]:
        adj.setdefault(tuple(a), []).append((tuple(b), rel))
        adj.setdefault(tuple(b), []).append((tuple(a), rel))
    return adj


def expected_element_views(snap):
    """per element, what its views must list (node ids), read off the snapshot alone"""
    adj = _adj(snap)
    ev = {}

    def nb(k, rel, cls):
        return [x for x, r in adj.get(k, []) if (rel is None or r == rel) and x[0] == cls]

    def direct(k):
        out = []
        for ns in nb(k, "has", "NetworkService"):
            out += [x[1] for x in nb(ns, None, "ConnectionPoint") if x != k]
        return out
    for n in snap["nodes"]:
        k = (n[0], n[1])
        if n[0] == "NetworkNode":
            comps = nb(k, "has", "Component")
            ev["node:%s:components" % n[1]] = sorted(x[1] for x in comps)
            ev["node:%s:network_services" % n[1]] = sorted(x[1] for x in nb(k, "has", "NetworkService"))
            ev["node:%s:direct_interfaces" % n[1]] = sorted(direct(k))
            ev["node:%s:interface_list" % n[1]] = sorted(direct(k) + [i for c in comps for i in direct(c)])
        elif n[0] == "Component":
            ev["comp:%s:interface_list" % n[1]] = sorted(direct(k))
            ev["comp:%s:network_services" % n[1]] = sorted(x[1] for x in nb(k, "has", "NetworkService"))
        elif n[0] == "NetworkService":
            ev["svc:%s:interface_list" % n[1]] = sorted(x[1] for x in nb(k, "connects", "ConnectionPoint"))
        elif n[0] == "Link":
            ev["link:%s:interface_list" % n[1]] = sorted(x[1] for x in nb(k, "connects", "ConnectionPoint"))
        elif n[0] == "ConnectionPoint" and n[3] == "DedicatedPort":
            ev["port:%s:interface_list" % n[1]] = sorted(x[1] for x in nb(k, "connects", "ConnectionPoint"))
    return ev


def element_views(t):
    """the same through the API, every handle looked up afresh; -> (ids per view, per view a function reading it again)"""
    got, objs = {}, {}
    ids = lambda seq: sorted(x.node_id for x in seq)

    def view(key, read, record=True):
        if record:
            v = read()
            got[key] = ids(v.values() if hasattr(v, "values") else (v or []))
        objs[key] = read
    ports = {}
    for n in list(t.nodes.values()) + list((t.facilities or {}).values()):
        view("node:%s:components" % n.node_id, lambda n=n: n.components)
        view("node:%s:network_services" % n.node_id, lambda n=n: n.network_services)
        view("node:%s:direct_interfaces" % n.node_id, lambda n=n: n.direct_interfaces)
        view("node:%s:interface_list" % n.node_id, lambda n=n: n.interface_list)
        view("node:%s:interfaces" % n.node_id, lambda n=n: n.interfaces, record=False)
        for i in n.interface_list:
            ports[i.node_id] = i
        for c in n.components.values():
            view("comp:%s:interface_list" % c.node_id, lambda c=c: c.interface_list)
            view("comp:%s:interfaces" % c.node_id, lambda c=c: c.interfaces, record=False)
            view("comp:%s:network_services" % c.node_id, lambda c=c: c.network_services)
    for sv in t.network_services.values():
        view("svc:%s:interface_list" % sv.node_id, lambda sv=sv: sv.interface_list)
        view("svc:%s:interfaces" % sv.node_id, lambda sv=sv: sv.interfaces, record=False)
    for ln in t.links.values():
        view("link:%s:interface_list" % ln.node_id, lambda ln=ln: ln.interface_list)
    for pid, port in ports.items():
        if str(port.type) == "DedicatedPort":
            view("port:%s:interface_list" % pid, lambda port=port: port.interface_list)
            view("port:%s:interfaces" % pid, lambda port=port: port.interfaces, record=False)
    return got, objs


def _exec(src, **env):
    exec(src, {}, env)


# every way a dict / a list can be changed in place; `k` = a key (index) that is there when the view is not empty
DICT_MUTATORS = [
    ("__setitem__", lambda v, k: v.__setitem__("zz", 1)), ("item-assignment", lambda v, k: _exec("v['zz'] = 1", v=v)),
    ("__delitem__", lambda v, k: v.__delitem__(k)), ("del-item", lambda v, k: _exec("del v[k]", v=v, k=k)),
    ("pop", lambda v, k: v.pop(k)), ("popitem", lambda v, k: v.popitem()), ("clear", lambda v, k: v.clear()),
    ("update", lambda v, k: v.update({"zz": 1})), ("setdefault", lambda v, k: v.setdefault("zz", 1)),
    ("__ior__", lambda v, k: v.__ior__({"zz": 1})), ("|=", lambda v, k: _exec("v |= {'zz': 1}", v=v)),
]
LIST_MUTATORS = [
    ("append", lambda l: l.append(None)), ("extend", lambda l: l.extend([None])), ("insert", lambda l: l.insert(0, None)),
    ("item-assignment", lambda l: _exec("l[0] = None", l=l)), ("del-item", lambda l: _exec("del l[0]", l=l)), ("pop", lambda l: l.pop()),
    ("remove", lambda l: l.remove(l[0])), ("clear", lambda l: l.clear()), ("+=", lambda l: _exec("l += [None]", l=l)),
    ("sort", lambda l: l.sort(key=id)), ("reverse", lambda l: l.reverse()),
]


def view_kind(key):
    return key.split(":")[0] + "." + key.split(":")[-1] if ":" in key else key


def try_mutations(view_key, v, refresh, res, case):
    """every in-place mutator on a view object: a dictionary view must refuse it; a list view must refuse it (a tuple cannot be
    changed at all) or be a copy whose change shows nowhere.  `refresh()` reads the same view afresh."""
    vk = view_kind(view_key)
    if v is None:
        return
    if hasattr(v, "keys"):
        before = sorted(v.keys())
        for an, f in DICT_MUTATORS:
            k = before[0] if before else "zz"
            try:
                f(v, k)
                raised = False
            except Exception:
                raised = True
            res.evaluations += 1
            res.count("view-mutator:%s:%s" % ("refused" if raised else "ACCEPTED", an))
            now = sorted(v.keys())
            if not raised or now != before:
                res.violation("C07:views:mutable:%s:%s" % (vk, an), "mutation through view %s via %s did not raise or changed something" % (vk, an),
                              case, expected={"raises": True, "keys": before}, observed={"raised": raised, "keys": now})
                return
        if sorted(refresh().keys()) != before:
            res.violation("C07:views:mutable:%s:any" % vk, "after the refused mutations view %s reads differently" % vk, case)
    else:
        ids = lambda seq: [getattr(x, "node_id", None) for x in seq]
        before = ids(v)
        for an, f in LIST_MUTATORS:
            w = v if isinstance(v, tuple) else refresh()
            try:
                f(w)
                raised = False
            except Exception:
                raised = True
            res.evaluations += 1
            res.count("list-mutator:%s:%s:%s" % (type(w).__name__, "refused" if raised else "copy-changed", an))
            if isinstance(v, tuple) and (not raised or ids(v) != before):
                res.violation("C07:views:mutable:%s:%s" % (vk, an), "the tuple returned by %s accepted %s" % (vk, an), case)
                return
            if not isinstance(v, tuple) and ids(refresh()) != before:
                res.violation("C07:views:mutable:%s:%s" % (vk, an), "changing the list returned by %s via %s shows in the next read of the view" % (vk, an),
                              case, expected=before, observed=ids(refresh()))
                return


VIEW_KINDS = ("nodes", "facilities", "links", "services")


def view_call_list(k0):
    return [["len", ""], ["keys", ""], ["contains", k0], ["contains", "zz-none"], ["getitem", k0], ["getitem", "zz-none"], ["get", k0]] + \
        [[m, k0] for m, _ in DICT_MUTATORS] + [["keys", ""], ["len", ""]]


def py_view_calls(t):
    """the calls of view_call_list on one view object of each kind: per call [outcome, sorted keys of the view afterwards]"""
    out = {}
    mut = dict(DICT_MUTATORS)
    with T.det_uuids():
        for kind in VIEW_KINDS:
            v = {"nodes": t.nodes, "facilities": t.facilities, "links": t.links, "services": t.network_services}[kind]
            if v is None:
                continue
            k0 = sorted(v.keys())[0] if len(v) else "zz-none"
            rows = []
            for c, k in view_call_list(k0):
                try:
                    if c == "len":
                        r = len(v)
                    elif c == "keys":
                        r = sorted(v.keys())
                    elif c == "contains":
                        r = k in v
                    elif c == "getitem":
                        v[k]
                        r = True
                    elif c == "get":
                        r = v.get(k) is not None
                    else:
                        mut[c](v, k)
                        r = None
                    o = ["ok", r]
                except Exception as e:
                    o = ["err", core.err_kind(e)]
                rows.append([o, sorted(v.keys())])
            out[kind] = [k0, rows]
    return out


def check_views(sess, snap, res, case, opname, elements=True):
    t = sess.topo
    ev = expected_views(snap)
    names_dup = len(set(ev["nodes"])) != len(ev["nodes"]) or len(set(ev["links"])) != len(ev["links"]) or \
        len(set(ev["services"])) != len(ev["services"]) or len(set(ev["facilities"])) != len(ev["facilities"])
    try:
        with T.det_uuids():
            got = {"nodes": sorted(t.nodes.keys()), "facilities": sorted((t.facilities or {}).keys()),
                   "links": sorted(t.links.keys()), "services": sorted(t.network_services.keys()),
                   "interface_list": sorted(i.node_id for i in t.interface_list)}
            egot, eobjs = element_views(t) if elements and not names_dup else ({}, {})
    except Exception as e:
        res.violation("C07:views:raise:%s:%s" % (core.err_kind(e), opname), "a read-only view raised %s after %s" % (type(e).__name__, opname), case,
                      observed=str(e)[:300])
        return
    if names_dup:
        return      # a name-keyed dictionary cannot list two elements of one name: reported by names-unique
    for k in ev:
        if ev[k] != got[k]:
            res.violation("C07:views:%s:%s" % (k, opname), "view %s does not list exactly the elements in the model" % k, case,
                          expected=ev[k], observed=got[k])
    if egot:
        eev = expected_element_views(snap)
        name_of = {n[1]: n[2] for n in snap["nodes"]}
        for k in sorted(egot):
            res.evaluations += 1
            res.count("element-view:" + view_kind(k))
            want = eev.get(k)
            if want is not None and not k.endswith("_list"):
                # a name-keyed dictionary shows one element per name (same-named interfaces of two services of a node: known
                # finding of the name scopes) - it must list elements of the model only, and all of them when the names differ
                nm = [name_of.get(x) for x in want]
                if len(set(nm)) != len(nm):
                    if set(egot[k]) <= set(want) and len(egot[k]) == len(set(nm)):
                        continue
            if want != egot[k]:
                res.violation("C07:views:%s:%s" % (view_kind(k), opname), "view %s does not list exactly the elements in the model" % view_kind(k),
                              dict(case, view=k), expected=want, observed=egot[k])
                break
        # every element that hangs off a node / component / service / link of the model is reached by the views
        for k in sorted(set(eev) - set(egot)):
            if not k.startswith("port:"):      # a dedicated port created on a top-level service is in no node's interface list
                res.violation("C07:views:%s:%s" % (view_kind(k), opname), "no view shows %s" % view_kind(k), dict(case, view=k),
                              expected=eev[k], observed=None)
                break
    # the dictionary protocol of a view agrees with itself (len / iter / in / get / items / values / ==)
    with T.det_uuids():
        for vn, v in (("nodes", t.nodes), ("links", t.links), ("services", t.network_services), ("facilities", t.facilities)):
            if v is None:
                continue
            ks = list(v)
            okp = len(v) == len(ks) == len(list(v.items())) == len(list(v.values())) and all(k in v and v.get(k) is v[k] for k in ks) and \
                "zz-not-there" not in v and v.get("zz-not-there") is None and list(v.keys()) == ks
            if not okp:
                res.violation("C07:views:protocol:%s" % vn, "the reading methods of view %s disagree with each other" % vn, case)
        # mutation through a view must raise and change nothing
        views = {"nodes": (t.nodes, lambda: t.nodes), "links": (t.links, lambda: t.links), "services": (t.network_services, lambda: t.network_services),
                 "facilities": (t.facilities, lambda: t.facilities), "interface_list": (t.interface_list, lambda: t.interface_list)}
        for vn, (v, refresh) in views.items():
            try_mutations(vn, v, refresh, res, case)
        seen_kinds = set()
        for k in sorted(eobjs):
            if view_kind(k) in seen_kinds:
                continue            # one view object of each kind per check
            seen_kinds.add(view_kind(k))
            try_mutations(k, eobjs[k](), eobjs[k], res, case)
    after = T.snapshot(t)
    if after != snap:
        res.violation("C07:views:model-changed:%s" % opname, "reading / trying to change the views changed the model", case,
                      observed=T.snap_diff(snap, after))


def non_trivial(steps):
    for st in steps:
        for n in st["after"]["nodes"]:
            if n[0] == "ConnectionPoint" and n[3] == "ServicePort":
                return True
    return False


def scripted(ops):
    """ops list -> callable for run_history; the pseudo-op {"op": "_harvest", "h": key} picks up the interface handles of
    a service / node handle (fresh lookups through the API, as a caller would) and is not a building call"""
    it = iter(list(ops))

    def nxt(sess):
        for op in it:
            if op["op"] == "_harvest":
                sess.harvest(op["h"])
                continue
            return op
        return None
    return nxt


def run_and_check(fl, ops_or_gen, res, label, nmax=None, views_every=3, elements_every=2):
    ops_done = []
    cnt = [0]
    last = [None]
    script = None if callable(ops_or_gen) else list(ops_or_gen)
    if script is not None:
        ops_or_gen = scripted(script)

    def on_step(sess, st):
        ops_done.append(st["op"])
        res.evaluations += 1
        res.count("op:" + st["op"]["op"])
        case = {"flavour": fl, "ops": list(ops_done) if script is None else script[:script.index(st["op"]) + 1], "label": label}
        res.count("backend:" + ("disjoint" if fl.endswith("+d") else "shared"))
        if "collide" in st["op"]:
            res.count("collide:%s:%s:%s" % (st["op"]["collide"], st["op"]["op"], st["outcome"][0] if st["outcome"][0] == "ok" else st["outcome"][1]))
        lost = lost_elements(st)
        if lost:
            # the model holds exactly what the calls built: a call that adds / changes one element leaves every other one in place
            res.violation("C07:lost-element:%s:%s" % (lost[0][0] if isinstance(lost[0][0], str) else "edge", st["op"]["op"]),
                          "after %s an element that was added and never removed is no longer in the model" % st["op"]["op"], case,
                          expected="every element and relationship of the model before the call", observed=lost[:6])
        if last[0] is None or last[0][0] is not st["before"] and last[0][0] != st["before"]:
            last[0] = (st["before"], check_rules(st["before"]))
        before = {(r, c) for r, c, _ in last[0][1]}
        broken_now = check_rules(st["after"])
        last[0] = (st["after"], broken_now)
        for rule, cls, detail in broken_now:
            if (rule, cls) in before:
                continue            # report a breach at the call that introduced it
            res.violation("C07:%s:%s:%s" % (rule, cls, st["op"]["op"]), "after %s the model breaks rule '%s' (%s)" % (st["op"]["op"], rule, cls),
                          case, observed=detail)
        cnt[0] += 1
        if cnt[0] % views_every == 0 and not broken_now:
            check_views(sess, st["after"], res, case, st["op"]["op"], elements=(cnt[0] // views_every) % elements_every == 0)
    steps = c09.run_history(fl, ops_or_gen, on_step=on_step, nmax=nmax)
    if non_trivial(steps):
        res.nontrivial.add(core.sha(canon([s["op"]["op"] for s in steps])))
    return steps


def stream_flavour(i):
    """flavour of the i-th random history: substrate every fourth, and half of each on the one-graph-per-model store ('+d')"""
    return ("exp" if i % 4 else "sub") + ("+d" if (i % 4 in (1, 2) or i % 8 == 0) else "")


REMOVING = ("remove", "node_remove", "ns_remove", "disconnect", "unpeer", "prune")


def lost_elements(st):
    """elements / relationships of the model before a call that is not a removing one and that returned, which are gone after it"""
    if st["outcome"][0] != "ok" or st["op"]["op"].startswith(REMOVING):
        return []
    an = {(n[0], n[1]) for n in st["after"]["nodes"]}
    ae = {json.dumps(e) for e in st["after"]["edges"]}
    return [list(n[:4]) for n in st["before"]["nodes"] if (n[0], n[1]) not in an] + \
        [e for e in st["before"]["edges"] if json.dumps(e) not in ae]


def history_gen(rng, fault, ext, set_name=False):
    """op generator for run_history: lib_topo's menu (with the second alphabet when `ext`), plus - with small probability -
    the adversarial variants the shared generator never draws: a name that is already taken by a sibling (rename excepted:
    known finding), an id that is already in the model, a removal right after the creation"""
    names = T.Names(rng)
    last_created = [None]

    def nxt(sess):
        op = T.gen_op(rng, sess, names, fault, ext=ext)
        r = rng.random()
        k = op["op"]
        if r < 0.10 and k in ("add_node", "add_facility", "add_switch"):
            taken = [h.obj.name for h in sess.of_kind("node") if sess.alive(h)]
            if taken:
                op = dict(op, name=rng.choice(taken), fault="c07:taken-name")
        elif r < 0.10 and k in ("add_component", "add_storage", "add_component_mt") and op.get("parent") in sess.handles:
            try:
                taken = list(sess.handles[op["parent"]].obj.components.keys())
            except Exception:
                taken = []
            if taken:
                op = dict(op, name=rng.choice(taken), fault="c07:taken-name")
        elif r < 0.10 and k in ("add_service", "add_port_mirror"):
            taken = [h.obj.name for h in sess.of_kind("svc") if sess.alive(h) and T._is_top(sess, h)]
            if taken:
                op = dict(op, name=rng.choice(taken), fault="c07:taken-name")
        elif r < 0.10 and k == "add_link":
            taken = [h.obj.name for h in sess.of_kind("link") if sess.alive(h)]
            if taken:
                op = dict(op, name=rng.choice(taken), fault="c07:taken-name")
        elif r < 0.08 and op.get("nid") is not None and k.startswith("add"):
            ids = [h.obj.node_id for h in sess.handles.values() if sess.alive(h)]
            if ids:
                op = dict(op, nid=rng.choice(ids), fault="c07:taken-id")
        # caller-supplied names / ids drawn from what the model already holds, ANY class and scope (names the library derived
        # for owned services, ports and links included): the guards of one call against the elements other calls created
        return T.collide(rng, sess, op, p_name=0.35, p_id=0.05, set_name=set_name)
    return nxt


def deterministic_cases():
    base = c09.base_ops("exp")
    out = []
    out.append(("remove_link-of-connection", "exp", base + [
        {"op": "add_service", "name": "s1", "nstype": "L2Bridge", "ifs": ["h3"], "kw": []},
        {"op": "remove_link", "name": "n1-nic1-p1-link"}]))
    out.append(("add_interface-same-name-twice", "exp", base + [
        {"op": "add_service", "name": "s1", "nstype": "L2Bridge", "ifs": [], "kw": []},
        {"op": "ns_add_interface", "svc": "h10", "name": "ii", "itype": "TrunkPort", "kw": []},
        {"op": "ns_add_interface", "svc": "h10", "name": "ii", "itype": "TrunkPort", "kw": []}]))
    out.append(("rename-to-existing", "exp", base + [{"op": "rename", "h": "h1", "name": "n1"}]))
    out.append(("facility-dup-iface-names", "exp", base + [
        {"op": "add_facility", "name": "fac", "site": "RENC", "ifs": [["fi", ["lab", {"vlan": "100"}], ["cap", {"bw": 10}]], ["fi", ["lab", {"vlan": "101"}], ["cap", {"bw": 10}]]]}]))
    out.append(("add_link-on-service-port", "exp", base + [
        {"op": "add_service", "name": "s1", "nstype": "L2Bridge", "ifs": ["h3"], "kw": []},        # h10
        {"op": "_harvest", "h": "h10"},                                                           # h11 = the ServicePort
        {"op": "add_link", "name": "lx", "ltype": "L2Path", "ifs": ["h11", "h6"], "kw": []}]))
    out.append(("add_interface-service-port", "exp", base + [
        {"op": "add_service", "name": "s1", "nstype": "L2Bridge", "ifs": [], "kw": []},
        {"op": "ns_add_interface", "svc": "h10", "name": "spx", "itype": "ServicePort", "kw": []}]))
    out.append(("add_interface-sub-interface-type", "exp", base + [
        {"op": "add_service", "name": "s1", "nstype": "L2Bridge", "ifs": [], "kw": []},
        {"op": "ns_add_interface", "svc": "h10", "name": "subx", "itype": "SubInterface", "kw": []}]))
    out.append(("connect-same-derived-name", "exp", base + [
        {"op": "node_add_service", "parent": "h0", "name": "nsa", "nstype": "OVS", "kw": []},     # h10
        {"op": "node_add_service", "parent": "h0", "name": "nsb", "nstype": "OVS", "kw": []},     # h11
        {"op": "ns_add_interface", "svc": "h10", "name": "ii", "itype": "TrunkPort", "kw": []},   # h12
        {"op": "ns_add_interface", "svc": "h11", "name": "ii", "itype": "TrunkPort", "kw": []},   # h13
        {"op": "add_service", "name": "s1", "nstype": "L2Bridge", "ifs": ["h12"], "kw": []},       # h14
        {"op": "connect", "svc": "h14", "if": "h13"}]))
    out.append(("add_service-same-derived-name", "exp", base + [
        {"op": "node_add_service", "parent": "h0", "name": "nsa", "nstype": "OVS", "kw": []},     # h10
        {"op": "node_add_service", "parent": "h0", "name": "nsb", "nstype": "OVS", "kw": []},     # h11
        {"op": "ns_add_interface", "svc": "h10", "name": "ii", "itype": "TrunkPort", "kw": []},   # h12
        {"op": "ns_add_interface", "svc": "h11", "name": "ii", "itype": "TrunkPort", "kw": []},   # h13
        {"op": "add_service", "name": "s1", "nstype": "L2Bridge", "ifs": ["h12", "h13"], "kw": []}]))
    out.append(("rename-then-read-the-views", "exp", base + [
        {"op": "rename", "h": "h1", "name": "nx"}, {"op": "rename", "h": "h2", "name": "cx"}, {"op": "rename", "h": "h1", "name": "ny"},
        {"op": "set_props", "h": "h0", "kw": [["capacities", ["cap", {"core": 2, "ram": 8}]]]}]))
    out.append(("peer-with-itself", "exp", base + [
        {"op": "add_service", "name": "s1", "nstype": "L3VPN", "ifs": [], "kw": []},              # h10
        {"op": "_fresh", "kind": "svc", "name": "s1"},                                            # h11: a second handle on the service
        {"op": "peer", "svc": "h10", "other": "h11", "kw": []}]))             # (one handle object would alias the two handle caches)
    out.append(("node-named-like-facility", "exp", base + [
        {"op": "add_facility", "name": "fx", "site": "RENC", "kw": []},
        {"op": "add_node", "name": "fx", "site": "RENC", "ntype": "VM", "kw": []},
        {"op": "add_facility", "name": "n1", "site": "RENC", "kw": []}]))
    out.append(("multisite-type", "exp", base + [{"op": "add_service", "name": "ms", "nstype": "L2Multisite", "ifs": ["h3", "h6"], "kw": []}]))
    # rename to the name of a sibling, on every kind of element and in every scope (no guard at all: known findings), and the
    # one-sided guard between topology-level and owned services: a topology-level service is refused the name of ANY service, but
    # an owned service (explicitly named, or named by the library: '<switch>-ns', '<facility>-ns', '<node>-<component>-l2ovs') is
    # only checked against the services of its owner
    for tag, h, nm in (("link", "h13", "l1"), ("component", "h8", "nic1"), ("node-service", "h15", "nsa"), ("top-service", "h11", "s1"),
                       ("interface", "h17", "ia"), ("top-service-to-owned-name", "h11", "n1-nic1-l2ovs")):
        out.append(("rename-to-taken/" + tag, "exp", named_pre() + [
            {"op": "ns_add_interface", "svc": "h14", "name": "ia", "itype": "TrunkPort", "kw": []},          # h16
            {"op": "ns_add_interface", "svc": "h14", "name": "ib", "itype": "TrunkPort", "kw": []},          # h17
            {"op": "rename", "h": h, "name": nm}]))
    # rename to a name the element's class does not allow (too short, empty, too long, a character outside the class's set, a
    # trailing newline) on every kind of element: refused, nothing changes, the views still read
    for tag, h in (("node", "h1"), ("component", "h8"), ("top-service", "h11"), ("node-service", "h15"), ("interface", "h3"), ("link", "h13")):
        bad = ["", "x" if tag != "interface" else "a#b", "a!b" if tag != "interface" else "a;b", "ab\n", "n" * 256,
               {"node": "a b", "component": "a/b", "top-service": "a:b", "node-service": "a b", "interface": "a,b", "link": "a,b"}[tag]]
        out.append(("rename-invalid/" + tag, "exp", named_pre() + [{"op": "rename", "h": h, "name": b_} for b_ in bad] +
                    [{"op": "rename", "h": h, "name": "fine-1"}]))
    top = lambda n: {"op": "add_service", "name": n, "nstype": "L2Bridge", "ifs": [], "kw": []}
    out.append(("owned-service-named-like-top-level/node_add_service", "exp", base + [
        top("nsx"), {"op": "node_add_service", "parent": "h0", "name": "nsx", "nstype": "OVS", "kw": []}]))
    out.append(("owned-service-named-like-top-level/add_switch", "exp", base + [
        top("sw9-ns"), {"op": "add_switch", "name": "sw9", "site": "RENC", "nports": 1}]))
    out.append(("owned-service-named-like-top-level/add_facility", "exp", base + [
        top("fac9-ns"), {"op": "add_facility", "name": "fac9", "site": "RENC", "kw": []}]))
    out.append(("owned-service-named-like-top-level/add_component", "exp", base + [
        top("n2-nicz-l2ovs"), {"op": "add_component", "parent": "h1", "name": "nicz", "ctype": "SmartNIC", "model": "ConnectX-6", "kw": []}]))
    out.append(("owned-service-named-like-top-level/add_component_mt", "exp", base + [
        top("n2-nicz-l2ovs"), {"op": "add_component_mt", "parent": "h1", "name": "nicz", "model_type": "SmartNIC_ConnectX_6", "kw": []}]))
    # names the library will DERIVE later (link '<node>-<port>-link' / ServicePort '<node>-<port>' of a connection, '<a>-<b>-link' of a
    # peering) given by the caller to an earlier element: the deriving call does not look (known findings, one root cause)
    lk = {"op": "add_link", "name": "n1-shnic-p1-link", "ltype": "L2Path", "ifs": ["h4", "h6"], "kw": []}
    out.append(("derived-name-taken/link/add_service", "exp", base + [lk, {"op": "add_service", "name": "s1", "nstype": "L2Bridge", "ifs": ["h9"], "kw": []}]))
    out.append(("derived-name-taken/link/connect", "exp", base + [lk, top("s1"), {"op": "connect", "svc": "h11", "if": "h9"}]))
    out.append(("derived-name-taken/port/connect", "exp", base + [
        top("s1"), {"op": "ns_add_interface", "svc": "h10", "name": "n1-shnic-p1", "itype": "TrunkPort", "kw": []}, {"op": "connect", "svc": "h10", "if": "h9"}]))
    out.append(("derived-name-taken/link/peer", "exp", base + [
        dict(lk, name="sa-sb-link"), {"op": "add_service", "name": "sa", "nstype": "L3VPN", "ifs": [], "kw": []},
        {"op": "add_service", "name": "sb", "nstype": "L3VPN", "ifs": [], "kw": []}, {"op": "peer", "svc": "h11", "other": "h12", "kw": []}]))
    out.append(("derived-name-taken/link/add_port_mirror", "exp", base + [
        {"op": "node_add_service", "parent": "h0", "name": "nsa", "nstype": "OVS", "kw": []},                    # h10
        {"op": "ns_add_interface", "svc": "h10", "name": "nic1-p1", "itype": "TrunkPort", "kw": []},             # h11
        {"op": "ns_add_interface", "svc": "h10", "name": "nic1-p2", "itype": "TrunkPort", "kw": []},             # h12 (h3 is p1 or p2: the store's order)
        {"op": "add_service", "name": "s1", "nstype": "L2Bridge", "ifs": ["h11", "h12"], "kw": []},              # h13
        {"op": "add_port_mirror", "name": "pm1", "to": "h3", "from_name": "nic2-p1", "from_vlan": None, "direction": "Both", "kw": []}]))
    # ... and the guarded direction: the name of an owned service (derived or given) for a topology-level service is refused
    out.append(("top-level-service-named-like-owned", "exp", named_pre() + [
        {"op": "add_switch", "name": "sw9", "site": "RENC", "nports": 1},
        top("sw9-ns"), top("n1-nic1-l2ovs"), top("nsa"), top("s1"),
        {"op": "add_port_mirror", "name": "n1-shnic-l2ovs", "to": "h9", "from_name": "nic2-p1", "from_vlan": None, "direction": "Both", "kw": []}]))
    out.append(("all-ops", "sub", c09.base_ops("sub") + [
        {"op": "add_switch", "name": "sw1", "nid": "swid", "site": "RENC", "nports": 2},
        {"op": "add_facility", "name": "fac", "nid": "facid", "site": "RENC", "ifs": [["fi0", ["lab", {"vlan": "100"}], ["cap", {"bw": 10}]], ["fi1", ["lab", {"vlan": "101"}], ["cap", {"bw": 10}]]]},
        {"op": "add_link", "name": "l1", "nid": "l1id", "ltype": "L2Path", "ifs": ["h3", "h6"], "kw": []},
        {"op": "remove_link", "name": "l1"}, {"op": "remove_switch", "name": "sw1"}, {"op": "remove_facility", "name": "fac"},
        {"op": "remove_component", "parent": "h0", "name": "nic1"}, {"op": "remove_node", "name": "n2"}]))
    return out


def named_pre():
    """base + two topology-level services (h10 s1 connected to h3, h11 s2), two links (h12 l1, h13 l2), two services of n1 (h14 nsa, h15 nsb)"""
    return c09.base_ops("exp") + [
        {"op": "add_service", "name": "s1", "nstype": "L2Bridge", "ifs": ["h3"], "kw": []},
        {"op": "add_service", "name": "s2", "nstype": "L2Bridge", "ifs": [], "kw": []},
        {"op": "add_link", "name": "l1", "ltype": "L2Path", "ifs": ["h4", "h6"], "kw": []},
        {"op": "add_link", "name": "l2", "ltype": "L2Path", "ifs": ["h7", "h9"], "kw": []},
        {"op": "node_add_service", "parent": "h0", "name": "nsa", "nstype": "OVS", "kw": []},
        {"op": "node_add_service", "parent": "h0", "name": "nsb", "nstype": "OVS", "kw": []}]


def interleaved_cases():
    """additions and removals interleaved around the second alphabet: carriers of sub-interfaces removed after
    add_child_interface (child connected / not connected / removed first), elements removed while their ports are peered or
    mirrored, rename / set / unset on every element kind"""
    base = c09.base_ops("exp")          # h0 n1, h1 n2, h2 nic1 (ports h3 h4), h5 nic2 (ports h6 h7), h8 shnic (port h9)
    lab = lambda v: ["labels", ["lab", {"vlan": v}]]
    out = []
    kids = base + [
        {"op": "add_child_interface", "port": "h3", "name": "sub1", "kw": [lab("101")]},                           # h10
        {"op": "add_child_interface", "port": "h3", "name": "sub2", "kw": [lab("102"), ["capacities", ["cap", {"bw": 1}]]]},  # h11
        {"op": "add_child_interface", "port": "h6", "name": "sub3", "kw": [lab("103")]}]                           # h12
    rms = (("remove_component", {"op": "remove_component", "parent": "h0", "name": "nic1"}),
           ("remove_node", {"op": "remove_node", "name": "n1"}), ("remove_other_node", {"op": "remove_node", "name": "n2"}))
    for tag, rm in rms:
        out.append(("x/children-unconnected/" + tag, "exp", kids + [rm]))
        out.append(("x/children-connected/" + tag, "exp", kids + [
            {"op": "add_service", "name": "sk", "nstype": "L2Bridge", "ifs": ["h10", "h12"], "kw": []}, rm,     # h13
            {"op": "add_service", "name": "sz", "nstype": "L2Bridge", "ifs": ["h11"], "kw": []}]))
        out.append(("x/child-removed-first/" + tag, "exp", kids + [
            {"op": "remove_child_interface", "port": "h3", "name": "sub1"}, rm]))
    out.append(("x/children/service-removed-then-child", "exp", kids + [
        {"op": "add_service", "name": "sk", "nstype": "L2Bridge", "ifs": ["h10", "h7"], "kw": []},               # h13
        {"op": "remove_service", "name": "sk"},
        {"op": "remove_child_interface", "port": "h3", "name": "sub1"},
        {"op": "add_child_interface", "port": "h3", "name": "sub1", "kw": [lab("101")]},
        {"op": "remove_component", "parent": "h0", "name": "nic1"}]))
    out.append(("x/children/disconnect-then-remove", "exp", kids + [
        {"op": "add_service", "name": "sk", "nstype": "L2Bridge", "ifs": ["h10", "h7"], "kw": []},               # h13
        {"op": "disconnect", "svc": "h13", "if": "h10"},
        {"op": "remove_link", "name": "n2-nic2-p2-link"},
        {"op": "remove_component", "parent": "h0", "name": "nic1"}]))
    sw = base + [{"op": "add_switch", "name": "sw1", "site": "RENC", "nports": 2},                                 # h10; ports h11 h12
                 {"op": "add_child_interface", "port": "h11", "name": "sub1", "kw": [lab("101")]},                 # h13
                 {"op": "add_child_interface", "port": "h11", "name": "sub2", "kw": [lab("102")]},                 # h14
                 {"op": "add_child_interface", "port": "h12", "name": "sub3", "kw": [lab("103")]}]                 # h15
    out.append(("x/switch-children/remove_switch", "exp", sw + [
        {"op": "add_service", "name": "sk", "nstype": "L2Bridge", "ifs": ["h13", "h3"], "kw": []}, {"op": "remove_switch", "name": "sw1"}]))
    out.append(("x/switch-children/node_remove_service", "exp", sw + [
        {"op": "add_service", "name": "sk", "nstype": "L2Bridge", "ifs": ["h13", "h3"], "kw": []},
        {"op": "node_remove_service", "parent": "h10", "name": "sw1-ns"}]))
    out.append(("x/switch-children/props-on-child", "exp", sw + [
        {"op": "set_props", "h": "h13", "kw": [["capacities", ["cap", {"bw": 25}]]]},
        {"op": "unset_prop", "h": "h13", "pname": "capacities"}, {"op": "rename", "h": "h13", "name": "subr"},
        {"op": "remove_child_interface", "port": "h11", "name": "subr"}, {"op": "remove_switch", "name": "sw1"}]))
    two = base + [{"op": "add_service", "name": "sa", "nstype": "L3VPN", "ifs": ["h3"], "kw": []},                 # h10
                  {"op": "add_service", "name": "sb", "nstype": "L3VPN", "ifs": ["h6"], "kw": []},                 # h11
                  {"op": "peer", "svc": "h10", "other": "h11", "kw": [["labels", ["lab", {"vlan": "300"}]]]}]
    for tag, rm in (("remove_service", [{"op": "remove_service", "name": "sb"}]), ("unpeer", [{"op": "unpeer", "svc": "h11", "other": "h10"}]),
                    ("remove_link", [{"op": "remove_link", "name": "sa-sb-link"}]),
                    ("remove_node-of-a-connected-port", [{"op": "remove_node", "name": "n1"}, {"op": "remove_service", "name": "sa"}]),
                    ("remove_component-then-unpeer", [{"op": "remove_component", "parent": "h1", "name": "nic2"}, {"op": "unpeer", "svc": "h10", "other": "h11"}])):
        out.append(("x/peered/" + tag, "exp", two + rm))
    # peer() followed by the removal of one side as a whole, through every removal route (not unpeer): the other side's
    # ServicePort must go with the link - topology / node remove_network_service, remove_node / switch / facility of the owner, prune
    mark = lambda h: {"op": "set_props", "h": h, "kw": [["reservation_info", ["rinfo", "Failed"]]]}
    out.append(("x/peered/prune-one-side", "exp", two + [mark("h10"), {"op": "prune", "state": "Failed"}]))
    out.append(("x/peered/prune-owner-of-a-connected-port", "exp", two + [mark("h1"), {"op": "prune", "state": "Failed"}]))
    nodepeer = base + [{"op": "node_add_service", "parent": "h0", "name": "nsa", "nstype": "OVS", "kw": []},        # h10
                       {"op": "node_add_service", "parent": "h1", "name": "nsb", "nstype": "OVS", "kw": []},        # h11
                       {"op": "add_service", "name": "top", "nstype": "L3VPN", "ifs": ["h9"], "kw": []},            # h12
                       {"op": "peer", "svc": "h10", "other": "h11", "kw": []},
                       {"op": "peer", "svc": "h12", "other": "h11", "kw": []}]
    for tag, rm in (("node_remove_service", [{"op": "node_remove_service", "parent": "h0", "name": "nsa"}]),
                    ("remove_node", [{"op": "remove_node", "name": "n1"}]), ("remove_other_node", [{"op": "remove_node", "name": "n2"}]),
                    ("remove_service-of-the-top-one", [{"op": "remove_service", "name": "top"}]),
                    ("remove_service-by-topology", [{"op": "remove_service", "name": "nsb"}]),
                    ("prune", [mark("h10"), {"op": "prune", "state": "Failed"}])):
        out.append(("x/node-services-peered/" + tag, "exp", nodepeer + rm))
    swfac = base + [{"op": "add_switch", "name": "sw1", "site": "RENC", "nports": 1},                               # h10; port h11
                    {"op": "add_facility", "name": "fac", "site": "RENC", "kw": []},                                # h12; interface h13
                    {"op": "add_service", "name": "top", "nstype": "L3VPN", "ifs": [], "kw": []},                   # h14
                    {"op": "_fresh", "kind": "svc", "name": "sw1-ns"}, {"op": "_fresh", "kind": "svc", "name": "fac-ns"},   # h15 h16
                    {"op": "peer", "svc": "h15", "other": "h14", "kw": []}, {"op": "peer", "svc": "h16", "other": "h14", "kw": []}]
    for tag, rm in (("remove_switch", [{"op": "remove_switch", "name": "sw1"}]), ("remove_facility", [{"op": "remove_facility", "name": "fac"}]),
                    ("remove_both", [{"op": "remove_facility", "name": "fac"}, {"op": "remove_switch", "name": "sw1"}, {"op": "remove_service", "name": "top"}])):
        out.append(("x/switch-facility-peered/" + tag, "exp", swfac + rm))
    pm = base + [{"op": "add_port_mirror", "name": "pm1", "to": "h4", "from_name": "nic2-p1", "from_vlan": None, "direction": "Both", "kw": []}]  # h10
    for tag, rm in rms:
        out.append(("x/mirrored/" + tag, "exp", pm + [rm]))
    out.append(("x/mirrored/remove_service", "exp", pm + [{"op": "remove_service", "name": "pm1"}]))
    # rename / set / unset on every element kind (node, component, service, interface, link, facility, switch, storage)
    every = base + [{"op": "add_service", "name": "s1", "nstype": "L2Bridge", "ifs": ["h3"], "kw": []},            # h10
                    {"op": "add_link", "name": "l1", "ltype": "L2Path", "ifs": ["h4", "h6"], "kw": []},            # h11
                    {"op": "add_facility", "name": "fac", "site": "RENC", "kw": []},                               # h12; interface h13
                    {"op": "add_switch", "name": "sw1", "site": "UKY", "nports": 1},                               # h14; port h15
                    {"op": "add_storage", "parent": "h0", "name": "st1", "kw": [["labels", ["lab", {"local_name": "vol"}]]]}]  # h16
    ren = []
    kinds = {"h0": "node", "h2": "comp", "h10": "svc", "h3": "iface", "h11": "link", "h12": "node", "h13": "iface", "h14": "node",
             "h15": "iface", "h16": "comp"}
    for i, h in enumerate(kinds):
        kind = kinds[h]
        ren += [{"op": "set_props", "h": h, "kw": [T.GOOD_KW[kind][0]]}, {"op": "rename", "h": h, "name": "rn%d" % i},
                {"op": "unset_prop", "h": h, "pname": T.GOOD_KW[kind][0][0]}, {"op": "unset_prop", "h": h, "pname": "name"}]
    out.append(("x/props-on-every-kind", "exp", every + ren + [{"op": "remove_node", "name": "rn0"}, {"op": "remove_switch", "name": "rn7"},
                                                               {"op": "remove_facility", "name": "rn5"}]))
    subb = c09.base_ops("sub")
    out.append(("x/sub/children-and-removals", "sub", subb + [
        {"op": "add_child_interface", "port": "h3", "name": "sub1", "nid": "sub1id", "kw": [lab("101")]},         # h10
        {"op": "add_child_interface", "port": "h3", "name": "sub2", "nid": "sub2id", "kw": [lab("102")]},         # h11
        {"op": "add_link", "name": "l1", "nid": "l1id", "ltype": "L2Path", "ifs": ["h10", "h6"], "kw": []},
        {"op": "add_component_mt", "parent": "h1", "name": "mx", "nid": "mxid", "model_type": "SmartNIC_ConnectX_6", "ns_nid": "mxns",
         "if_nids": ["mxi1", "mxi2"], "n_labels": 2, "kw": []},
        {"op": "remove_component", "parent": "h0", "name": "nic1"}, {"op": "remove_node", "name": "n2"}]))
    return out


def catalogue():
    """Every component the catalogue of the tree under test knows - read from its file and from generate_component on every run,
    nothing hard-coded: (ctype, model name to pass, interface types of its ports), once for the Model name and once for every
    AlsoModels name.  The random streams draw 8 common (type, model) pairs; a condition in the user layer that holds for the
    common component types and not for a rare one shows only when every entry is put through every route."""
    import fim.slivers.component_catalog as cc
    from fim.slivers.attached_components import ComponentSliver
    with open(os.path.join(os.path.dirname(cc.__file__), "data", "component_catalog.json")) as f:
        cat = json.load(f)
    out = []
    for c in cat:
        for m in [c["Model"]] + list(c.get("AlsoModels") or []):
            itypes = [None] * len(c.get("Interfaces") or {})
            try:
                cs = cc.ComponentCatalog().generate_component(name="XX", model=m, ctype=ComponentSliver.type_from_str(c["Type"]))
                nsi = cs.network_service_info
                got = [str(i.get_type()) for ns in (nsi.network_services.values() if nsi is not None else [])
                       for i in (ns.interface_info.interfaces.values() if ns.interface_info is not None else [])]
                if len(got) == len(itypes):
                    itypes = got
            except Exception:
                pass
            out.append((c["Type"], m, itypes, m != c["Model"]))
    return out


SWEEP_ROUTES = {"exp": ("remove_component", "remove_storage", "remove_node", "prune-component", "prune-node", "remove_service-first",
                        "disconnect-first"),
                "sub": ("remove_component", "remove_node")}


def sweep_ops(fl, ctype, model, itypes, ntype, conn, route, ids=False):
    """One catalogue entry attached to a node of type `ntype`, its ports connected the way `conn` says (bridge: first port - and a
    sub-interface of the second, when that is a dedicated port - in L2Bridge services; mirror: port-mirror service onto the first
    port; link: a plain link from the first port), then removed through `route`, then one more creating call."""
    sub = fl.startswith("sub") or ids          # ids: an experiment topology with caller-supplied ids throughout (the histories of
    I = (lambda s: s) if sub else (lambda s: None)                      # C07.sweepPre in Lean)
    n = len(itypes)
    ops = [
        {"op": "add_node", "name": "n1", "nid": I("n1id"), "site": "RENC", "ntype": ntype, "kw": []},                       # h0
        {"op": "add_node", "name": "n2", "nid": I("n2id"), "site": "UKY", "ntype": "Server" if fl.startswith("sub") else "VM", "kw": []},    # h1
        {"op": "add_component", "parent": "h1", "name": "nic0", "nid": I("c0id"), "ctype": "SharedNIC", "model": "ConnectX-6",
         "ns_nid": I("c0ns"), "if_nids": ["c0i1"] if sub else None, "n_labels": 1 if sub else None, "kw": []},              # h2; port h3
        {"op": "add_component", "parent": "h0", "name": "dev1", "nid": I("c1id"), "ctype": ctype, "model": model,
         "ns_nid": I("c1ns") if n else None, "if_nids": ["c1i%d" % i for i in range(n)] if sub and n else None,
         "n_labels": n if sub and n else None, "kw": []}]                                                                    # h4; ports h5..
    nxt = 5 + n
    svc = None
    if n and conn == "bridge":
        ops.append({"op": "add_service", "name": "br1", "nid": I("br1id"), "nstype": "L2Bridge", "ifs": ["h5", "h3"], "kw": []})
        svc, nxt = "h%d" % nxt, nxt + 1
        if n >= 2 and itypes[1] == "DedicatedPort":
            ops.append({"op": "add_child_interface", "port": "h6", "name": "sub1", "nid": I("sub1id"), "kw": [["labels", ["lab", {"vlan": "100"}]]]})
            ops.append({"op": "add_service", "name": "br2", "nid": I("br2id"), "nstype": "L2Bridge", "ifs": ["h%d" % nxt], "kw": []})
            nxt += 2
    elif n and conn == "mirror":
        ops.append({"op": "add_port_mirror", "name": "pm1", "nid": I("pm1id"), "to": "h5", "from_name": "nic0-p1", "from_vlan": None,
                    "direction": "Both", "kw": []})
        svc, nxt = "h%d" % nxt, nxt + 1
    elif n and conn == "link":
        ops.append({"op": "add_link", "name": "l1", "nid": I("l1id"), "ltype": "L2Path", "ifs": ["h5", "h3"], "kw": []})
        nxt += 1
        if n >= 2 and itypes[1] == "DedicatedPort":         # an unconnected sub-interface goes with its carrier
            ops.append({"op": "add_child_interface", "port": "h6", "name": "sub1", "nid": I("sub1id"), "kw": [["labels", ["lab", {"vlan": "100"}]]]})
            nxt += 1
    mark = lambda h: {"op": "set_props", "h": h, "kw": [["reservation_info", ["rinfo", "Failed"]]]}
    rm = {"op": "remove_component", "parent": "h0", "name": "dev1"}
    if route == "remove_component":
        ops.append(rm)
    elif route == "remove_storage":
        ops.append(dict(rm, via="remove_storage"))
    elif route == "remove_node":
        ops.append({"op": "remove_node", "name": "n1"})
    elif route == "prune-component":
        ops += [mark("h4"), {"op": "prune", "state": "Failed"}]
    elif route == "prune-node":
        ops += [mark("h0"), {"op": "prune", "state": "Failed"}]
    elif route == "remove_service-first":
        if svc is not None:
            ops.append({"op": "remove_service", "name": "br1" if conn == "bridge" else "pm1"})
        ops.append(rm)
    elif route == "disconnect-first":
        if svc is not None and conn == "bridge":
            ops.append({"op": "disconnect", "svc": svc, "if": "h5"})
        ops.append(rm)
    ops.append({"op": "add_service", "name": "after", "nid": I("afterid"), "nstype": "L2Bridge", "ifs": [], "kw": []})
    return ops


def catalogue_sweep_cases(thorough=False):
    """catalogue entry x connection x removal route (x owner node type, rotating): quick tier - every Model name through every route
    with its ports bridged, and through remove_component / prune with a port mirror and a plain link; thorough - the full product,
    AlsoModels names included.  Components without ports go through the routes that remove the component itself."""
    out = []
    k = 0
    for ctype, model, itypes, also in catalogue():
        if also and not thorough:
            continue
        for fl in ("exp", "sub"):
            for route in SWEEP_ROUTES[fl]:
                if not itypes and route in ("remove_service-first", "disconnect-first", "prune-node", "remove_node"):
                    continue
                # (a substrate topology refuses a service over node ports: its ports are joined by plain links)
                for conn in (("bridge", "mirror", "link") if fl == "exp" else ("link",)) if itypes else ("none",):
                    if not thorough and fl == "exp" and conn != "bridge" and route not in ("remove_component", "prune-component"):
                        continue
                    if conn == "link" and route in ("remove_service-first", "disconnect-first"):
                        continue
                    ntype = T.NODE_TYPES[k % len(T.NODE_TYPES)]
                    k += 1
                    out.append(("sweep/%s/%s/%s/%s/%s" % (ctype, model, conn, route, ntype), fl,
                                sweep_ops(fl, ctype, model, itypes, ntype, conn, route)))
        if itypes:        # the histories of the Lean theorem catalogue_teardown_keeps_invS: caller-supplied ids, owner a VM
            for conn, route in (("bridge", "remove_component"), ("mirror", "remove_node"), ("bridge", "prune-component")):
                out.append(("sweep/%s/%s/%s/%s/VM+ids" % (ctype, model, conn, route), "exp",
                            sweep_ops("exp", ctype, model, itypes, "VM", conn, route, ids=True)))
    return out


def retype_cases():
    """set_property / set_properties with the keywords `name` and `type`: the generic property setter writes Name and Type like
    any other property - no uniqueness guard, no look at what the element is connected to (known findings)"""
    base = c09.base_ops("exp")
    return [
        ("set-name-to-taken/node", "exp", base + [{"op": "set_props", "h": "h1", "kw": [["name", ["str", "n1"]]]}]),
        ("set-name-to-taken/component", "exp", base + [{"op": "set_props", "h": "h8", "kw": [["name", ["str", "nic1"]]]}]),
        ("set-name-to-taken/interface", "exp", base + [
            {"op": "node_add_service", "parent": "h0", "name": "nsa", "nstype": "OVS", "kw": []},                    # h10
            {"op": "ns_add_interface", "svc": "h10", "name": "ia", "itype": "TrunkPort", "kw": []},                  # h11
            {"op": "ns_add_interface", "svc": "h10", "name": "ib", "itype": "TrunkPort", "kw": []},                  # h12
            {"op": "set_props", "h": "h12", "single": False, "kw": [["name", ["str", "ia"]], ["capacities", ["cap", {"bw": 25}]]]}]),
        ("set-name-to-taken/link", "exp", named_pre() + [{"op": "set_props", "h": "h13", "kw": [["name", ["str", "l1"]]]}]),
        ("set-name-to-taken/node-service", "exp", named_pre() + [{"op": "set_props", "h": "h15", "kw": [["name", ["str", "nsa"]]]}]),
        ("set-name-to-taken/top-service", "exp", named_pre() + [{"op": "set_props", "h": "h11", "kw": [["name", ["str", "s1"]]]}]),
        ("set-name-to-taken/top-service-to-owned-name", "exp", named_pre() + [{"op": "set_props", "h": "h11", "kw": [["name", ["str", "n1-nic1-l2ovs"]]]}]),
        ("set-type/service-port", "exp", base + [{"op": "set_props", "h": "h3", "kw": [["type", ["enum", "InterfaceType", "ServicePort"]]]}]),
        ("set-type/facility-and-back", "exp", base + [
            {"op": "set_props", "h": "h1", "kw": [["type", ["enum", "NodeType", "Facility"]]]},
            {"op": "add_node", "name": "n3", "site": "RENC", "ntype": "VM", "kw": []},
            {"op": "set_props", "h": "h1", "kw": [["type", ["enum", "NodeType", "VM"]]]},
            {"op": "remove_node", "name": "n2"}]),
    ]


RENAME_HOWS = ("rename", "set_property", "set_properties", "name=")
RENAME_TARGETS = (
    # tag, handle, new name, name of nic1 afterwards, name of n1 afterwards
    ("port-to-fresh", "h3", "px", "nic1", "n1"),                 # the ServicePort / link names derived from the old name stay behind
    ("port-to-name-of-sibling-port", "h3", "shnic-p1", "nic1", "n1"),   # legal (own service each); name-keyed Node.interfaces collapses
    ("owner-node-to-fresh", "h0", "nx", "nic1", "nx"),
    ("owner-component-to-fresh", "h2", "cx", "cx", "n1"),
    ("sibling-component-to-name-of-owner", "h8", "nic1", "nic1", "n1"),   # two components of one name in n1 (rename is unguarded: known)
)
RENAME_ROUTES = ("disconnect", "remove_component", "remove_storage", "remove_node", "remove_service", "prune-component", "prune-node",
                 "prune-port", "remove_link")


def rename_then_remove_ops(tag, h, new, cname, nname, how, route):
    """base_ops + a bridge over nic1-p1 (h3), shnic-p1 (h9) of n1 and nic2-p1 (h6) of n2; then ONE element of the connection's
    naming chain (<owner node>-<port name> names the ServicePort and the link) gets a new name through `how`; then `route`
    removes / disconnects; then one more creating call"""
    ops = c09.base_ops("exp") + [{"op": "add_service", "name": "s1", "nstype": "L2Bridge", "ifs": ["h3", "h9", "h6"], "kw": []}]      # h10
    if how == "rename":
        ops.append({"op": "rename", "h": h, "name": new})
    elif how == "name=":
        ops.append({"op": "set_attr", "h": h, "attr": "name", "val": ["str", new]})
    else:
        second = {"h3": ["capacities", ["cap", {"bw": 25}]], "h0": ["capacities", ["cap", {"core": 2, "ram": 8}]]}.get(h, ["details", ["str", "d"]])
        ops.append({"op": "set_props", "h": h, "single": how == "set_property", "kw": [["name", ["str", new]]] + ([] if how == "set_property" else [second])})
    mark = lambda hh: {"op": "set_props", "h": hh, "kw": [["reservation_info", ["rinfo", "Failed"]]]}
    rm = {"op": "remove_component", "parent": "h0", "name": cname}
    ops += {"disconnect": [{"op": "disconnect", "svc": "h10", "if": "h3"}, rm],
            "remove_component": [rm],
            "remove_storage": [dict(rm, via="remove_storage")],
            "remove_node": [{"op": "remove_node", "name": nname}],
            "remove_service": [{"op": "remove_service", "name": "s1"}, rm],
            "prune-component": [mark("h2"), {"op": "prune", "state": "Failed"}],
            "prune-node": [mark("h0"), {"op": "prune", "state": "Failed"}],
            "prune-port": [mark("h3"), {"op": "prune", "state": "Failed"}],
            # (h3 is the first port the interface list shows - p1 or p2, the store's order: one of the two calls finds no such link)
            "remove_link": [{"op": "remove_link", "name": "n1-nic1-p1-link"}, {"op": "remove_link", "name": "n1-nic1-p2-link"}, rm]}[route]
    ops.append({"op": "add_service", "name": "after", "nstype": "L2Bridge", "ifs": ["h7"], "kw": []})
    return ops


def rename_then_remove_cases(thorough=False):
    """A CONNECTED interface, its owner component, its owner node or a sibling component renamed (rename() / set_property('name') /
    set_properties(name=) / `element.name = `), then every removal route.  Quick tier: every (target, route) pair with the four ways
    of renaming rotating, and all four ways for the target that gives two components one name on the three routes that went wrong
    before fix 4a83e34 (remove_component, remove_node, prune of the component); thorough: the full product."""
    out, k = [], 0
    for tag, h, new, cname, nname in RENAME_TARGETS:
        for route in RENAME_ROUTES:
            k += 1
            for j, how in enumerate(RENAME_HOWS):
                full = tag == "sibling-component-to-name-of-owner" and route in ("remove_component", "remove_node", "prune-component")
                if not thorough and not full and j != k % len(RENAME_HOWS):
                    continue
                out.append(("renamed/%s/%s/%s" % (tag, how, route), "exp", rename_then_remove_ops(tag, h, new, cname, nname, how, route)))
    return out


def corpus_cases(oracle_only=True):
    out = []
    for fn in sorted(glob.glob(os.path.join(CORPUS, "*.json"))):
        with open(fn) as f:
            c = json.load(f)
        if c.get("oracle_only") and not oracle_only:        # (the reason is the value of the field)
            continue
        out.append((os.path.basename(fn), c["flavour"], c["ops"]))
    return out


def correspondence(ctx, res):
    hs = []
    def grab(sess, st, cnt=[0]):
        cnt[0] += 1
        if cnt[0] % 4 == 0:
            names = [n[2] for n in st["after"]["nodes"] if n[0] in ("NetworkNode", "Link", "NetworkService")]
            if len(set(names)) == len(names):          # a name-keyed dictionary over same-named elements: known findings, not modelled
                try:
                    st["viewcalls"] = py_view_calls(sess.topo)
                except Exception:       # a view that cannot even be built: the oracle's finding (C07:views:raise:...), nothing to compare here
                    res.count("view-calls-not-taken:view-raised")
    for j, (name, fl, ops) in enumerate(corpus_cases(oracle_only=False) + deterministic_cases() + interleaved_cases()):
        # every scripted history on both in-memory stores: here the odd ones on the disjoint store, in the oracle the even ones
        hs.append(c09.run_history(fl + ("+d" if j % 2 == 1 and "+" not in fl else ""), scripted(ops), on_step=grab))
    n = ctx.scale(20, 110)
    for i in range(n):
        fl = stream_flavour(i)
        # every second history also draws from the second alphabet (sub-interfaces, peer/unpeer, port mirror, model_type=, prune)
        hs.append(c09.run_history(fl, history_gen(ctx.sub_rng("c07corr/%d" % i), 0.15, ext=(i % 2 == 1)), nmax=ctx.scale(25, 40), on_step=grab))
    nsel = len(hs)
    # the catalogue sweep (every component model x connection x removal route), alternating stores; compared call by call like the rest
    for j, (name, fl, ops) in enumerate(catalogue_sweep_cases(ctx.scale(False, True))):
        hs.append(c09.run_history(fl + ("+d" if j % 2 == 0 else ""), scripted(ops)))
        res.count("sweep-corr:" + "/".join(name.split("/")[1:2] + name.split("/")[3:5]))
    c09.compare_with_model(hs, res)
    # the views as pure functions of the state, and the verdict of every conjunct of Topo.Inv on every state of the run:
    # the model's (Lean predicate on the model state) against the oracle's (published rules on the implementation's graph)
    hsel = hs[: min(nsel, ctx.scale(75, 190))]
    for lo in range(0, len(hsel), 60):
        lines, want = [], []
        for h in hsel[lo:lo + 60]:
            if not h:
                continue
            lines.append(json.dumps({"op": "reset"}))
            want.append(None)
            for i, st in enumerate(h):
                lines.append(json.dumps({"op": "covered", "call": st["line"]}, sort_keys=True))
                want.append(("covered", st["op"]["op"], None))
                lines.append(T.lean_line(st["line"]))
                want.append(None)
                lines.append(json.dumps({"op": "inv"}))
                want.append(("inv", py_verdicts(st["after"]), {"ops": [x["op"] for x in h[:i + 1]], "flavour": st.get("flavour", st["line"]["fl"])}))
                for kind, (k0, rows) in (st.get("viewcalls") or {}).items():
                    lines.append(json.dumps({"op": "view_calls", "view": kind, "calls": view_call_list(k0)}))
                    want.append(("viewcalls", rows, {"view": kind, "key": k0, "ops": [x["op"] for x in h[:i + 1]]}))
            lines.append(json.dumps({"op": "views"}))
            ev = expected_views(h[-1]["after"])
            want.append(("views", {k: ev[k] for k in ("nodes", "facilities", "links", "services")}, None))
        rep = LeanDriver("C07").run(lines)
        pending = None
        for w, r in zip(want, rep):
            if w is None:
                continue
            res.evaluations += 1
            j = json.loads(r)
            if w[0] == "covered":
                # the guards of the history theorems, evaluated by the driver in the state before the call
                pending = (w[1], j[1])
                for k in ("coveredS", "coveredD", "coveredN"):
                    res.count("%s:%s:%s" % (k, "yes" if j[1][k] else "no", w[1]))
                continue
            if w[0] == "viewcalls":
                got = [[x[0][:1] + [sorted(x[0][1]) if isinstance(x[0][1], list) else x[0][1]], sorted(x[1])] for x in j[1]]
                for (c, _), a, b in zip(view_call_list(w[2]["key"]), w[1], got):
                    res.count("view-call:%s:%s" % (c, a[0][0] if a[0][0] == "ok" else a[0][1]))
                if got != w[1]:
                    res.disagreements.append({"case": dict(w[2], what="a call on a read-only view behaves differently"), "impl": w[1], "model": got})
                continue
            if w[0] == "views":
                res.count("op:views")
                got = {k: sorted(v) for k, v in j[1].items()}
                if got != w[1]:
                    res.disagreements.append({"case": "views", "impl": w[1], "model": got})
            else:
                res.count("op:inv")
                got = {k: j[1][k] for k in w[1]}
                if j[1]["closed"] is not True:
                    got["closed"] = False
                if pending is not None:
                    # an instance of inv_op / invD_op on the executable model: guard and invariant before => invariant after
                    opk, pre = pending
                    for cov, inv in (("coveredS", "invS"), ("coveredD", "invD"), ("coveredN", "invSN")):
                        if pre[cov] and pre[inv]:
                            res.count("theorem-instance:" + inv)
                            if not j[1][inv]:
                                res.disagreements.append({"case": dict(w[2], what="%s held and %s covered the call, but %s fails after it" % (inv, cov, inv)),
                                                          "impl": None, "model": j[1]})
                    pending = None
                for k in w[1]:
                    if not w[1][k]:
                        res.count("inv-false:" + k)
                if got != w[1]:
                    res.disagreements.append({"case": dict(w[2], what="verdict of Topo.Inv differs from the rule oracle's",
                                                           differ=sorted(k for k in w[1] if got[k] != w[1][k])),
                                              "impl": w[1], "model": got})
    # set_property / set_properties with the keywords name / type (Model/TopoExt.lean, through the C07 driver only)
    rlines, rsteps = [], []
    # ... and the renamed-then-removed family (every way of renaming the model can follow: not `element.name = `, which the harness
    # sends no request for), alternating stores: the removal routes after a rename, call by call against the model
    # (with two components of one name, which of them a by-name remove_component reaches is the store's neighbour order - a set of
    # ids in the code, storage order in the model: those histories are the oracle's only; remove_node / prune of the node or the
    # port do not go through the ambiguous name)
    renamed = [c for c in rename_then_remove_cases(ctx.scale(False, True)) if "/name=/" not in c[0] and
               (not c[0].startswith("renamed/sibling-component-to-name-of-owner/") or c[0].split("/")[3] in ("remove_node", "prune-node", "prune-port"))]
    for j, (name, fl, ops) in enumerate(retype_cases() + renamed):
        rlines.append(json.dumps({"op": "reset"}))
        rsteps.append(None)
        if name.startswith("renamed/"):
            fl = fl + ("+d" if j % 2 else "")
            res.count("renamed-corr:" + "/".join(name.split("/")[1:2] + name.split("/")[3:4]))
        for st in c09.run_history(fl, scripted(ops)):
            rlines.append(T.lean_line(st["line"]))
            rsteps.append((name, st))
    for x, r in zip(rsteps, LeanDriver("C07").run(rlines)):
        if x is None:
            continue
        name, st = x
        m_out, m_snap = T.parse_reply(r)
        res.evaluations += 1
        res.count("op:%s(name/type)" % st["op"]["op"] if st["op"]["op"] == "set_props" else "op:" + st["op"]["op"])
        if m_out[:2] != st["outcome"][:2] or m_snap != st["after"]:
            res.disagreements.append({"case": {"label": name, "ops": st["history"], "line": st["line"]},
                                      "impl": {"outcome": st["outcome"][:2], "diff": T.snap_diff(m_snap or {"nodes": [], "edges": []}, st["after"])},
                                      "model": m_out[:2]})
    res.nontrivial = {x for x in res.nontrivial}
    for h in hs:
        if non_trivial(h):
            res.nontrivial.add(core.sha(canon([s["op"]["op"] for s in h])))


# --------------------------------------------------------------------------
# sub-interfaces (add_child_interface / remove_child_interface are not in the Lean model): oracle only, directly on the API

def child_history(rng, nsteps, record, flavour="exp"):
    """Build a small slice whose dedicated ports carry sub-interfaces, connect some of them, then remove carriers.
    `record(call, topo)` is called after every building call.  Every choice comes from `rng`; returns the list of calls."""
    import fim.user as f
    topo = T.new_topology(flavour)
    calls = []

    def did(call):
        calls.append(call)
        record(list(calls), topo)
    try:
        with T.det_uuids():
            nodes, carriers, kids = [], [], []
            for k in range(2):
                n = topo.add_node(name="n%d" % k, site=rng.choice(T.SITES))
                nodes.append(n)
                did(["add_node", n.name])
                c = n.add_component(name="nic%d" % k, model_type=rng.choice(
                    [f.ComponentModelType.SmartNIC_ConnectX_6, f.ComponentModelType.SmartNIC_ConnectX_5, f.ComponentModelType.FPGA_Xilinx_U280]))
                carriers.append(("comp", n, c))
                did(["add_component", n.name, c.name])
            sw = topo.add_switch(name="sw", site="RENC", nports=2)
            carriers.append(("switch", None, sw))
            did(["add_switch", "sw"])
            vlan = [100]
            for _ in range(nsteps):
                k = rng.choice(["child", "child", "child", "connect", "rm_child", "rm_carrier", "rm_service"])
                try:
                    if k == "child" and carriers:
                        kind, n, c = rng.choice(carriers)
                        port = rng.choice(list(c.interface_list))
                        vlan[0] += 1
                        name = "sub%d" % vlan[0]
                        ch = port.add_child_interface(name=name, labels=f.Labels(vlan=str(vlan[0])))
                        kids.append((port, ch))
                        did(["add_child_interface", c.name, port.name, name])
                    elif k == "connect" and kids:
                        port, ch = rng.choice(kids)
                        sname = "s%d" % len(calls)
                        topo.add_network_service(name=sname, nstype=f.ServiceType.L2Bridge, interfaces=[ch])
                        did(["add_network_service", sname, ch.name])
                    elif k == "rm_child" and kids:
                        port, ch = kids.pop(rng.randrange(len(kids)))
                        port.remove_child_interface(name=ch.name)
                        did(["remove_child_interface", port.name, ch.name])
                    elif k == "rm_carrier" and carriers:
                        kind, n, c = carriers.pop(rng.randrange(len(carriers)))
                        if kind == "switch":
                            topo.remove_switch(name=c.name)
                            did(["remove_switch", c.name])
                        elif rng.random() < 0.5:
                            n.remove_component(name=c.name)
                            did(["remove_component", n.name, c.name])
                        else:
                            topo.remove_node(name=n.name)
                            carriers[:] = [x for x in carriers if x[1] is not n]
                            did(["remove_node", n.name])
                        alive = set()
                        for _, _, cc in carriers:
                            alive.update(i.node_id for i in cc.interface_list)
                        kids[:] = [(p, x) for p, x in kids if p.node_id in alive]
                    elif k == "rm_service" and topo.network_services:
                        cand = [x for x in topo.network_services if x.startswith("s") and not x.startswith("sw")]
                        if cand:
                            sname = rng.choice(sorted(cand))
                            topo.remove_network_service(name=sname)
                            did(["remove_network_service", sname])
                except Exception as e:       # a rejected call: the model must still satisfy the rules
                    did(["rejected:" + k, core.err_kind(e)])
    finally:
        T.drop_topology(topo)
    return calls


def oracle_children(ctx, res, n):
    for i in range(n):
        rng = ctx.sub_rng("c07children/%d" % i)
        seen = set()

        def record(calls, topo, i=i):
            res.evaluations += 1
            res.count("child-op:" + calls[-1][0])
            snap = T.snapshot(topo)
            for rule, cls, detail in check_rules(snap):
                if (rule, cls) in seen:
                    continue
                seen.add((rule, cls))
                res.violation("C07:%s:%s:%s" % (rule, cls, calls[-1][0]), "after %s the model breaks rule '%s' (%s)" % (calls[-1][0], rule, cls),
                              {"children": True, "stream": i, "calls": calls}, observed=detail)
            if any(n[3] == "SubInterface" for n in snap["nodes"]):
                res.nontrivial.add("children:" + core.sha(canon([c[0] for c in calls])))
        child_history(rng, ctx.scale(8, 14), record, flavour="exp+d" if i % 2 else "exp")


def oracle(ctx, res, budget=None):
    both = ctx.scale(False, True)           # thorough: every scripted history on both stores; quick: alternating (the other half runs
    j = 0                                   # on the other store in correspondence())

    def backends(fl):
        nonlocal j
        j += 1
        if "+" in fl:
            return [fl]
        return [fl, fl + "+d"] if both else [fl + ("+d" if j % 2 == 1 else "")]
    for name, fl, ops in corpus_cases():
        for f in backends(fl):
            run_and_check(f, ops, res, "corpus:" + name, views_every=1)
    for name, fl, ops in deterministic_cases():
        for f in backends(fl):
            run_and_check(f, ops, res, name, views_every=1)
    for name, fl, ops in retype_cases():
        for f in backends(fl):
            run_and_check(f, ops, res, name, views_every=1)
    # a connected interface / its owner component / its owner node / a sibling component renamed, then every removal route: on BOTH
    # stores in both tiers (the removal routes find what to disconnect through names, name-keyed dictionaries and the graph)
    for name, fl, ops in rename_then_remove_cases(ctx.scale(False, True) or budget is not None):
        for f in (fl, fl + "+d"):
            run_and_check(f, ops, res, name, views_every=ctx.scale(6, 1))
            res.count("renamed-then-removed:" + "/".join(name.split("/")[1:2] + name.split("/")[3:4]))
    for name, fl, ops in interleaved_cases():
        for f in backends(fl):
            run_and_check(f, ops, res, name, views_every=ctx.scale(3, 1), elements_every=ctx.scale(2, 1))
    # every catalogue entry attached, connected and removed through every route (see catalogue_sweep_cases); the full product in
    # the thorough tier and in search()
    for name, fl, ops in catalogue_sweep_cases(ctx.scale(False, True) or budget is not None):
        for f in backends(fl):
            run_and_check(f, ops, res, name, views_every=ctx.scale(3, 2))
            res.count("sweep:" + "/".join(name.split("/")[1:2] + name.split("/")[3:5]))
    if budget is None:
        for fl in ctx.scale(("exp",), ("exp", "sub", "exp+d", "sub+d")):         # C09's scripted failing calls of the second alphabet: the rules hold after each of them too
            for tag, ops in c09.extension_cases(fl, c09.base_ops(fl)):
                run_and_check(fl, ops, res, "c09ext:" + tag, views_every=ctx.scale(7, 2))
    n = budget or ctx.scale(18, 150)
    for i in range(n):
        fl = stream_flavour(i)
        run_and_check(fl, history_gen(ctx.sub_rng("c07oracle/%d" % i), 0.15, ext=(i % 3 != 0), set_name=True), res, "random", nmax=ctx.scale(25, 40),
                      views_every=ctx.scale(4, 3))
    oracle_children(ctx, res, ctx.scale(12, 80) if budget is None else budget // 4)
    res.sample({"oracle": "rules of graph_validation_rules.json (minus the two slice cardinality rules) + containment + name scopes on the "
                          "extracted graph after every call; views vs class listings; mutation through views"})


def search(ctx, res, broken):
    oracle(ctx, res, budget=ctx.scale(500, 3000))


def replay(ctx, payload):
    c = payload["case"]
    r = core.Result()
    if c.get("children"):
        oracle_children(ctx, r, c["stream"] + 1)
        hit = [v for v in r.violations if v["signature"] == payload.get("signature")]
        for v in hit:
            print("  ", v["signature"], v["what"], json.dumps(v.get("observed"))[:600])
        return bool(hit)
    run_and_check(c["flavour"], c["ops"], r, "replay", views_every=1)
    hit = [v for v in r.violations if v["signature"] == payload.get("signature")] or r.violations
    for v in hit:
        print("  ", v["signature"], v["what"], json.dumps(v.get("observed"))[:600])
    return bool(hit)
